"""C09 — in-channel login answers the right prompt, once, and gives up safely.
Lean: ScrapliModel/{AuthPat,Auth}.lean, ScrapliProps/{C09Lemmas,C09}.lean, Drv/C09.lean.
Real code: Channel / AsyncChannel .channel_authenticate_telnet / _ssh (and driver.open() for the dispatch) over
harness/logindevice.py (causal login device, scripted clock).  See design/C09.md."""
import asyncio, itertools, json, re
from pathlib import Path

from vlib.common import Check, VERIF, hexs, run_model, unhex
from harness.simtransport import SimStall
import translate

PID = "C09"
FID = "F13"        # a read boundary right after a banner line prefix that a credential pattern accepts
FID_KICK = "F23"   # a chunk that is empty only after `\\r` removal counts as "nothing arrived" and triggers a return
LOOPS = {("telnet", "sync"): "syncTelnet", ("telnet", "async"): "asyncTelnet", ("ssh", "sync"): "syncSsh", ("ssh", "async"): "asyncSsh"}

# ------------------------------------------------------------------ the oracle's own constants (OpenSSH client texts)
ORACLE_FATAL = [b"host key verification failed", b"connection timed out", b"operation timed out", b"no route to host",
                b"no matching host key type found", b"no matching key exchange method found", b"no matching cipher found",
                b"bad configuration option", b"could not resolve hostname", b"permission denied"]
MAXW = 2   # "submitted at most twice"


# ------------------------------------------------------------------ cases
def B(x):
    return x.encode("latin-1") if isinstance(x, str) else x


def S(x):
    return x.decode("latin-1") if isinstance(x, (bytes, bytearray)) else x


DEV_BYTES = ("username", "password", "passphrase", "user_prompt", "pass_prompt", "phrase_prompt", "pre", "banner",
             "shell_prompt", "nl", "reject_msg", "fatal", "ssh_user_host")


def mk_device(case):
    from harness.logindevice import LoginDevice
    kw = {}
    for k, v in case["dev"].items():
        kw[k] = B(v) if (k in DEV_BYTES and v is not None) else v
    return LoginDevice(case["flavour"], **kw)


def mk_cuts(spec):
    from harness.simtransport import CutAt, CutList, CutOne, Cuts
    if spec[0] == "all":
        return Cuts()
    if spec[0] == "one":
        return CutOne()
    if spec[0] == "at":
        return CutAt(spec[1])
    return CutList(spec[1])


def creds(case):
    c = case["creds"]
    return B(c["username"]), B(c["password"]), B(c.get("passphrase") or "")


def _outcome(exc):
    from harness.simtransport import SimStall
    from scrapli.exceptions import ScrapliAuthenticationFailed, ScrapliConnectionError
    if exc is None:
        return "done"
    if isinstance(exc, SimStall):
        return "running"
    if isinstance(exc, ScrapliAuthenticationFailed):
        m = str(exc)
        if m.startswith("password prompt seen"):
            return "authfailed-P"
        if m.startswith("username/login prompt seen"):
            return "authfailed-U"
        if m.startswith("passphrase prompt seen"):
            return "authfailed-H"
        return "fatal"
    if isinstance(exc, ScrapliConnectionError):
        return "connerror"
    return "other:" + type(exc).__name__ + ":" + str(exc)[:80]


CHAN_PROMPT = [None]


def _chan_prompt():
    if CHAN_PROMPT[0] is None:
        from scrapli.channel.base_channel import BaseChannelArgs
        CHAN_PROMPT[0] = BaseChannelArgs().comms_prompt_pattern
    return CHAN_PROMPT[0]


def _targs():
    from scrapli.transport.base import BaseTransportArgs
    return BaseTransportArgs(transport_options={}, host="sim", port=23, timeout_socket=1, timeout_transport=0, logging_uid="")


def _mk_object(case, divisor):
    """the object that logs in (possibly several times): (driver or None, channel, transport args).
    via=driver: GenericDriver with all defaults, logins through open()/close();
    build=driver: base Driver/AsyncDriver with default arguments (so the auth patterns are the ones a driver ends up with), the
                  login loop called on its channel;   build=args: Channel(BaseChannelArgs()) directly"""
    from harness import logindevice as L
    from scrapli.channel import AsyncChannel, Channel
    from scrapli.channel.base_channel import BaseChannelArgs
    L.install_clock()
    sync = case["stack"] == "sync"
    u, p, h = creds(case)
    name = {"telnet": "telnet" if sync else "asynctelnet", "ssh": "system" if sync else "asynctelnet"}[case["flavour"]]
    if case.get("via") == "driver":
        from harness.simtransport import make_conn
        # platform: a core platform driver WITH its default on_open / on_close hooks; otherwise GenericDriver without hooks
        hook_kw = {} if case.get("platform") else {"on_open": None}
        conn, t = make_conn(case.get("platform") or "generic", None, stack=case["stack"], transport=name, auth_bypass=case.get("auth_bypass", False),
                            auth_username=S(u), auth_password=S(p), auth_private_key_passphrase=S(h),
                            timeout_ops=case["ivl"] * divisor, channel_lock=bool(case.get("channel_lock", False)), **hook_kw,
                            **({"comms_prompt_pattern": _chan_prompt()} if case.get("drvprompt") == "c" else {}))
        return conn, conn.channel, conn._base_transport_args
    if case.get("build") == "driver":
        from scrapli.driver import AsyncDriver, Driver
        conn = (Driver if sync else AsyncDriver)(host="sim", transport=name, auth_username=S(u), auth_password=S(p),
                                                 auth_private_key_passphrase=S(h), comms_prompt_pattern=_chan_prompt(),
                                                 timeout_ops=case["ivl"] * divisor, timeout_transport=0,
                                                 channel_lock=bool(case.get("channel_lock", False)))
        return conn, conn.channel, conn._base_transport_args
    targs = _targs()
    from harness.simtransport import SimTransport
    ch = (Channel if sync else AsyncChannel)(transport=SimTransport(targs, None), base_channel_args=BaseChannelArgs(timeout_ops=case["ivl"] * divisor, channel_lock=bool(case.get("channel_lock", False))))
    return None, ch, targs


def _attach(case, sub, obj, divisor):
    """fresh device + transport for one login of `sub` on the object"""
    from harness import logindevice as L
    conn, ch, targs = obj
    sync = case["stack"] == "sync"
    dev = mk_device(dict(sub, flavour=case["flavour"]))
    clock = L.FakeClock()
    tk = dict(cuts=mk_cuts(sub["cuts"]), on_empty=sub.get("on_empty", "stall"), clock=clock, dts=sub.get("dts", ()),
              eof=sub.get("eof", "raise"), budget=sub.get("budget", 12), err_at=sub.get("err_at", ()),
              lag_at={int(k): v for k, v in (sub.get("lag_at") or {}).items()})
    # what the device printed on connect and in reaction to every write (for the closed-system model `sysRunI`)
    dev.g0, dev.reacts = None, []
    _c, _w = dev.connect, dev.on_write

    def _connect():
        out = _c()
        dev.g0 = out if dev.g0 is None else dev.g0 + out
        return out

    def _on_write(data):
        st = dev.state
        out = _w(data)
        dev.reacts.append((st, bytes(data), bytes(out)))
        return out
    dev.connect, dev.on_write = _connect, _on_write
    t = (L.LoginSimTransport if sync else L.AsyncLoginSimTransport)(targs, dev, **tk)
    ch.transport = t
    if conn is not None:
        conn.transport = t
    ch._base_channel_args.timeout_ops = case["ivl"] * divisor
    if sub.get("depth") or case.get("depth"):
        ch._base_channel_args.comms_prompt_search_depth = sub.get("depth") or case.get("depth")
    return dev, t, clock


def _mark_login(ch, t, mark, is_async):
    """driver-level runs: note where the in-channel login loop (called by open()) ended and how, so that what open() does
    AFTERWARDS (hooks, close) can be told from the login itself"""
    for name in ("channel_authenticate_telnet", "channel_authenticate_ssh"):
        orig = getattr(type(ch), name)

        def note(exc):
            mark.update(trace=len(t.trace), tape=len(t.tape), exc=exc)
        if is_async:
            async def wrapped(*a, _o=orig, **k):
                try:
                    r = await _o(ch, *a, **k)
                except BaseException as e:  # noqa
                    note(e)
                    raise
                note(None)
                return r
        else:
            def wrapped(*a, _o=orig, **k):
                try:
                    r = _o(ch, *a, **k)
                except BaseException as e:  # noqa
                    note(e)
                    raise
                note(None)
                return r
        setattr(ch, name, wrapped)


def _collect(case, dev, t, exc, mark=None):
    writes, n = [], 0
    trace, tape, extra = list(t.trace), list(t.tape), {}
    if mark and "trace" in mark:
        after = trace[mark["trace"]:]
        extra = dict(login_outcome=_outcome(mark["exc"]), after_writes=[ev[1] for ev in after if ev[0] == "W"],
                     after_reads=sum(1 for ev in after if ev[0] in ("R", "E", "stall")))
        trace, tape = trace[:mark["trace"]], tape[:mark["tape"]]
    for ev in trace:
        if ev[0] in ("R", "E"):
            n += 1
        elif ev[0] == "W":
            writes.append((n, ev[1]))
    return dict(extra, outcome=_outcome(exc), writes=writes, tape=tape, wlog=list(dev.wlog), lines=list(dev.lines),
                spans=list(dev.spans), accepted=dev.accepted, closed=dev.closed, cleaned=cleaned_chunks(tape),
                g0=dev.g0 or b"", reacts=list(dev.reacts))


def cleaned_chunks(tape):
    """what Channel.read() made of each raw chunk (None for an error): the real `_strip_ansi_read` replayed on a fresh object"""
    from scrapli.channel.base_channel import BaseChannel
    inst = object.__new__(BaseChannel)
    inst._ansi_held = b""
    out = []
    for ev in tape:
        if ev[0] != "c":
            out.append(None)
            continue
        b = ev[1].replace(b"\r", b"")
        out.append(inst._strip_ansi_read(buf=b) if hasattr(inst, "_strip_ansi_read") else (inst._strip_ansi(buf=b) if b"\x1b" in b else b))
    return out


def strip_ansi_text(txt: bytes) -> bytes:
    from scrapli.channel.base_channel import ANSI_ESCAPE_PATTERN
    return re.sub(ANSI_ESCAPE_PATTERN, b"", txt)


BLOCKED = dict(outcome="running", writes=[], tape=[], wlog=[], lines=[], spans=[], accepted=False, closed=False, cleaned=[], blocked=True)


def _lock_held(ch):
    """no operation is running between two logins of a history, so a channel lock that is held now can never be acquired: the
    login would wait for ever (= run into the timeout) without reading or writing anything"""
    lk = getattr(ch, "channel_lock", None)
    try:
        return bool(lk is not None and lk.locked())
    except Exception:
        return False


def _logins(case):
    """the logins performed on the one object, in order; the case's own login is the last"""
    return list(case.get("prev", [])) + [case]


def run_real_sync(case, divisor):
    from harness import logindevice as L
    from scrapli.channel import Channel
    obj = _mk_object(case, divisor)
    conn, ch, _ = obj
    res = None
    for sub in _logins(case):
        if _lock_held(ch):
            res = dict(BLOCKED)
            continue
        dev, t, clock = _attach(case, sub, obj, divisor)
        u, p, h = creds(sub)
        L.use_clock(clock)
        exc = None
        mark = {}
        try:
            if case.get("via") == "driver":
                conn.auth_username, conn.auth_password, conn.auth_private_key_passphrase = S(u), S(p), S(h)
                if case.get("platform"):
                    _mark_login(ch, t, mark, False)
                conn.open()
            else:
                t.open()
                if case["flavour"] == "telnet":
                    Channel.channel_authenticate_telnet.__wrapped__(ch, auth_username=S(u), auth_password=S(p))
                else:
                    Channel.channel_authenticate_ssh.__wrapped__(ch, auth_password=S(p), auth_private_key_passphrase=S(h))
        except BaseException as e:  # noqa: SimStall is a BaseException
            if isinstance(e, (KeyboardInterrupt, SystemExit)):
                raise
            exc = e
        finally:
            L.use_clock(None)
        res = _collect(case, dev, t, exc, mark)
        try:   # close between logins (open, close, open, ...); after a FAILED open() of a driver with hooks only the transport
            # is closed (close() would run on_close against a device that is not logged in)
            if case.get("via") == "driver" and not (case.get("platform") and exc is not None):
                conn.close()
            else:
                t.close()
        except (Exception, SimStall):
            pass
    return res


async def run_real_async(case, divisor):
    from harness import logindevice as L
    from scrapli.channel import AsyncChannel
    obj = _mk_object(case, divisor)
    conn, ch, _ = obj
    res = None
    for sub in _logins(case):
        if _lock_held(ch):
            res = dict(BLOCKED)
            continue
        dev, t, clock = _attach(case, sub, obj, divisor)
        u, p, h = creds(sub)
        L.use_clock(clock)
        exc = None
        mark = {}
        try:
            if case.get("via") == "driver":
                conn.auth_username, conn.auth_password, conn.auth_private_key_passphrase = S(u), S(p), S(h)
                if case.get("platform"):
                    _mark_login(ch, t, mark, True)
                await conn.open()
            else:
                await t.open()
                if case["flavour"] == "telnet":
                    await AsyncChannel.channel_authenticate_telnet.__wrapped__(ch, auth_username=S(u), auth_password=S(p))
                else:
                    await AsyncChannel.channel_authenticate_ssh.__wrapped__(ch, auth_password=S(p), auth_private_key_passphrase=S(h))
        except BaseException as e:  # noqa
            if isinstance(e, (KeyboardInterrupt, SystemExit, asyncio.CancelledError)):
                raise
            exc = e
        finally:
            L.use_clock(None)
        res = _collect(case, dev, t, exc, mark)
        try:
            if case.get("via") == "driver" and not (case.get("platform") and exc is not None):
                await conn.close()
            else:
                t.close()
        except (Exception, SimStall):
            pass
    return res


# ------------------------------------------------------------------ model side
def model_line(case, res):
    loop = LOOPS[(case["flavour"], case["stack"])]
    tape = ",".join("E" if e[0] == "E" else f"{hexs(e[1])}@{e[2]}" for e in res["tape"]) or "."
    which = ("d" if case.get("drvprompt") == "c" else "g") if case.get("via") == "driver" else ("d" if case.get("build") == "driver" else "c")
    return f"run {loop} {which} {case['ivl']} {tape}"


def sys_line(case, res):
    """request for the CLOSED-system model (`sysRunI`: loop + causal device `Dev` + schedule with empty reads, real cleaner), or
    None when the run is not of that shape: the device must be describable as g0 / one segment per credential line / ONE constant
    reaction to a bare return that does not change its state (so: no bare return received while it waits for a password)"""
    if res.get("blocked") or case.get("auth_bypass") or case.get("platform") or any(e[0] == "E" for e in res["tape"]):
        return None
    segs, rets, pend = [], [], None
    for st, data, out in res["reacts"]:
        if data == b"\n":
            if pend is not None:
                segs.append(pend + out)
                pend = None
            else:
                if st in ("pass", "phrase", "kick", "closed", "init"):
                    return None
                rets.append(out)
        else:
            if pend is not None or b"\n" in data:
                return None
            pend = out
    if pend is not None or len(set(rets)) > 1:
        return None
    loop = LOOPS[(case["flavour"], case["stack"])]
    which = ("d" if case.get("drvprompt") == "c" else "g") if case.get("via") == "driver" else ("d" if case.get("build") == "driver" else "c")
    hx = lambda b: hexs(b) if b else "."
    sched = ",".join(f"r{len(e[1])}@{e[2]}" if e[1] else f"i@{e[2]}" for e in res["tape"]) or "."
    return f"sys {loop} {which} {case['ivl']} {hx(res['g0'])} {';'.join(hx(g) for g in segs) or '-'} {hx(rets[0]) if rets else '.'} {sched}"


def model_view(line, case):
    """(status, nread, expected byte writes [(read index, bytes)])"""
    status, nread, log = line.split(" ")[:3]
    u, p, h = creds(case)
    cred = {"U": u, "P": p, "H": h}
    writes = []
    if log != ".":
        for ent in log.split(";"):
            k, ok, rd, _seen = ent.split(":")
            if k == "R":
                writes.append((int(rd), b"\n"))
            elif ok == "1":
                writes += [(int(rd), cred[k]), (int(rd), b"\n")]
    return status, int(nread), writes


# ------------------------------------------------------------------ independent oracle
def real_patterns():
    from scrapli.channel import Channel
    from scrapli.channel.base_channel import BaseChannelArgs
    from scrapli.transport.base import BaseTransportArgs
    from harness.simtransport import SimTransport
    targs = BaseTransportArgs(transport_options={}, host="sim", port=23, timeout_socket=1, timeout_transport=0, logging_uid="")
    ch = Channel(transport=SimTransport(targs, None), base_channel_args=BaseChannelArgs())
    from scrapli.driver.generic import GenericDriver
    import inspect
    gp = inspect.signature(GenericDriver.__init__).parameters["comms_prompt_pattern"].default
    from scrapli.driver import Driver
    dch = Driver(host="sim", transport="telnet").channel
    plat = {}
    import scrapli.driver.core as CORE
    from harness.simtransport import DRIVERS
    for name in ("cisco_iosxe", "cisco_nxos", "arista_eos"):
        pc = getattr(CORE, DRIVERS[name][0])(host="sim", transport="telnet", auth_username="a", auth_password="b")
        plat["plat:" + name] = pc.channel._get_prompt_pattern(class_pattern=pc.channel._base_channel_args.comms_prompt_pattern)
    return dict(plat, dU=dch.auth_telnet_login_pattern, dP=dch.auth_password_pattern, dH=dch.auth_passphrase_pattern,
                U=ch.auth_telnet_login_pattern, P=ch.auth_password_pattern, H=ch.auth_passphrase_pattern,
                c=ch._get_prompt_pattern(class_pattern=BaseChannelArgs().comms_prompt_pattern),
                g=ch._get_prompt_pattern(class_pattern=gp), chan=ch)


def banner_texts(case):
    d = case["dev"]
    return [B(d.get("pre") or ""), B(d.get("banner") or "")]


def in_domain(case, pats):
    """the property's quantifier: banner / MOTD lines that, as whole lines, do not look like a login / password /
    passphrase prompt; (C02's business, not C09's:) no banner line prefix that looks like a shell prompt; usernames and
    passwords that do not themselves look like prompts"""
    pp = pats["g" if (case.get("via") == "driver" and case.get("drvprompt") != "c") else "c"]
    if case.get("platform"):
        pp = pats["plat:" + case["platform"]]     # the platform driver's own (combined privilege level) prompt pattern
    for txt in banner_texts(case):
        low = strip_ansi_text(txt.replace(b"\r", b"")).lower()
        for line in low.split(b"\n"):
            if any(pats[k].search(line) for k in "UPH"):
                return False
            for i in range(1, len(line) + 1):
                if pp.search(line[:i]):
                    return False
    d = case["dev"]
    shown = [d.get("user_prompt", "Username: ")] if case["flavour"] == "telnet" else []
    shown.append(d.get("pass_prompt", "Password: "))
    if d.get("passphrase") is not None:
        shown.append(d.get("phrase_prompt", PHRASE_PROMPTS[0]))
    for txt in shown:
        low = strip_ansi_text(B(txt).replace(b"\r", b"")).lower()
        if any(pp.search(low[:i]) for i in range(1, len(low) + 1)):
            return False     # a prefix of a login prompt already looks like a shell prompt (e.g. `admin@` for GenericDriver): C02/F10
    u, p, h = creds(case)
    for c in (u, p, h):
        if any(pats[k].search(c.lower()) for k in "UPH") or pp.search(c.lower()):
            return False
    if case["dev"].get("fatal") is None:
        # ssh client texts of the fatal table inside a banner are a different dialogue
        for txt in banner_texts(case):
            if any(n in txt.lower() for n in ORACLE_FATAL):
                return False
    return True


def expected(case):
    """what the property demands for this dialogue: 'done' | 'fail' | 'fail-now' | None (not determined by the property)"""
    d, fl = case["dev"], case["flavour"]
    u, p, h = creds(case)
    if case.get("via") == "driver" and case.get("auth_bypass"):
        return None
    if case.get("hang"):
        return None          # a login that is meant to end in a timeout / connection error (a step of a history)
    if case.get("err_at"):
        # transient connection errors: only the sync telnet loop survives them (it answers with a return, which a device at
        # its password prompt takes as one more wrong password); what the property still fixes is the rejecting server that
        # keeps prompting: at most two submissions, then ScrapliAuthenticationFailed
        if not (fl == "telnet" and case["stack"] == "sync"):
            return None
        if B(case["creds"]["username"]) == B(d.get("username", "admin")) and B(case["creds"]["password"]) == B(d.get("password", "s3cret")):
            return None
        return "fail" if d.get("after_max", "close") == "reprompt" else None
    if fl == "ssh" and d.get("fatal") is not None:
        if not any(n in B(d["fatal"]).lower() for n in ORACLE_FATAL):
            return None          # e.g. "Connection refused": a connection error, not an authentication failure (C08)
        return "fail-now" if case["stack"] == "sync" else None
    if d.get("needs_kick", 0) and case.get("on_empty", "stall") != "empty":
        return None
    dev_u, dev_p, dev_h = B(d.get("username", "admin")), B(d.get("password", "s3cret")), d.get("passphrase")
    rf = d.get("reject_first", 0)
    if rf:
        # the server rejects the first rf correct submissions and prompts again
        if not (u == dev_u and p == dev_p) or dev_h is not None:
            return None
        if fl == "ssh" and case["stack"] == "sync":
            return "fail"        # "Permission denied, please try again." is a fatal client message
        if d.get("after_max", "close") != "reprompt" and d.get("max_tries", 3) <= rf:
            return None
        return "done" if rf < MAXW else "fail"
    if fl == "telnet":
        if u == dev_u and p == dev_p:
            return "done"
        shown = 10 ** 6 if d.get("after_max", "close") == "reprompt" else d.get("max_tries", 3)
        return "fail" if shown > MAXW else None
    # ssh
    if dev_h is not None and h == B(dev_h):
        return "done"
    if dev_h is not None and d.get("phrase_tries", 3) > MAXW:
        return "fail"            # the passphrase prompt comes a third time
    if p == dev_p:
        return "done"
    if case["stack"] == "sync":
        return "fail"            # "Permission denied, please try again." is a fatal client message
    return "fail" if d.get("max_tries", 3) > MAXW else None


def oracle(case, res):
    """list of violation texts; each carries the read index of the offending write when there is one"""
    out = []
    u, p, h = creds(case)
    want_state = {}
    if u:
        want_state[u] = ("username", "user")
    if p:
        want_state[p] = ("password", "pass")
    if h:
        want_state[h] = ("passphrase", "phrase")
    counts = {}
    for st, data in res["wlog"]:
        if data in want_state:
            name, want = want_state[data]
            counts[name] = counts.get(name, 0) + 1
            if case["flavour"] == "ssh" and name == "username":
                continue
            if st != want:
                out.append(f"{name} written while the device was in state '{st}'")
    for name, n in counts.items():
        if n > MAXW:
            out.append(f"{name} written {n} times")
    oc = res["outcome"]
    if oc.startswith("other:"):
        out.append(f"login raised a non-scrapli / unexpected exception: {oc}")
    # the kick: at most one bare return per return interval (oracle side of kicks_rate_bounded); a kick is a return written at a
    # read at which no credential was written
    if case["flavour"] == "telnet" and not any(e[0] == "E" for e in res["tape"]) and not case.get("prev"):
        cred_reads = {n for n, w in res["writes"] if w != b"\n"}
        kicks = sum(1 for n, w in res["writes"] if w == b"\n" and n not in cred_reads)
        tmax = max([e[2] for e in res["tape"] if e[0] == "c"], default=0)
        if kicks and not case["ivl"] * kicks < tmax:
            out.append(f"{kicks} bare returns written within {tmax} time units (return interval {case['ivl']}): more than one per interval")
    # driver level: once the in-channel login has given up, open() ends the same way, at once, and types nothing more
    lo = res.get("login_outcome")
    if lo is not None and lo != "done":
        if res["after_writes"]:
            out.append(f"the login loop gave up ({lo}) but open() went on to write {[S(w) for w in res['after_writes'][:6]]} to the device")
        if res["after_reads"]:
            out.append(f"the login loop gave up ({lo}) but open() went on reading ({res['after_reads']} more reads / waits)")
        if oc != lo:
            out.append(f"the login loop ended with {lo} but open() ended with {oc}")
    exp = expected(case)
    if exp == "done":
        if oc != "done":
            out.append(f"valid credentials but login ended with {oc}")
        else:
            need = {"telnet": ["username", "password"]}.get(case["flavour"])
            if need is None:
                need = ["passphrase"] if case["dev"].get("passphrase") is not None and h == B(case["dev"]["passphrase"]) else \
                    (["password"] if case["dev"].get("passphrase") is None else None)
            per = 1 + case["dev"].get("reject_first", 0)
            if need is not None and any(counts.get(k, 0) != (per if (k == "password" or case["flavour"] == "telnet") else 1) for k in need):
                out.append(f"valid credentials: writes per credential {counts}, expected exactly {per} of {need}")
    elif exp in ("fail", "fail-now"):
        if not (oc.startswith("authfailed") or oc == "fatal"):
            out.append(f"rejected credentials / fatal message but login ended with {oc} instead of ScrapliAuthenticationFailed")
    if case["flavour"] == "ssh" and case["stack"] == "sync" and not (case.get("via") == "driver" and case.get("auth_bypass")):
        # "immediately for fatal ssh client messages": at the read that completes the message, nothing written afterwards
        acc, idx = b"", None
        for i, ev in enumerate(res["tape"], 1):
            if ev[0] == "c":
                acc += ev[1].replace(b"\r", b"").lower()
                if any(n in acc for n in ORACLE_FATAL):
                    idx = i
                    break
        if idx is not None:
            if not (oc.startswith("authfailed") or oc == "fatal"):
                out.append(f"fatal ssh message complete at read {idx} but login ended with {oc}")
            if len(res["tape"]) > idx:
                out.append(f"fatal ssh message complete at read {idx} but login went on to read {len(res['tape'])}")
            if any(n >= idx for n, _ in res["writes"]):
                out.append("something was written although the ssh client had printed a fatal message")
    return out


def finding_match(case, res, pats):
    """narrow predicate of F13: a read boundary falls inside a banner / MOTD text exactly after a line prefix on which a
    credential pattern matches, and the login loop wrote that credential at that very read"""
    spans = [(a, b) for k, a, b in res["spans"] if k == "banner"]
    if not spans:
        return None
    stream = b"".join(ev[1] for ev in res["tape"] if ev[0] == "c")
    u, p, h = creds(case)
    cred = {"U": u, "P": p, "H": h}
    pos, n = 0, 0
    for ev in res["tape"]:
        n += 1
        if ev[0] != "c":
            continue
        pos += len(ev[1])
        if not any(a < pos <= b for a, b in spans):
            continue
        line = stream[:pos].replace(b"\r", b"").lower().rsplit(b"\n", 1)[-1]
        for k in "UPH":
            if line and pats[k].search(line) and (n, cred[k]) in res["writes"]:
                return FID
    return None


def kick_match(case, res):
    """narrow predicate of F23: a read returned bytes that Channel.read cleaned to nothing (only carriage returns, only a
    complete escape sequence, or the held-back beginning of one) and the telnet login loop answered that very read with a
    bare return"""
    if case["flavour"] != "telnet":
        return None
    n = 0
    for ev in res["tape"]:
        n += 1
        if ev[0] == "c" and ev[1] and res["cleaned"][n - 1] == b"":
            if [w for i, w in res["writes"] if i == n] == [b"\n"]:
                return FID_KICK
    return None


FID_ERR = "F24"    # a transient connection error is answered with a return that the device takes as an empty line


def connerr_match(case, res, viol):
    """narrow predicate of F24: sync telnet; read() raised a (transient) ScrapliConnectionError, the return written in answer
    reached the device while it was waiting for the username or the password (so it counted as an empty line), and the only
    complaint is a credential typed at the other prompt afterwards (counts and outcome are as the property demands)"""
    if not (case["flavour"] == "telnet" and case["stack"] == "sync" and viol):
        return None
    if not all("written while the device was in state" in v for v in viol):
        return None
    err_reads = {i for i, ev in enumerate(res["tape"], 1) if ev[0] == "E"}
    for (n, w), (st, w2) in zip(res["writes"], res["wlog"]):
        if n in err_reads and w == b"\n" and st in ("pass", "user"):
            return FID_ERR
    return None


FID_LAG = "C09-lag-kick"   # an EMPTY read after the return interval while the password prompt is on its way => empty password


def lag_match(case, res):
    """narrow predicate of C09-lag-kick: telnet; a scripted EMPTY read (lag_at: output was on its way) was answered with exactly one
    bare return, and that return reached the device while it was waiting for the password / passphrase"""
    if case["flavour"] != "telnet" or not case.get("lag_at"):
        return None
    lag = {int(k) for k in case["lag_at"]}
    wi = 0
    for st, data, _out in res.get("reacts", []):
        n = res["writes"][wi][0] if wi < len(res["writes"]) else None
        wi += 1
        if data == b"\n" and st in ("pass", "phrase") and n in lag and res["tape"][n - 1][:2] == ("c", b"") \
                and [w for i, w in res["writes"] if i == n] == [b"\n"]:
            return FID_LAG
    return None


def matcher(case, res, pats, viol=()):
    return finding_match(case, res, pats) or kick_match(case, res) or connerr_match(case, res, list(viol)) or lag_match(case, res)


# ------------------------------------------------------------------ generators
USER_PROMPTS = ["Username: ", "username:", "Login: ", "login:", "r1 login: ", "LOGIN:", "Username:\t"]
PASS_PROMPTS = ["Password: ", "password:", "PASSWORD: ", "Password:"]
SSH_PASS_PROMPTS = ["admin@r1's password: ", "Password: ", "(admin@r1) Password:"]
PHRASE_PROMPTS = ["Enter passphrase for key '/home/u/.ssh/id_rsa': ", "Enter passphrase for key '/k':"]
PRE_CLEAN = ["", "\nUser Access Verification\n\n", "Ubuntu 22.04 LTS\n", "*** authorised users only ***\n\n",
             "Trying 10.0.0.1...\nConnected to r1.\nEscape character is '^]'.\n"]
POST_CLEAN = ["", "Welcome to r1\n", "\nThis system is monitored.\nAll access is logged\n\n", "Linux r1 5.10\n", "\n",
              "Change your password soon\n", "3 failed login attempts since last login\n", "username and password are case sensitive\n",
              "enter passphrase hints at help.example\n"]
POST_PREFIXY = ["Last login: Mon Sep  1 10:00:00 2025 from 10.0.0.1\n", "Your password: expires in 3 days\n",
                "Last login: never\nLast password: change 2020\n", "hint: Login: field is case sensitive\n",
                "Unauthorized login: prohibited\n", "Last login: Fri Sep 25 09:12:01 2026 from 192.0.2.7 on pts/0\n"]
PRE_PREFIXY = ["Please login: use your AD account\n", "Lost password: call 555\n", "Unauthorized login: prohibited\n"]
OUT_OF_DOMAIN_BANNERS = ["note: username: is case sensitive\n", "login:\n", "old password:\n", "r1>\n"]
SHELLS = ["r1#", "r1>", "admin@r1:/$", "router-1.lab(config)#"]
SSH_WARN = ["", "Warning: Permanently added 'r1' (ED25519) to the list of known hosts.\n",
            "** WARNING: connection is not using a post-quantum key exchange algorithm.\n** This session may be vulnerable.\n",
            "@@@@@@@@@@@@@@@@@@@@@@@@@@@\n@ WARNING: UNPROTECTED PRIVATE KEY FILE! @\n@@@@@@@@@@@@@@@@@@@@@@@@@@@\nPermissions 0644 for '/k' are too open.\n"
            "This private key will be ignored.\nLoad key \"/k\": bad permissions\n"]
FATALS = ["Host key verification failed.\n", "ssh: connect to host r1 port 22: Connection timed out\n",
          "ssh: connect to host r1 port 22: Operation timed out\n", "ssh: connect to host r1 port 22: No route to host\n",
          "Unable to negotiate with 10.0.0.1 port 22: no matching host key type found. Their offer: ssh-rsa,ssh-dss\n",
          "Unable to negotiate with 10.0.0.1 port 22: no matching key exchange method found. Their offer: diffie-hellman-group1-sha1\n",
          "Unable to negotiate with 10.0.0.1 port 22: no matching cipher found. Their offer: aes128-cbc,3des-cbc\n",
          "/home/u/.ssh/config: line 3: Bad configuration option: foo\n/home/u/.ssh/config: terminating, 1 bad configuration options\n",
          "ssh: Could not resolve hostname r1: Name or service not known\n", "admin@r1: Permission denied (publickey).\n",
          "HOST KEY VERIFICATION FAILED.\n"]
FATAL_UNHANDLED = ["ssh: connect to host r1 port 22: Connection refused\n", "kex_exchange_identification: Connection closed by remote host\n"]


def base_case(flavour, stack, **dev):
    d = dict(username="admin", password="s3cret")
    d.update(dev)
    return dict(flavour=flavour, stack=stack, via="channel", build="args", dev=d,
                creds=dict(username="admin", password="s3cret", passphrase="keypass"),
                cuts=["all"], on_empty="stall", dts=[], eof="raise", budget=12, ivl=1)


def stream_len_estimate(case):
    """upper bound of the number of bytes the device will emit in a run without surprises"""
    d = case["dev"]
    n = sum(len(B(d.get(k) or "")) for k in ("pre", "banner", "fatal"))
    n += len(B(d.get("user_prompt", "Username: "))) + len(B(d.get("pass_prompt", "Password: "))) + len(B(d.get("shell_prompt", "r1#")))
    n += len(B(case["creds"]["username"])) + 4 * len(B(d.get("nl", "\n")))
    if d.get("passphrase") is not None:
        n += len(B(d.get("phrase_prompt", PHRASE_PROMPTS[0])))
    return n


def with_cuts(case, cuts):
    c = json.loads(json.dumps(case))
    c["cuts"] = cuts
    return c


def exhaustive_cases(tier):
    """short dialogues x every single and every double cut (x sync/async)"""
    shorts = []
    for stack in ("sync", "async"):
        shorts.append(base_case("telnet", stack, user_prompt="login: ", pass_prompt="Password: ", banner="hi\n", shell_prompt="r1#"))
        shorts.append(base_case("telnet", stack, user_prompt="Username:", pass_prompt="password:", nl="\r\n", shell_prompt="r1>"))
        c = base_case("telnet", stack, user_prompt="login:", pass_prompt="Password: ", max_tries=3, after_max="reprompt")
        c["creds"]["password"] = "bad"
        shorts.append(c)
        c = base_case("telnet", stack, user_prompt="login:", pass_prompt="Password:", max_tries=3, after_max="reprompt", reject_to="pass",
                      reject_msg="bad")
        c["creds"]["password"] = "bad"
        shorts.append(c)
        shorts.append(base_case("telnet", stack, user_prompt="login: ", pass_prompt="Password: ", banner="Last login: Mon\n", shell_prompt="r1#"))
        shorts.append(base_case("telnet", stack, user_prompt="\x1b[0mlogin: ", pass_prompt="Password: ", banner="\x1b[1;32mhi\x1b[0m\n",
                                shell_prompt="\x1b[32mr1#\x1b[0m"))
        shorts.append(base_case("ssh", stack, pass_prompt="a@r1's password: ", banner="ok\n", shell_prompt="r1#"))
        c = base_case("ssh", stack, pass_prompt="Password:", pre="Warning: x\n")
        c["creds"]["password"] = "bad"
        shorts.append(c)
        shorts.append(base_case("ssh", stack, passphrase="keypass", phrase_prompt="Enter passphrase for key '/k': ", shell_prompt="r1#"))
        shorts.append(base_case("ssh", stack, fatal="a@r1: Permission denied (publickey).\n", pre="Warning: x\n"))
    out = []
    for c in shorts:
        n = 110 if c["creds"]["password"] == "bad" and c["flavour"] == "telnet" else stream_len_estimate(c) + 2
        if tier == "quick" and c["creds"]["password"] == "bad":
            n = min(n, 60)
        for build in ("args", "driver"):
            cb = dict(c, build=build)
            out.append(with_cuts(cb, ["all"]))
            out.append(with_cuts(cb, ["one"]))
            for i in range(1, n):
                out.append(with_cuts(cb, ["at", [i]]))
        m = n if tier == "thorough" else min(n, 34)
        for i, j in itertools.combinations(range(1, m), 2):
            out.append(with_cuts(dict(c, build="driver" if (i + j) % 2 else "args"), ["at", [i, j]]))
    return out


def connerr_cases(tier, divisor, rng):
    """rejecting servers that keep prompting (username+password rounds, or password only) x a transient connection error
    from the transport read at every read number, singly and in pairs (sync telnet: the loop that survives such errors)"""
    bases = []
    for reject_to in ("user", "pass"):
        for up, pp, rnl in (("login: ", "Password: ", True), ("Username:", "password:", False)):
            for bad in ("password", "username"):
                if bad == "username" and reject_to == "pass":
                    continue
                c = base_case("telnet", "sync", user_prompt=up, pass_prompt=pp, max_tries=3, after_max="reprompt",
                              reject_to=reject_to, reprompt_nl=rnl, reject_msg="Login incorrect")
                c["creds"][bad] = "wr0ng"
                c["budget"] = 0
                bases.append(c)
    out = []
    for b in bases:
        cutspecs = [["all"], ["list", [7, 3, 11, 2, 5, 9, 4, 40, 6, 3, 8, 2, 40]]]
        if tier == "thorough":
            cutspecs.append(["one"])
        for cs in cutspecs:
            c0 = with_cuts(b, cs)
            n = len(run_real_sync(c0, divisor)["tape"])
            singles = list(range(1, n + 2))
            if n > 40:
                singles = sorted(set(rng.sample(singles, 40)) | {1, 2, n, n + 1})
            for i in singles:
                c = json.loads(json.dumps(c0)); c["err_at"] = [i]; c["build"] = "driver" if i % 2 else "args"
                out.append(c)
            m = n + 3 if n <= 14 else 0
            pairs = list(itertools.combinations(range(1, m), 2)) if m else \
                [tuple(sorted(rng.sample(range(1, n + 3), 2))) for _ in range(60 if tier == "quick" else 400)]
            for i, j in pairs:
                c = json.loads(json.dumps(c0)); c["err_at"] = [i, j]
                out.append(c)
            # an error in every round: what lets a loop that starts over after an error go on for ever
            for step in (2, 3, 4):
                c = json.loads(json.dumps(c0)); c["err_at"] = list(range(step, 12 * step, step))
                out.append(c)
    return out


def history_cases(tier, rng):
    """HISTORIES on one channel / driver object: open, close, open, ... (1..3 logins exhaustively over {ok, re-prompted once then
    ok, rejected}, some of length 4), each login with its own device; the case's result is its LAST login"""
    def login(flavour, stack, kind, cuts):
        if flavour == "telnet":
            c = base_case("telnet", stack, user_prompt="Username: ", pass_prompt="Password: ", banner="Welcome\n", max_tries=3,
                          after_max="reprompt")
        else:
            c = base_case("ssh", stack, pass_prompt="admin@r1's password: ", banner="Welcome\n", max_tries=3)
        if kind == "reprompt":
            c["dev"]["reject_first"] = 1
        elif kind == "rejected":
            c["creds"]["password"] = "wr0ng"
        elif kind == "phrase":
            c["dev"]["passphrase"] = "keypass"
        c["cuts"] = cuts
        return c
    out = []
    kinds = {"telnet": ["ok", "reprompt", "rejected"], "ssh": ["ok", "reprompt", "rejected", "phrase"]}
    combos = [(fl, st, "channel", b) for fl in ("telnet", "ssh") for st in ("sync", "async") for b in ("args", "driver")]
    combos += [("telnet", "sync", "driver", "args"), ("telnet", "async", "driver", "args"), ("ssh", "sync", "driver", "args")]
    for fl, st, via, build in combos:
        seqs = [s for n in (1, 2, 3) for s in itertools.product(kinds[fl], repeat=n)]
        seqs += [("ok",) * 4, ("reprompt",) * 4, ("ok", "reprompt", "ok", "ok")]
        if fl == "ssh":
            seqs += [("phrase",) * 4]
        if via == "driver" or tier == "quick":
            seqs = [s for s in seqs if len(s) != 3 or rng.random() < (0.5 if via == "driver" else 0.6)]
        for seq in seqs:
            subs = [login(fl, st, k, rng.choice([["all"], ["one"], ["list", [5, 3, 9, 2, 40, 7, 40]]])) for k in seq]
            last = subs[-1]
            last.update(via=via, build=build, ivl=(0 if st == "sync" else 1) if via == "driver" else 1)
            if via == "driver":
                last["drvprompt"] = "c"     # GenericDriver.open()/close() but with the BaseChannelArgs prompt pattern
            last["prev"] = [{k: v for k, v in x.items() if k in ("dev", "creds", "cuts", "on_empty", "dts", "eof", "budget")} for x in subs[:-1]]
            out.append(last)
    return out


def lockhist_cases(tier, rng):
    """multi-step login histories on ONE object crossed with the channel_lock option: the first attempt ends in each possible way
    (success then close, rejected -> ScrapliAuthenticationFailed, timeout, connection error), then open() again with valid or
    rejected credentials (and two three-step histories); sync and asyncio, telnet and ssh, loop called on the channel (both
    builds) and through driver open()/close().  Every attempt is judged on its own."""
    def login(fl, st, kind):
        if fl == "telnet":
            c = base_case("telnet", st, user_prompt="Username: ", pass_prompt="Password: ", banner="Welcome\n", max_tries=3, after_max="reprompt")
        else:
            c = base_case("ssh", st, pass_prompt="admin@r1's password: ", banner="Welcome\n", max_tries=3)
        if kind == "rejected":
            c["creds"]["password"] = "wr0ng"
        elif kind == "hang":
            c["hang"] = True
            if fl == "telnet":
                c["dev"]["needs_kick"] = 9           # a console that never wakes up: nothing to read, the login times out
            else:
                c["dev"]["pass_prompt"] = ""         # the ssh client prints a warning and then nothing
                c["dev"]["pre"] = "Warning: Permanently added 'r1' (ED25519) to the list of known hosts.\n"
        elif kind == "connerr":
            c["hang"] = True
            if fl == "telnet":
                c["creds"]["password"] = "wr0ng"
                c["dev"].update(max_tries=1, after_max="close")    # the server hangs up after the first rejection
            else:
                c["dev"]["fatal"] = FATAL_UNHANDLED[0]              # "Connection refused": the client exits
        c["cuts"] = rng.choice([["all"], ["one"], ["list", [5, 3, 9, 2, 40, 7, 40]]])
        return c
    seqs = [(a, b) for a in ("ok", "rejected", "hang", "connerr") for b in ("ok", "rejected")]
    seqs += [("rejected", "hang", "ok"), ("connerr", "rejected", "ok")]
    combos = [(fl, st, "channel", b) for fl in ("telnet", "ssh") for st in ("sync", "async") for b in ("args", "driver")]
    combos += [("telnet", "sync", "driver", "args"), ("telnet", "async", "driver", "args"), ("ssh", "sync", "driver", "args")]
    out = []
    for fl, st, via, build in combos:
        for lock in (True, False):
            for seq in seqs:
                subs = [login(fl, st, k) for k in seq]
                last = subs[-1]
                last.update(via=via, build=build, channel_lock=lock, ivl=(0 if st == "sync" else 1) if via == "driver" else 1)
                if via == "driver":
                    last["drvprompt"] = "c"
                last["prev"] = [{k: v for k, v in x.items() if k in ("dev", "creds", "cuts", "on_empty", "dts", "eof", "budget", "hang")}
                                for x in subs[:-1]]
                out.append(last)
    return out


TAILS = ["see <https://noc.example.net/helpdesk>", "mail noc@example.net/helpdesk#", "cost centre (ops/tier-2)$",
         "escalate to ops:tier-2>", "ticket queue net-ops/r1.lab#"]
FILLER = ["This system is for authorised use only.", "All activity on this device is recorded and may be audited", "Scheduled maintenance every first Sunday 02:00-04:00 UTC",
          "Report faults to the network operations centre", "Unauthorised access is prohibited and will be prosecuted"]


def long_banner(total, pad, tail_i):
    """>= total bytes of banner lines that END in prompt-like text (a URL in angle brackets, a mail address with a `#`, ...) while
    no whole line and no line prefix is a shell prompt or a credential prompt; `pad` shifts every line boundary by that many bytes"""
    out = ("=" * pad + "\n") if pad else ""
    i = 0
    while len(out) < total:
        out += FILLER[(i + tail_i) % len(FILLER)] + " " + TAILS[(i + tail_i) % len(TAILS)] + "\n"
        i += 1
    return out


def longbanner_cases(tier, rng):
    """pre-login banners of 1x, 2x, 5x comms_prompt_search_depth (default 1000, and small configured depths to keep the streams
    short) delivered in reads of their own BEFORE the login prompt, every alignment of the line ends relative to a byte position
    `depth` back from the end of what was read (a login loop must keep looking at whole lines, however long the banner is)"""
    out = []
    combos = [(fl, st) for fl in ("telnet", "ssh") for st in ("sync", "async")]
    def mk(fl, st, depth, mult, pad, tail_i, parts):
        pre = long_banner(depth * mult, pad, tail_i)
        if fl == "telnet":
            c = base_case("telnet", st, user_prompt="login: ", pass_prompt="Password: ", pre=pre, banner="Welcome\n")
        else:
            c = base_case("ssh", st, pass_prompt="admin@r1's password: ", pre=pre, banner="Welcome\n")
        n = len(pre)
        c["cuts"] = ["at", sorted({n * k // parts for k in range(1, parts + 1)})]
        c["build"] = "driver" if (pad + mult) % 2 else "args"
        if depth != 1000:
            c["depth"] = depth
        return c
    for fl, st in combos:
        # small depth: every alignment
        for depth, mult in ((64, 1), (64, 3)) + (((48, 5),) if tier == "thorough" else ()):
            for pad in range(0, 70, 1 if (tier == "thorough" or (fl == "telnet" and st == "async")) else 3):
                out.append(mk(fl, st, depth, mult, pad, pad % len(TAILS), 1 + pad % 3))
        # the default depth: 1x, 2x, 5x
        for mult in (1, 2, 5):
            npad = 45 if tier == "thorough" else (5 if mult < 5 else (3 if st == "async" else 1))
            for pad in rng.sample(range(0, 90), npad):
                out.append(mk(fl, st, 1000, mult, pad, rng.randrange(len(TAILS)), rng.choice([1, 2, 3, 5])))
    return out


def rand_cuts(rng, case):
    n = stream_len_estimate(case) + 30
    r = rng.random()
    if r < 0.15:
        return ["one"]
    if r < 0.25:
        return ["all"]
    if r < 0.6:
        k = rng.randint(1, 6)
        return ["at", sorted(rng.sample(range(1, n), min(k, n - 1)))]
    return ["list", [rng.choice([1, 1, 2, 3, 5, 8, 13, 40]) for _ in range(rng.randint(1, 40))]]


def gen_random(rng, stream):
    """stream: 'clean' | 'prefixy' | 'outdomain'"""
    flavour = rng.choice(["telnet", "telnet", "ssh"])
    stack = rng.choice(["sync", "async"])
    nl = rng.choice(["\n", "\n", "\r\n"])
    dev = dict(nl=nl, shell_prompt=rng.choice(SHELLS))
    if flavour == "telnet":
        dev.update(user_prompt=rng.choice(USER_PROMPTS), pass_prompt=rng.choice(PASS_PROMPTS), pre=rng.choice(PRE_CLEAN),
                   banner=rng.choice(POST_CLEAN), max_tries=rng.choice([1, 2, 3, 3, 5]), after_max=rng.choice(["close", "reprompt"]),
                   echo=rng.random() < 0.9, reprompt_nl=rng.random() < 0.7, reject_to=rng.choice(["user", "user", "pass"]))
        if rng.random() < 0.15:
            dev["needs_kick"] = rng.choice([1, 2])
    else:
        dev.update(pass_prompt=rng.choice(SSH_PASS_PROMPTS), pre=rng.choice(SSH_WARN), banner=rng.choice(POST_CLEAN),
                   max_tries=rng.choice([1, 2, 3]))
        r = rng.random()
        if r < 0.25:
            dev.update(passphrase=rng.choice(["keypass", "otherphrase"]), phrase_prompt=rng.choice(PHRASE_PROMPTS),
                       phrase_tries=rng.choice([1, 2, 3]))
        elif r < 0.5:
            dev["fatal"] = rng.choice(FATALS + FATAL_UNHANDLED[:1] if rng.random() < 0.9 else FATAL_UNHANDLED)
    if stream == "prefixy":
        if flavour == "telnet" and rng.random() < 0.3:
            dev["pre"] = rng.choice(PRE_PREFIXY)
        else:
            dev["banner"] = rng.choice(POST_CLEAN) + rng.choice(POST_PREFIXY) + rng.choice(["", "Welcome\n"])
    elif stream == "outdomain":
        dev["banner"] = rng.choice(POST_CLEAN) + rng.choice(OUT_OF_DOMAIN_BANNERS)
    if rng.random() < 0.25:
        # escape sequences as real devices send them: colours around prompts / in the MOTD, a reset before the first line
        sgr = rng.choice(["\x1b[0m", "\x1b[1;32m", "\x1b[2J", "\x1b[K", "\x1b]0;r1\x07", "\x1b7"])
        where = rng.choice(["pre", "banner", "shell", "uprompt", "pprompt"])
        if where == "pre":
            dev["pre"] = sgr + dev.get("pre", "")
        elif where == "banner":
            dev["banner"] = dev.get("banner", "") + sgr + "MOTD in colour" + "\x1b[0m\n"
        elif where == "shell":
            dev["shell_prompt"] = sgr + dev["shell_prompt"] + "\x1b[0m"
        elif where == "uprompt" and flavour == "telnet":
            dev["user_prompt"] = sgr + dev["user_prompt"]
        else:
            dev["pass_prompt"] = sgr + dev["pass_prompt"]
    if nl != "\n":
        for k in ("pre", "banner", "fatal"):
            if dev.get(k):
                dev[k] = dev[k].replace("\n", nl)
    case = base_case(flavour, stack, **dev)
    r = rng.random()
    if r < 0.3:
        case["creds"]["password"] = "wr0ng"
    elif r < 0.36 and flavour == "telnet":
        case["creds"]["username"] = "nobody"
    if dev.get("passphrase") and rng.random() < 0.3:
        case["creds"]["passphrase"] = "badphrase"
    case["cuts"] = rand_cuts(rng, case)
    case["build"] = rng.choice(["args", "driver"])
    if stream == "prefixy" and rng.random() < 0.35:
        case["cuts"] = ["all"]     # whole reads: a mid-line `login:` / `password:` must not be answered at all
    case["ivl"] = rng.choice([1, 1, 2]) if stack == "async" else rng.choice([0, 1, 1, 2])
    if dev.get("needs_kick") or rng.random() < 0.25:
        case["on_empty"] = "empty"
        case["dts"] = [rng.choice([0, 1, 1, 1, 2, 3]) for _ in range(rng.randint(0, 6))]
        case["budget"] = len(case["dts"]) + rng.choice([10, 14])   # enough empty reads for every needed kick to come
    case["eof"] = rng.choice(["raise", "empty"]) if flavour == "telnet" else "raise"
    if rng.random() < 0.15:
        case["err_at"] = sorted(rng.sample(range(1, 30), rng.choice([1, 1, 2, 3])))
    return case


SEQS = ["\x1b[0m", "\x1b[1;32m", "\x1b[2J", "\x1b[K", "\x1b]0;r1\x07", "\x1b7", "\x1b8", "\x1bM", "\x1bE", "\x1b[?25h", "\x1b[10;20H",
        "\x1b]2;router one\x07", "\x1b[38;5;208m"]


def decorate(rng, txt, nseq, ncr):
    """`txt` with `nseq` COMPLETE escape sequences put between its characters and `ncr` carriage returns put anywhere (also inside
    the sequences): what `Decor` of the Lean theorems describes"""
    cut = sorted(rng.randint(0, len(txt)) for _ in range(nseq))
    out, prev = "", 0
    for i in cut:
        out += txt[prev:i] + rng.choice(SEQS)
        prev = i
    out += txt[prev:]
    for _ in range(ncr):
        i = rng.randint(0, len(out))
        out = out[:i] + "\r" + out[i:]
    return out


def decor_cases(tier, rng):
    """login dialogues DECORATED with carriage returns and complete escape sequences in every text the device prints (banners,
    each prompt, the shell prompt), read in 1-byte reads / random cuts (so every sequence is cut everywhere), with empty reads at
    time 0 thrown in (telnet) or at any time (ssh: no kick); each decorated dialogue next to its undecorated twin"""
    out = []
    n = 40 if tier == "quick" else 600
    for i in range(n):
        flavour, stack = ("telnet", "ssh")[i % 2], ("sync", "async")[(i // 2) % 2]
        plain = dict(shell_prompt=rng.choice(SHELLS[:2] + ["r1#"]), banner=rng.choice(POST_CLEAN[:5]), pre=rng.choice(PRE_CLEAN[:4]) if flavour == "telnet" else rng.choice(SSH_WARN[:2]))
        if flavour == "telnet":
            plain.update(user_prompt=rng.choice(USER_PROMPTS[:5]), pass_prompt=rng.choice(PASS_PROMPTS), max_tries=3, after_max="reprompt")
        else:
            plain.update(pass_prompt=rng.choice(SSH_PASS_PROMPTS))
            if rng.random() < 0.3:
                plain.update(passphrase="keypass", phrase_prompt=rng.choice(PHRASE_PROMPTS))
        bad = rng.random() < 0.25
        for twin in ("plain", "decor"):
            dev = dict(plain)
            if twin == "decor":
                for k in ("pre", "banner", "user_prompt", "pass_prompt", "phrase_prompt", "shell_prompt"):
                    if dev.get(k):
                        dev[k] = decorate(rng, dev[k], rng.randint(0, 3), rng.randint(0, 3))
            c = base_case(flavour, stack, **dev)
            if bad:
                c["creds"]["password"] = "wr0ng"
            c["cuts"] = rng.choice([["one"], ["one"], ["list", [rng.choice([1, 2, 3, 5, 8]) for _ in range(60)]], ["all"]])
            c["build"] = rng.choice(["args", "driver"])
            c["twin"] = (i, twin)
            if rng.random() < 0.5:
                c["lag_at"] = {str(rng.randint(1, 40)): (0 if flavour == "telnet" else rng.choice([0, 3])) for _ in range(rng.randint(1, 3))}
            out.append(c)
    # kicks inside the closed-system correspondence: the first read is EMPTY after the return interval (nothing has arrived
    # yet), the console re-prompts on the empty line; read whole, both prompts are answered once
    for stack in ("sync", "async"):
        for up in USER_PROMPTS[:4]:
            for dt in (2, 5):
                c = base_case("telnet", stack, user_prompt=up, banner="Welcome\n")
                c["lag_at"] = {"1": dt}
                c["build"] = "driver" if dt == 5 else "args"
                out.append(c)
    return out


def drvhook_cases(tier, rng):
    """DRIVER-level login family: real platform drivers with their default on_open / on_close hooks (IOSXE, NXOS, EOS) and
    GenericDriver as the hook-less control, opened through open() (sync and asyncio; telnet-style and ssh-style in-channel
    login) against every login course of the channel-level families: valid, valid behind banners, re-prompted once, rejected for
    ever (username / password re-prompt), wrong username, server closing after the third rejection, passphrase valid / wrong,
    fatal ssh message, silent device"""
    out = []
    combos = [("telnet", "sync"), ("telnet", "async"), ("ssh", "sync")]
    for platform in ("cisco_iosxe", "cisco_nxos", "arista_eos", None):
        for fl, st in combos:
            courses = []
            def mk(**dev):
                d = dict(user_prompt="Username: ", pass_prompt="Password: ", shell_prompt="r1#") if fl == "telnet" else \
                    dict(pass_prompt="admin@r1's password: ", shell_prompt="r1#")
                d.update(dev)
                return base_case(fl, st, **d)
            courses.append(("valid", mk(banner="Welcome\n")))
            courses.append(("valid-banner", mk(pre=PRE_CLEAN[1] if fl == "telnet" else SSH_WARN[1], banner=POST_CLEAN[2], nl="\r\n")))
            courses.append(("reprompt-once", mk(banner="Welcome\n", reject_first=1, max_tries=3, after_max="reprompt")))
            c = mk(max_tries=3, after_max="reprompt"); c["creds"]["password"] = "wr0ng"; courses.append(("rejected", c))
            c = mk(max_tries=3, after_max="close"); c["creds"]["password"] = "wr0ng"; courses.append(("rejected-close", c))
            if fl == "telnet":
                c = mk(max_tries=5, after_max="reprompt", reject_to="pass"); c["creds"]["password"] = "wr0ng"; courses.append(("rejected-pass", c))
                c = mk(max_tries=3, after_max="reprompt", nl="\r\n", reject_msg="% Login invalid"); c["creds"]["username"] = "nobody"; courses.append(("wrong-user", c))
                c = mk(needs_kick=9); c["hang"] = True; courses.append(("silent", c))
            else:
                courses.append(("phrase", mk(passphrase="keypass", phrase_prompt=PHRASE_PROMPTS[1], banner="Welcome\n")))
                c = mk(passphrase="keypass", phrase_prompt=PHRASE_PROMPTS[0], phrase_tries=3); c["creds"]["passphrase"] = "badphrase"; c["creds"]["password"] = "wr0ng"
                courses.append(("phrase-wrong", c))
                courses.append(("fatal", mk(fatal=FATALS[9], pre=SSH_WARN[1])))
                courses.append(("fatal-hostkey", mk(fatal=FATALS[0])))
                c = mk(pass_prompt="", pre=SSH_WARN[1]); c["hang"] = True; courses.append(("silent", c))
            for name, c in courses:
                cutspecs = [["all"], ["one"], ["list", [5, 3, 9, 2, 40, 7, 40]]]
                for cs in cutspecs:
                    cc = json.loads(json.dumps(c))
                    cc.update(via="driver", cuts=cs, ivl=0 if st == "sync" else 1, course=name)
                    if platform:
                        cc["platform"] = platform
                    else:
                        cc["drvprompt"] = "c"
                    out.append(cc)
    return out


def driver_cases():
    out = []
    for stack in ("sync", "async"):
        c = base_case("telnet", stack, banner="Welcome\n")
        c.update(via="driver", ivl=0 if stack == "sync" else 1, cuts=["one"])
        out.append(c)
        c2 = json.loads(json.dumps(c)); c2["creds"]["password"] = "bad"; c2["dev"]["after_max"] = "reprompt"; c2["cuts"] = ["all"]
        out.append(c2)
        c3 = json.loads(json.dumps(c)); c3["auth_bypass"] = True
        out.append(c3)
    c = base_case("ssh", "sync", pass_prompt="admin@r1's password: ", banner="Welcome\n")
    c.update(via="driver", ivl=0, cuts=["list", [3, 5, 7]])
    out.append(c)
    c2 = json.loads(json.dumps(c)); c2["dev"]["fatal"] = FATALS[0]
    out.append(c2)
    c3 = json.loads(json.dumps(c)); c3["auth_bypass"] = True
    out.append(c3)
    return out


# ------------------------------------------------------------------ predicate cross-check (hand-modelled patterns vs re)
def pred_strings(tier, rng):
    toks = [b"username:", b"login:", b"password:", b"enter passphrase for key", b" ", b"\n", b"x", b"\t", b"@", b"LOGIN:",
            b"login", b":", b"r1#"]
    n = 4 if tier == "thorough" else 3
    out = set()
    for k in range(0, n + 1):
        for t in itertools.product(toks, repeat=k):
            out.add(b"".join(t))
    alpha = [b"a", b"Z", b"#", b">", b" ", b"\n", b"\t", b"~", b"$", b"-", b"\x0b"]
    m = 5 if tier == "thorough" else 4
    for k in range(0, m + 1):
        for t in itertools.product(alpha, repeat=k):
            out.add(b"".join(t))
    for n_ in (1, 31, 32, 33, 47, 48, 49, 50):
        for last in (b"#", b"x", b"# ", b"#\n", b"#  \n\n"):
            out.add(b"a" * n_ + last)
            out.add(b"x\n" + b"a" * n_ + last + b"\ny")
    for f in FATALS + FATAL_UNHANDLED + SSH_WARN:
        out.add(B(f)); out.add(B(f).lower()); out.add(B(f).lower()[:-3])
    for _ in range(300 if tier == "quick" else 3000):
        out.add(b"".join(rng.choice(toks + alpha) for _ in range(rng.randint(1, 9))))
    return sorted(out)


SYN_CRED = [r"^user:", r"^name:\s?$", r"^(.*pin:)\s?$", r"code:", r"(.*x.*)?token:\s?$", r"^(.*a:)|(b:)\s?$|^c:"]
SYN_PROMPT = [r"^[a-z]{1,3}[#>]\s?$", r"^[a-z0-9]{0,2}[$]\s*$", r"^\S{1,4}[#]$", r"^[a-c]{2,2}[>]\s?$"]


def synthetic_pattern_lines(tier):
    """every pattern SHAPE the translator accepts (also the ones no default uses: `^` without `.*`, `\\s?` before `$` in a prompt
    pattern), translated by the translator's own functions and compared with re.search: [(model request line, expected bit)]"""
    import gen.c09 as G
    fl = re.I | re.M
    out = []
    for src in SYN_CRED:
        brs = G.cred_branches(src, fl)
        rx = re.compile(src.encode(), fl)
        toks = sorted({n for _, _, n, _ in brs} | {n.upper() for _, _, n, _ in brs}) + [b" ", b"\n", b"x", b"\t", b":", b"  "]
        strs = {b"".join(t) for k in range(0, 4) for t in itertools.product(toks, repeat=k)}
        for st in sorted(strs):
            want = "1" if rx.search(st) else "0"
            # the pattern matches iff one of its branches does: ask the model for each branch, OR them in python
            out.append(([f"predb {int(b)}{int(d)}{int(t)} {hexs(n)} {hexs(st)}" for b, d, n, t in brs], want, src, st))
    for src in SYN_PROMPT:
        head, lo, hi, last, trail = G.prompt_pat(src, fl)
        rx = re.compile(src.encode(), fl)
        alpha = [b"a", b"B", b"c", b"1", b"#", b">", b"$", b" ", b"\n", b"\t"]
        n = 5 if tier == "thorough" else 4
        strs = {b"".join(t) for k in range(0, n + 1) for t in itertools.product(alpha, repeat=k)}
        for st in sorted(strs):
            out.append(([f"predp {hexs(head)} {lo} {hi} {hexs(last)} {trail} {hexs(st)}"], "1" if rx.search(st) else "0", src, st))
    return out


def real_pred_bits(pats, s):
    ch = pats["chan"]
    from scrapli.exceptions import ScrapliAuthenticationFailed
    try:
        ch._ssh_message_handler(output=s)
        fatal = False
    except ScrapliAuthenticationFailed:
        fatal = True
    return "".join("1" if x else "0" for x in (pats["U"].search(s), pats["P"].search(s), pats["H"].search(s),
                                               pats["c"].search(s), pats["g"].search(s), fatal,
                                               pats["dU"].search(s), pats["dP"].search(s), pats["dH"].search(s)))


# ------------------------------------------------------------------ main
def case_key(case):
    return json.dumps(case, sort_keys=True)


def run_cases(cases, divisor):
    """real runs for all cases -> list of results (sync ones directly, async ones in one event loop)"""
    res = [None] * len(cases)

    async def all_async():
        for i, c in enumerate(cases):
            if c["stack"] == "async":
                res[i] = await run_real_async(c, divisor)
    asyncio.run(all_async())
    for i, c in enumerate(cases):
        if c["stack"] == "sync":
            res[i] = run_real_sync(c, divisor)
    return res


def load_findings(ck):
    f = VERIF / "findings" / "C09.json"
    if f.exists():
        have = {x["id"] for x in ck.findings}
        ck.findings += [x for x in json.load(open(f)) if x["id"] not in have]


def run(tier, seed):
    ck = Check(PID, tier, seed, level="proof")
    ck.rule = ("cases = login dialogue (telnet: [kick] pre-banner, username prompt, password prompt, accept -> MOTD + shell prompt | "
               "reject -> re-prompt 1..n then close/keep prompting; ssh: client warnings, [fatal message], [passphrase prompt], "
               "password prompt, 'Permission denied, please try again') x credentials (valid / wrong password / wrong user / wrong "
               "passphrase) x cut schedule (whole, 1-byte, every single and double cut of the output stream for the short dialogues, "
               "PRNG cut lists) x clock script for empty reads x sync/async x channel built as BaseChannelArgs() or by Driver()/AsyncDriver() with default arguments x loop called "
               "directly or through driver.open() x long pre-login banners (1x, 2x, 5x comms_prompt_search_depth, default and small configured depth, lines ending in prompt-like "
               "text, every alignment, delivered in reads of their own before the login prompt) x histories whose first attempt ends in success+close / rejection / timeout / connection error followed by open() again, "
               "with channel_lock on and off x histories of 1..4 logins on ONE object (ok / re-prompted / rejected / passphrase). "
               "Non-trivial = at least one credential write and at least two reads; distinct by the full case record. Each case runs "
               "the real login loop over a causal device and the Lean model on the recorded read tape; the oracle judges the "
               "device-side log (state, bytes written) and the exception class.")
    ck.trusted = ["Lean 4.33.0 kernel; axioms of every theorem audited ⊆ {propext, Classical.choice, Quot.sound}",
                  "tools/gen/c09.py (patterns parsed with CPython's re._parser; loop facts, thresholds, message table from the AST)",
                  "harness/logindevice.py (causal login device = the environment assumption; scripted clock patched into scrapli.channel.*; "
                  "asyncio.sleep(0.1) of the async loops replaced by a bare yield)",
                  "the timeout decorator is bypassed (loops called through __wrapped__ or timeout 0): 'would run into the timeout' = SimStall"]
    ck.assumptions = ["Channel.read's cleaner is C01/C02's Lean model chanReadH (escape sequences incl. the hold-back across reads); the "
                      "invariant theorems hold for every cleaner; the closed-system theorems *_decorated are proved for chanReadH itself (text decorated "
                      "with CRs and complete escape sequences of <= 256 bytes without a second ESC inside)",
                      "closed-system correspondence: devices describable as g0 / one segment per credential line / one constant, state-preserving "
                      "reaction to a bare return (other runs are compared on the read tape only)",
                      "device reacts only to written bytes and answers instantly; time passes only during empty reads",
                      "dialogues whose banner has a whole line matching a credential pattern, or a line prefix matching the shell prompt "
                      "pattern, are outside the property (advisory: model/code agreement only)",
                      "servers that close after fewer than three prompts: outcome not fixed by the property (advisory)"]
    load_findings(ck)
    # 1 translate
    divisor = 10
    try:
        translate.translate("C01")      # the decorated-dialogue theorems import ScrapliProps.C02: its generated channel constants must come from the same tree
    except Exception as e:
        ck.proof_broken("translator gen/c01.py (imported by the decorated-dialogue theorems)", repr(e))
    try:
        translate.translate(PID)
        import gen.c09 as G
        divisor = G.return_divisor()
    except Exception as e:
        ck.proof_broken("translator gen/c09.py", repr(e))
    # 2 prove
    ck.prove("ScrapliProps.C09", lemma_files=["ScrapliProps/C09Lemmas.lean", "ScrapliProps/C09Decor.lean", "ScrapliModel/Auth.lean", "ScrapliModel/AuthPat.lean"])
    if tier == "thorough":
        ck.leanchecker("ScrapliProps.C09")
    pats = real_patterns()
    # 3 cases: corpus, exhaustive small scopes, random streams
    cases, streams = [], []
    corpus = json.load(open(VERIF / "corpus" / "C09" / "corpus.json"))
    for c in corpus:
        cases.append(c["case"]); streams.append("corpus")
    for c in driver_cases():
        cases.append(c); streams.append("driver")
    for c in exhaustive_cases(tier):
        cases.append(c); streams.append("exhaustive")
    for c in connerr_cases(tier, divisor, ck.rng):
        cases.append(c); streams.append("connerr")
    for c in history_cases(tier, ck.rng):
        cases.append(c); streams.append("history")
    for c in longbanner_cases(tier, ck.rng):
        cases.append(c); streams.append("longbanner")
    for c in lockhist_cases(tier, ck.rng):
        cases.append(c); streams.append("lockhist")
    for c in decor_cases(tier, ck.rng):
        cases.append(c); streams.append("decor")
    for c in drvhook_cases(tier, ck.rng):
        cases.append(c); streams.append("drvhooks")
    nrand = 1500 if tier == "quick" else 30000
    for i in range(nrand):
        st = "clean" if i % 10 < 5 else ("prefixy" if i % 10 < 8 else "outdomain")
        cases.append(gen_random(ck.rng, st)); streams.append(st)
    # 4 real runs
    results = run_cases(cases, divisor)
    # 5 model
    lines = [model_line(c, r) for c, r in zip(cases, results)]
    pstr = pred_strings(tier, ck.rng)
    lines += [f"pred {hexs(s)}" for s in pstr]
    syn = synthetic_pattern_lines(tier)
    syn_base = len(lines)
    for reqs, _w, _src, _st in syn:
        lines += reqs
    # the CLOSED-system model (sysRunI of the new theorems): loop + causal device + schedule, for every run of that shape
    sys_pos = {}
    for i, (c, r) in enumerate(zip(cases, results)):
        sl = sys_line(c, r)
        if sl is not None:
            sys_pos[i] = len(lines)
            lines.append(sl)
    try:
        mout = run_model("C09", lines)
    except Exception as e:
        ck.proof_broken("model driver Drv/C09.lean", repr(e))
        mout = None
    # 6 known finding: replay the stored witness
    for f in ck.findings:
        if f["id"] in (FID, FID_KICK, FID_ERR, FID_LAG) and f.get("status") == "open":
            wc = f["witness"]["case"]
            r = (run_real_sync(wc, divisor) if wc["stack"] == "sync" else asyncio.run(run_real_async(wc, divisor)))
            if oracle(wc, r) and matcher(wc, r, pats, oracle(wc, r)) == f["id"]:
                ck.known_finding(f["id"], f["what"])
    # 7 oracle + correspondence
    adv = adv_dis = 0
    outcomes = {}
    for idx, (case, res, stream) in enumerate(zip(cases, results, streams)):
        indom = in_domain(case, pats)
        ncred = sum(1 for _, w in res["writes"] if w != b"\n")
        kind = "valid" if expected(case) == "done" else ("reject" if expected(case) in ("fail", "fail-now") else "open-ended")
        if indom:
            ck.case(case_key(case), nontrivial=ncred > 0 and len(res["tape"]) > 1,
                    sample={"flavour": case["flavour"], "stack": case["stack"], "cuts": case["cuts"][:2] if case["cuts"][0] != "list" else ["list"],
                            "outcome": res["outcome"], "reads": len(res["tape"]), "writes": [S(w) for _, w in res["writes"]][:8]},
                    tags=(f"{case['flavour']}-{case['stack']}", f"stream={stream}", f"cuts={case['cuts'][0]}", f"expect={kind}",
                          f"outcome={res['outcome'].split(':')[0]}", f"reads={min(len(res['tape']) // 10 * 10, 100)}+",
                          "empty-reads" if any(e[0] == "c" and not e[1] for e in res["tape"]) else "no-empty-reads",
                          f"conn-errors={min(sum(1 for e in res['tape'] if e[0] == 'E'), 3)}",
                          f"via={case.get('via')}", f"build={case.get('build')}", f"logins-on-object={len(case.get('prev', [])) + 1}",
                          f"channel_lock={bool(case.get('channel_lock'))}", f"platform={case.get('platform') or '-'}"))
            viol = oracle(case, res)
            if viol:
                rec = {"case": case, "stream": stream, "what": viol, "outcome": res["outcome"],
                       "reads": [hexs(e[1]) if e[0] == "c" else "E" for e in res["tape"]],
                       "wlog": [[st, S(w)] for st, w in res["wlog"]]}
                ck.violation(rec, f"{case['flavour']} {case['stack']} login: " + "; ".join(viol),
                             lambda rec_, c=case, r=res, v=viol: matcher(c, r, pats, v))
        else:
            adv += 1
            outcomes[res["outcome"].split(":")[0]] = outcomes.get(res["outcome"].split(":")[0], 0) + 1
            if res["outcome"].startswith("other:"):
                ck.violation({"case": case, "outcome": res["outcome"]}, "login raised a non-scrapli exception: " + res["outcome"])
        if mout is not None and not case.get("auth_bypass") and not case.get("platform"):
            status, nread, mw = model_view(mout[idx], case)
            got = (res["outcome"], len(res["tape"]), res["writes"])
            if res["outcome"].startswith("other:") or (status, nread, mw) != got:
                # model fidelity is claimed for EVERY tape (the open theorems quantify over all of them): a disagreement is
                # hard whether or not the dialogue is inside the oracle's domain
                ck.disagree("Auth model vs real login loop" + ("" if indom else " (dialogue outside the oracle's domain)"), {"case": case},
                            f"impl={got[0]} reads={got[1]} writes={[(n, S(w)) for n, w in got[2]]} model={mout[idx]}")
                if not indom:
                    adv_dis += 1
            else:
                ck.traces_validated += 1
    # closed-system correspondence: the model's device + loop + schedule reproduce the real run (outcome, reads, every write)
    nsys = ndec = nidle = nkick = 0
    if mout is not None:
        for i, pos in sys_pos.items():
            case, res = cases[i], results[i]
            status, nread, mw = model_view(mout[pos], case)
            got = (res["outcome"], len(res["tape"]), res["writes"])
            if (status, nread, mw) != got:
                ck.disagree("closed-system model (sysRunI: login loop + causal device + read schedule, real cleaner) vs real login over the device",
                            {"case": case}, f"impl={got[0]} reads={got[1]} writes={[(n, S(w)) for n, w in got[2]]} model={mout[pos]} request={lines[pos][:400]}")
            else:
                ck.traces_validated += 1
                nsys += 1
                raw = b"".join(e[1] for e in res["tape"] if e[0] == "c")
                ndec += 1 if (b"\x1b" in raw or b"\r" in raw) else 0
                nidle += 1 if any(e[0] == "c" and not e[1] for e in res["tape"]) else 0
                nkick += 1 if any(w == b"\n" and (k == 0 or res["writes"][k - 1][0] != n or res["writes"][k - 1][1] == b"\n")
                                  for k, (n, w) in enumerate(res["writes"])) else 0
    ck.extra["closed_system_runs_compared"] = {"agree": nsys, "of": len(sys_pos), "decorated(CR/ESC)": ndec, "with_empty_reads": nidle, "with_kicks": nkick}
    # decoration independence observed on the real code (oracle side of login_decoration_independent): a decorated dialogue and its
    # undecorated twin end the same way and type the same bytes
    twins = {}
    for case, res in zip(cases, results):
        if case.get("twin"):
            twins.setdefault(case["twin"][0], {})[case["twin"][1]] = (case, res)
    ntw = 0
    for tw in twins.values():
        if len(tw) == 2:
            (cp, rp), (cd, rd) = tw["plain"], tw["decor"]
            if not (in_domain(cp, pats) and in_domain(cd, pats)):
                continue
            a = (rp["outcome"], [w for _, w in rp["writes"]])
            b = (rd["outcome"], [w for _, w in rd["writes"]])
            ntw += 1
            if a != b and "running" not in (a[0], b[0]):
                ck.violation({"case": cd, "twin": cp, "plain": [a[0], [S(w) for w in a[1]]], "decorated": [b[0], [S(w) for w in b[1]]]},
                             f"{cd['flavour']} {cd['stack']} login: carriage returns / escape sequences in the device output change the login: "
                             f"undecorated {a[0]} {[S(w) for w in a[1]]}, decorated {b[0]} {[S(w) for w in b[1]]}",
                             lambda rec_, c=cd, r=rd: matcher(c, r, pats, ["x"]))
    ck.extra["decoration_twins_compared"] = ntw
    # dispatch facts observed through driver.open(): bypass => nothing written, nothing read
    for case, res in zip(cases, results):
        if case.get("via") == "driver" and case.get("auth_bypass") and (res["writes"] or res["tape"]):
            ck.violation({"case": case}, "auth_bypass=True but the login loop ran")
    # predicate cross-check
    if mout is not None:
        base = len(cases)
        bad = 0
        for i, s in enumerate(pstr):
            rb = real_pred_bits(pats, s)
            if rb != mout[base + i]:
                bad += 1
                ck.disagree("hand-modelled patterns vs re.search / _ssh_message_handler", {"string": hexs(s)},
                            f"re={rb} model={mout[base + i]} (username password passphrase chanPrompt genericPrompt fatal driver-username driver-password driver-passphrase)")
        # synthetic patterns of every accepted shape
        pos, sbad = syn_base, 0
        for reqs, want, src, st in syn:
            got = "1" if any(mout[pos + i] == "1" for i in range(len(reqs))) else "0"
            pos += len(reqs)
            if got != want:
                sbad += 1
                ck.disagree("translated pattern shape vs re.search (synthetic patterns)", {"pattern": src, "string": hexs(st)},
                            f"re={want} model={got}")
        ck.extra["synthetic_pattern_strings_checked"] = len(syn)
        ck.traces_validated += len(syn) - sbad
        ck.extra["pattern_strings_checked"] = len(pstr)
        ck.traces_validated += len(pstr) - bad
    ck.extra["advisory_out_of_domain_cases"] = adv
    ck.extra["advisory_out_of_domain_disagreements"] = adv_dis
    ck.extra["advisory_outcomes"] = outcomes
    ck.exhaustive = True
    ck.extra["exhaustive_scope"] = "20 short dialogues x (whole, 1-byte reads, every single cut, every double cut of the output stream)"
    return ck.finish()


def replay(path):
    from vlib import common
    r = json.load(open(path))
    v = r.get("violation", {}).get("case") or {}
    case = v.get("case") or (r.get("no_longer_checks") or [{}])[0].get("case", {}).get("case")
    if not case:
        print("no case in replay file")
        return 2
    import gen.c09 as G
    divisor = G.return_divisor()
    res = run_real_sync(case, divisor) if case["stack"] == "sync" else asyncio.run(run_real_async(case, divisor))
    print("outcome", res["outcome"])
    print("reads  ", [e[1] if e[0] == "c" else "EOF" for e in res["tape"]])
    print("writes ", res["writes"])
    print("device ", res["wlog"])
    viol = oracle(case, res)
    print("oracle ", viol or "ok")
    return 1 if viol else 0
