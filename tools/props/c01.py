"""C01 — a command's response is exactly what the device printed for that command.
Lean: ScrapliModel/Channel/*.lean, ScrapliProps/C01.lean.  Real code: the real drivers (Generic + 5 core
platforms, sync and asyncio) over the causal simulated device; every channel-level call (also the ones the
on_open hooks make) is replayed on the Lean channel model (trace refinement, scripted device)."""
import json
import re

import translate
from harness import chanscen
from harness.chanscen import Scenario, model_request, normalize, real_reply, run_real
from vlib.common import VERIF, Check, hexl, hexs, run_model

PID = "C01"
PLATFORMS = ["cisco_iosxe", "cisco_iosxr", "cisco_nxos", "arista_eos", "juniper_junos", "generic"]
MAXHOST = {"cisco_iosxe": 63, "cisco_iosxr": 48, "cisco_nxos": 63, "arista_eos": 63, "juniper_junos": 40, "generic": 48}
SAFE = "abcdefghijklmnopqrstuvwxyzABCDEFGHIJKLMNOPQRSTUVWXYZ0123456789 .,;=_-/()[{}'\"!?*+|\\^&"   # no prompt terminators # > $ % ~ @ : ]
HOSTCH = "abcdefghijklmnopqrstuvwxyzABCDEFGHIJKLMNOPQRSTUVWXYZ0123456789"
COMMANDS = ["show vlan 100", "terminal width 511", "show version", "show run | include lo0", "show ip route  ", "ping 10.0.0.1 repeat 2", "show (x|y)+ [a-z]*", "echo 100% done %s %r",
            "show  two   blanks", "show café", "s", "show interfaces description | exclude ^Lo", "show\tversion", "SHOW Version", "show log | i #"]


def gen_host(rng, platform):
    n = rng.choice([1, 2, 3, 8, 20, MAXHOST[platform] - 1, MAXHOST[platform]])
    if platform == "cisco_nxos":
        n = min(n, 32)
    if n == 1:
        return rng.choice(HOSTCH)
    mid = "".join(rng.choice(HOSTCH + ("._-" if platform != "generic" else ".-_")) for _ in range(n - 2))
    return rng.choice(HOSTCH) + mid + rng.choice(HOSTCH)


def gen_output(rng, depth, cap=None):
    """device output text for one command; sizes biased around the prompt-search window"""
    kind = rng.random()
    if kind < 0.12:
        return ""
    target = rng.choice([1, 5, 30, 80, depth - 2, depth - 1, depth, depth + 1, depth + 2, 2 * depth - 1, 2 * depth + 2, 5 * depth])
    if cap:
        target = min(target, cap)
    if kind < 0.25:       # one long line crossing the window
        return "".join(rng.choice(SAFE.replace(" ", "")) for _ in range(target))
    lines, total = [], 0
    while total < target:
        n = rng.choice([0, 0, 1, 3, 10, 40, 79, 120])
        ln = "".join(rng.choice(SAFE) for _ in range(n))
        if rng.random() < 0.3:
            ln += rng.choice([" ", "  ", "\t", " \t "])
        lines.append(ln)
        total += len(ln) + 1
    if rng.random() < 0.2:
        lines = ["", ""] + lines
    if rng.random() < 0.2:
        lines += ["", " "]
    if rng.random() < 0.2 and lines:
        # valid multi-byte UTF-8 in the output (degree sign, accents, dashes): results are text, not only ASCII
        k = rng.randrange(len(lines))
        lines[k] = lines[k][: len(lines[k]) // 2] + rng.choice(["é", "°", "–", "µs", "Ünïcödé", "温度", "→", "✛Eth1", "❝Mgmt", "ě7", "魛["])   # the last four contain the bytes 0x9B / 0x9D (fix 3f4e39f) + lines[k][len(lines[k]) // 2:]
    return "\n".join(lines)


TRAIL = {"cisco_iosxe": [""], "cisco_iosxr": ["", " "], "cisco_nxos": ["", " "], "arista_eos": ["", " "], "juniper_junos": ["", " "],
         "generic": ["", " ", "  ", " \t "]}     # trailing blanks the platform's own pattern admits after the prompt


_SAFE_LINES = {}


def generic_only_lines(platform):
    """lines the GENERIC prompt pattern accepts but of which no prefix (a read can end anywhere in a line) is a prompt of the platform's
    own class pattern -- they are not prompts of a platform driver that has commandeered a GenericDriver's connection"""
    if platform not in _SAFE_LINES:
        import scrapli.driver as D
        import scrapli.driver.core as C
        from harness.simtransport import DRIVERS
        cls = getattr(C, DRIVERS[platform][0], None) or getattr(D, DRIVERS[platform][0])
        pp = re.compile(cls(host="h").comms_prompt_pattern.encode(), re.M | re.I)
        gp = re.compile(D.GenericDriver(host="h").comms_prompt_pattern.encode(), re.M | re.I)
        cands = ["</rpc-reply>", "<name>ge-0/0/0</name>", "total:", "[ok]", "cost 5$", "a~", "<done>", "[edit-candidate]", "<value@x>"]
        _SAFE_LINES[platform] = [c for c in cands if gp.search(c.encode()) and not any(pp.search(c.encode()[:k]) for k in range(1, len(c) + 1))]
    return _SAFE_LINES[platform]


def gen_scenario(rng, tier, eager_input=False):
    platform = rng.choice(PLATFORMS)
    m = rng.random()
    small = m < 0.45            # many tiny reads: keep the window (and the stream) small so the run stays cheap
    depth = rng.choice([100, 200]) if small else rng.choice([None, None, None, 200])
    d = depth or 1000
    sc = Scenario(platform=platform, stack=rng.choice(["sync", "async"]), hostname=gen_host(rng, platform),
                  user=rng.choice(["admin", "a", "net_ops-1"]), nl=rng.choice([b"\n", b"\r\n", b"\r\r\n"]), ret=rng.choice(["\n", "\n", "\r\n"]),
                  depth=depth, trailing=rng.choice(TRAIL[platform]))
    if len(sc.hostname) + 30 >= d:
        sc.hostname = sc.hostname[:20]
    if platform == "juniper_junos" and rng.random() < 0.5:
        # Junos prints a banner line above the prompt; the driver's pattern treats it as part of the (two-line) prompt
        sc.prompts = {"exec": rng.choice(["{{master:0}}", "{{backup}}", "{{master:1}}", "{{master}}"]) + "\n{u}@{h}>"}
    if rng.random() < 0.08:
        sc.echo_junk = {"seed": rng.randrange(10**6), "alphabet": "\x08"}     # strict matching ignores backspaces the device interleaves (Junos line wrap)
    cmds = rng.sample(COMMANDS, rng.randint(1, 4))
    for c in cmds:
        sc.outputs[c.strip()] = gen_output(rng, d if rng.random() < 0.7 else 60, cap=3 * d if small else None)
    nops = rng.randint(1, 5)
    for _ in range(nops):
        r = rng.random()
        if r < 0.15:
            sc.ops.append(("get_prompt",))
        elif r < 0.7:
            sc.ops.append(("send_command", rng.choice(cmds), rng.random() < 0.7, eager_input and rng.random() < 0.5))
        elif r < 0.85:
            chosen = [rng.choice(cmds) for _ in range(rng.randint(1, 4))]
            op = ("send_commands", chosen, rng.random() < 0.7)
            if rng.random() < 0.6:
                # the loop's own options: stop_on_failed and a per-call failed_when_contains list whose markers are words of some
                # command's output (so that some responses are flagged), words of no output, or nothing at all
                words = [w for c in cmds for w in re.findall(r"[A-Za-z0-9]{3,}", sc.outputs[c.strip()])]
                fwc = rng.choice([[], ["NEVER-IN-ANY-OUTPUT"], *([[rng.choice(words)], [rng.choice(words), "NEVER-IN-ANY-OUTPUT"]] if words else [])])
                op = (*op, rng.random() < 0.6, fwc)
            sc.ops.append(op)
        else:
            sc.ops.append(gen_interactive(rng, sc))
    if rng.random() < 0.12 and not sc.echo_junk and not sc.prompts:
        # an operation given up while the device is silent in the middle of its output (timeout with the connection kept, cancelled
        # task); the device then prints the rest: the following operations must again return exactly their own output
        long_cmds = [c for c in cmds if len(sc.outputs[c.strip()].encode()) >= 4]
        if long_cmds:
            c = rng.choice(long_cmds)
            n = rng.randint(1, len(sc.outputs[c.strip()].encode()) - 1)
            at = rng.randint(0, len(sc.ops))
            # the next input must not occur in what the device still has to print (its echo is searched for in everything that
            # arrives; a device output containing the next command verbatim is outside the property's quantifier)
            sq = lambda x: "".join(x.lower().split())
            rest = sq(sc.outputs[c.strip()] + sc.hostname + sc.user)
            follow = [x for x in cmds if len(sq(x)) >= 4 and sq(x) not in rest]
            if follow:
                sc.ops[at:at] = [("abandon", c, n), ("send_command", rng.choice(follow), rng.random() < 0.7, False)]
    if rng.random() < 0.06 and not sc.echo_junk and not sc.prompts and not any(o[0] == "abandon" for o in sc.ops):
        # an operation times out while the last thing the device printed is the BEGINNING of an escape sequence (the channel holds it
        # back); the timeout handler closes the transport; the user opens the same object again: a new session, nothing of the old
        # one may show up in it (the device prints its prompt at once, so the new session does not start with a newline)
        long_cmds = [c for c in cmds if len(sc.outputs[c.strip()].encode()) >= 4]
        if long_cmds:
            c = rng.choice(long_cmds)
            n = rng.randint(1, len(sc.outputs[c.strip()].encode()) - 1)
            # the second prompt (the answer to get_prompt's return) is still unread when the next command is sent: that command
            # must not occur in it (its echo is searched for, ignoring case and blanks, in everything that arrives)
            sq = lambda x: "".join(x.lower().split())
            follow = [x for x in cmds if len(sq(x)) >= 4 and sq(x) not in sq(sc.hostname + sc.user)]
            if follow:
                sc.ops = [("abandon", c, n, rng.choice([b"\x1b[", b"\x1b", b"\x1b]0;ti", b"\x1b[3"]).decode("latin1")), ("reopen",), ("get_prompt",),
                          ("send_command", rng.choice(follow), True, False)] + [o for o in sc.ops[:2] if o[0] != "get_prompt"]
    if rng.random() < 0.15 and platform == "generic" and not sc.questions and not any(o[0] in ("abandon", "reopen", "send_interactive") for o in sc.ops) and len({c.strip() for c in cmds}) >= 3 and len(cmds) == len({c.strip() for c in cmds}):
        # the prompt pattern is changed on the open connection (public setter) after operations have already run: from then on the
        # driver's pattern is the new one -- lines that only the old (generic) pattern accepted are ordinary output of later commands
        c1, c2, c3 = rng.sample(cmds, 3)
        for c in (c2, c3):
            k = c.strip()
            sc.outputs[k] = (sc.outputs[k] + "\n" if sc.outputs[k] else "") + rng.choice(["total:", "[ok]", "cost 5$", "a~", "<done>", "</rpc-reply>", "node@"]) + "\nend of output"
        sc.ops = [("send_command", c1, True, False), ("set_pattern", "exact"), ("send_command", c2, rng.random() < 0.8, False), ("get_prompt",),
                  ("send_commands", [c3, c1], True)]
    if rng.random() < 0.06 and platform != "generic" and not sc.prompts:
        # the connection is made by a GenericDriver and taken over by the platform driver (commandeer): outputs may contain lines
        # that the GENERIC prompt pattern accepts but the platform's does not -- they are not prompts of this driver
        sc.commandeer = True
        sc.hostname = sc.hostname[:30]      # the GenericDriver that makes the connection reads the prompt too (its pattern admits 48 bytes)
        safe = generic_only_lines(platform)
        for c in list(sc.outputs):
            if safe and rng.random() < 0.7:
                sc.outputs[c] = (sc.outputs[c] + "\n" if sc.outputs[c] else "") + rng.choice(safe) + "\nend of output"
    if rng.random() < 0.1:
        # the interactive session ends on an interaction_complete_pattern instead of the expected response: the remaining
        # inputs must not be sent (last operation of the scenario: the device is left at its question)
        q, qtexts, expects = rng.choice(DIALOGS)
        sc.questions[q] = list(qtexts) if len(qtexts) > 1 else qtexts[0]
        sc.outputs.setdefault(q, "done")
        sc.ops.append(("send_interactive", [(q, "RESPONSE-THAT-NEVER-COMES", False), ("SHOULD-NOT-BE-SENT", "", rng.random() < 0.5)],
                       [rng.choice(["NEVER-SEEN-TEXT", "^never\\d+$"]), expects[0]], None, "early"))
    if small:
        k = rng.random()
        sc.cuts = [1] * 20000 if k < 0.5 else [rng.choice([2, 3, 7])] * 20000 if k < 0.7 else [rng.choice([1, 1, 2, 3, 5, 8]) for _ in range(6000)]
    elif m < 0.65:
        sc.cuts = []
    elif m < 0.8:
        sc.cuts = [rng.choice([64, 999, 1000, 1001, 250])] * 2000
    else:
        sc.cuts = [rng.choice([20, 30, 200, 1000, 5000, 64, 7]) for _ in range(2000)]
    return sc


DIALOGS = [("clear counters", ["Clear \"show interface\" counters on all interfaces [confirm]"], ["[confirm]"]),
           ("reload in 5", ["Proceed? [y/n]: "], ["[y/n]:"]),
           ("ping", ["Protocol [ip]: ", "Target IP address: ", "Repeat count [5]: "], ["Protocol [ip]:", "Target IP address:", "^Repeat count \\[\\d+\\]:\\s?$"]),
           ("copy run start", ["Destination filename [startup-config]? ", "Overwrite [confirm]"], ["[startup-config]?", "[confirm]"])]
ANSWERS = ["", "y", "n", "10.1.1.1", "5"]


def gen_interactive(rng, sc):
    """a multi-step dialogue; outputs may mention earlier expected texts; interaction_complete_patterns may be a list
    object the caller re-uses across calls (last element of the op = sharing key)"""
    q, qtexts, expects = rng.choice(DIALOGS)
    sc.questions[q] = list(qtexts) if len(qtexts) > 1 else qtexts[0]
    if q not in sc.outputs:
        # outputs that mention an earlier expected text (not prompt-like for the network drivers; for the generic pattern a line
        # ending in ':' or ']' would itself read as a prompt, which the property's quantifier excludes)
        mention = "" if sc.platform == "generic" else rng.choice(["", "", expects[0] + " accepted", "note: " + expects[-1].strip("^$\\")])
        sc.outputs[q] = rng.choice(["", "done", gen_output(rng, 40), mention, "line\n" + mention + "\nlast"])
    events = [(q, expects[0], False)]
    for i in range(1, len(qtexts)):
        events.append((rng.choice(ANSWERS), expects[i], False))
    events.append((rng.choice(ANSWERS), "", False))      # final answer: wait for the normal prompt
    r = rng.random()
    if r < 0.5:
        return ("send_interactive", events, None)
    comp = rng.choice([["NEVER-SEEN-TEXT"], ["^never\\d+$", "% Unknown"], []])
    return ("send_interactive", events, comp, rng.choice([None, "shared-1"]))


# ---------- oracle: the property stated on the device's own log, independent of the model
def expected_core(dev, out_text):
    o = (out_text or "").encode()
    return b"\n" + (o + b"\n" if out_text else b"") + dev.prompt().replace(b"\r", b"")


HWS = b" \t"


def _text(b):
    """the characters the device printed: UTF-8, or ISO-8859-1 when the bytes are not valid UTF-8 (documented fallback of Response)"""
    try:
        return b.decode()
    except UnicodeDecodeError:
        return b.decode("ISO-8859-1")


def check_single(dev, cmd, strip, got, trailing):
    """got = (result, raw_result, failed, channel_input) of one send_command"""
    result, raw, _failed, _ci = got
    out_text = None
    for line, text in dev.text_log:
        if line.strip() == cmd.strip():
            out_text = text
    core = expected_core(dev, out_text)
    want = normalize((out_text or "").encode()) if strip else normalize((out_text or "").encode() + b"\n" + dev.prompt().replace(b"\r", b""))
    problems = []
    if result != _text(want):
        problems.append(f"result {result[:80]!r}... != device output normalised {want[:80]!r}...")
    body = raw.lstrip(HWS)
    if not body.startswith(core):
        problems.append("raw_result does not start (after blanks) with newline+output+prompt as printed")
    else:
        rest = body[len(core):]
        if rest.strip(HWS) or not trailing.startswith(rest):
            problems.append(f"raw_result has {rest!r} after the prompt (device trailing {trailing!r})")
    return problems


def oracle(sc, res):
    """returns list of problem strings (empty = property held on this run)"""
    problems = []
    if res.stalled:
        return ["operation would block forever (device printed everything, channel still waiting)"]
    if res.error:
        return [f"operation raised {res.error}"]
    dev = res.device
    trailing = dev.trailing
    for k, (op, got) in enumerate(zip(sc.ops, res.op_results)):
        if op[0] == "get_prompt":
            if got != dev.prompt().replace(b"\r", b"").decode().strip():
                problems.append(f"get_prompt returned {got!r}, device prompt is {dev.prompt()!r}")
        elif op[0] == "send_command":
            problems += check_single(dev, op[1], op[2], got, trailing)
        elif op[0] == "send_and_read":
            # expected outputs that the device never prints: the timed loop ends on the prompt, the result is the command's output
            problems += check_single(dev, op[1], op[3], got, trailing)
        elif op[0] in ("reopen", "set_pattern"):
            pass        # the operations after it are judged as usual: a re-opened connection is a new session
        elif op[0] == "abandon":
            if got[0] != "ABANDONED":
                problems.append(f"send_command({op[1]!r}) returned although the device had printed only {op[2]} bytes of its response and no prompt")
        elif op[0] == "send_commands":
            stop, fwc = (op[3], op[4]) if len(op) > 4 else (False, None)
            sub = []
            for cmd, g in zip(op[1], got):
                sub += check_single(dev, cmd, op[2], g, trailing)
            problems += sub
            want_n = len(op[1])
            if fwc is not None and not sub:
                # every result is the command's own text (checked above): the flag must be computed from that text alone, and with
                # stop_on_failed the responses end with the first flagged one
                for i, g in enumerate(got):
                    flag = any(m in g[0] for m in fwc)
                    if g[2] != flag:
                        problems.append(f"send_commands response {i}: failed={g[2]} but its own result {'contains' if flag else 'does not contain'} a marker of {fwc}")
                    if stop and flag:
                        want_n = i + 1
                        break
            if len(got) != want_n:
                problems.append(f"send_commands returned {len(got)} responses, {want_n} expected (stop_on_failed={stop}, markers {fwc})")
        elif op[0] == "send_interactive" and len(op) > 4 and op[4] == "early":
            result, raw, _f, _ci = got
            q = op[1][0][0]
            qs = sc.questions[q]
            q0 = (qs if isinstance(qs, list) else [qs])[0]
            want = _text(normalize(q.encode() + b"\n" + q0.encode()))
            shown = result.replace("\x08", "") if sc.echo_junk else result
            if shown != want:
                problems.append(f"interactive session ended by a complete pattern: result {result[:100]!r} != {want[:100]!r}")
            if b"SHOULD-NOT-BE-SENT" in b"".join(res.writes):
                problems.append("an input was sent after the interaction complete pattern had been seen")
            return problems      # the device is left at its question: nothing more to check
        elif op[0] == "send_interactive":
            result, raw, _f, _ci = got
            q = op[1][0][0]
            qs = sc.questions[q]
            qs = qs if isinstance(qs, list) else [qs]
            transcript = q.encode()
            for qt, ev in zip(qs, op[1][1:]):
                transcript += b"\n" + qt.encode() + ev[0].encode()
            transcript += expected_core(dev, sc.outputs.get(q))
            shown = result.replace("\x08", "") if sc.echo_junk else result   # the interactive result keeps the raw echo
            if shown != _text(normalize(transcript)):
                before = res.unread_before[k].replace(b"\r", b"")
                if before and shown == _text(normalize(b"X" + before + transcript)[1:].lstrip(b"\n")):
                    problems.append("F23")      # interactive result starts with the residue left unread by the previous operation (repaired by fix 4c94c83)
                else:
                    problems.append(f"send_interactive result {result[:100]!r} != transcript {normalize(transcript)[:100]!r}")
    if res.unread.strip(HWS):
        problems.append(f"session out of step: unread bytes {res.unread[:40]!r} left after the last operation")
    return problems


def matcher(case):
    """attribute a violation to a known finding only if EVERY problem of the run is that finding"""
    probs = case.get("problems") or []
    if probs and all(p == "F23" for p in probs):
        return "F23"
    return None


def validate_regex_hypotheses(ck, tier):
    """the theorems take the prompt search as a parameter with hypotheses (Fits.search_lines: MULTILINE search hits iff some single
    line satisfies the line predicate; Fits.blank: invisible text never matches).  Check them against CPython for every driver's
    real pattern on prompt-rich random buffers."""
    import scrapli.driver as D
    import scrapli.driver.core as C
    rng = ck.rng
    pats = {}
    for name in ("IOSXEDriver", "IOSXRDriver", "NXOSDriver", "EOSDriver", "JunosDriver"):
        drv = getattr(C, name)(host="h")
        pats[name] = drv.comms_prompt_pattern
        # each level's own pattern: what _escalate passes to send_inputs_interact as the expected response and as
        # interaction_complete_patterns (GoodStep.resp_lines / compl_lines of interact_exact)
        for lvl, pl in drv.privilege_levels.items():
            pats[f"{name}.{lvl}"] = pl.pattern
    pats["GenericDriver"] = D.GenericDriver(host="h").comms_prompt_pattern
    frag = [b"r1#", b"r1>", b"r1(config)#", b"r1(config-if)#", b"RP/0/RP0/CPU0:xr#", b"u@h>", b"u@h# ", b"{master:0}", b"[edit]", b"%", b"root@h:~ # ", b"x-tcl#",
            b"sw(config-s)#", b"", b" ", b"\t", b"abc def", b"Password:", b"a>b", b"#", b">", b"line one", b"r1# ", b"r1#  "]
    n = 6000 if tier == "quick" else 60000
    bad = 0
    for name, pat in pats.items():
        c = re.compile(pat.encode(), re.M | re.I)
        for _ in range(n // len(pats)):
            lines = [rng.choice(frag) + (bytes(rng.choice(b"ab1#> ") for _ in range(rng.choice([0, 0, 1, 3]))) if rng.random() < 0.3 else b"") for _ in range(rng.randint(1, 5))]
            w = b"\n".join(lines)
            whole = c.search(w) is not None
            per_line = any(c.search(ln) is not None for ln in w.split(b"\n"))
            ck.extra["regex_hypothesis_checks"] = ck.extra.get("regex_hypothesis_checks", 0) + 1
            if whole != per_line:
                bad += 1
                ck.disagree("hypothesis Fits.search_lines (search hits iff a single line matches) vs CPython re", {"driver": name, "buffer": w.decode("latin1")}, f"whole={whole} per_line={per_line}")
            elif whole and b"{master:0}" not in w:
                # hypothesis hfirst of get_prompt_exact (single-line prompts): group(0) of the first match is the first matching line up to blanks
                first_line = next(ln for ln in w.split(b"\n") if c.search(ln) is not None)
                if c.search(w).group(0).strip() != first_line.strip():
                    bad += 1
                    ck.disagree("hypothesis hfirst (group(0) = first matching line up to blanks) vs CPython re", {"driver": name, "buffer": w.decode("latin1")},
                                f"group0={c.search(w).group(0)!r} first_line={first_line!r}")
        # hypothesis hsub of expected_is_normalized_strip: on a buffer whose other lines are not prompt-like, re.sub(pattern, b"")
        # empties exactly the prompt line
        quiet = [f for f in frag if c.search(f) is None and b"\n" not in f and b"{master" not in f]     # (the Junos banner line is part of a two-line prompt)
        prompts = [f for f in frag if f.strip() and c.search(f) is not None and b"\n" not in f and b"{master" not in f]
        for _ in range(40 if tier == "quick" else 400):
            if not prompts:
                break
            lines = [rng.choice(quiet).rstrip() for _ in range(rng.randint(0, 5))]
            pr = rng.choice(prompts).rstrip()
            if any(c.search(ln) for ln in lines):
                continue
            joined = b"\n".join(lines + [pr])
            ck.extra["regex_hypothesis_checks"] = ck.extra.get("regex_hypothesis_checks", 0) + 1
            if c.sub(b"", joined) != b"\n".join(lines + [b""]):
                bad += 1
                ck.disagree("hypothesis hsub (re.sub empties exactly the prompt line) vs CPython re", {"driver": name, "buffer": joined.decode("latin1")},
                            f"sub={c.sub(b'', joined)!r}")
        for blank in (b"", b" ", b"\t ", b"  \t", b"\x0b", b" \x0c "):
            if c.search(blank):
                ck.disagree("hypothesis Fits.blank (invisible text never matches) vs CPython re", {"driver": name, "buffer": repr(blank)}, "")
    return bad


def env_request(sc, res):
    """for scenarios of LineDev's shape (LF newlines, one prompt for the whole session, no dialogues / junk / decoration / banner):
    the request that folds the theorems' device `LineDev.onWrite` over the writes of the real run; None if the scenario is not of that shape"""
    if sc.nl != b"\n" or sc.questions or sc.echo_junk or sc.decor or sc.prompts or sc.banner or sc.initial_prompt or res.abandoned or res.stalled or res.error:
        return None
    if any(op[0] in ("send_interactive", "abandon") for op in sc.ops):
        return None
    dev = res.device
    if any(e[0] == "move" for e in dev.events) or len({m for m, _ in dev.exec_log}) > 1:
        return None
    if len(res.writes) != len(res.dev_outputs):
        return None
    tbl = "|".join(f"{hexs(k.strip().encode())}={hexs(v.encode())}" for k, v in sc.outputs.items() if v) or "."
    return f"dev {hexs(dev.prompt())} {hexs(dev.trailing)} {tbl} {hexl(res.writes)}"


def line_predicate_differential(ck, tier):
    """ScrapliProps/C01Platform.lean proves blank / NoEarly / PromptOK for every IOS-XE prompt w.r.t. the hand-written line
    predicate `iosxeP`; the one fact left to sampling is that the compiled class pattern accepts exactly the lines `iosxeP`
    accepts.  Compare them on prompt-shaped and mutated lines, incl. the {1,63} / {0,32} bounds."""
    import scrapli.driver.core as C
    rng = ck.rng
    c = re.compile(C.IOSXEDriver(host="h").comms_prompt_pattern.encode(), re.M | re.I)
    alpha = b"abzAZ09_.-@/:+>#()tclTCL \t!"
    base = [b"r1#", b"r1>", b"Router-1.lab(config-if)#", b"sw_2/1:a@b(config)#", b"r1(tcl)#", b"r1(TCL)>", b"+>", b"a" * 63 + b"#", b"a" * 64 + b"#",
            b"h(" + b"m" * 32 + b")#", b"h(" + b"m" * 33 + b")#", b"h()#", b"#", b">", b"(x)#", b"r1(a(b)#", b"r1(a)b)#", b"r1 #", b"r1(tcl)", b"x>y(tcl)#", b"r1(conf+)#", b"r+1#", b""]
    lines = list(base)
    for _ in range(1500 if tier == "quick" else 20000):
        ln = bytearray(rng.choice(base))
        for _ in range(rng.randint(0, 3)):
            k = rng.random()
            if k < 0.4 and ln:
                ln[rng.randrange(len(ln))] = rng.choice(alpha)
            elif k < 0.7:
                ln.insert(rng.randint(0, len(ln)), rng.choice(alpha))
            elif ln:
                del ln[rng.randrange(len(ln))]
        lines.append(bytes(ln))
    try:
        outs = run_model("C01", [f"linep iosxe {hexs(ln)}" for ln in lines], native=True)
    except Exception as e:
        ck.proof_broken("model driver Drv/C01.lean (linep)", repr(e))
        return
    n_true = 0
    for ln, o in zip(lines, outs):
        want = c.search(ln) is not None
        n_true += want
        ck.extra["line_predicate_checks"] = ck.extra.get("line_predicate_checks", 0) + 1
        if (o.strip() == "1") != want:
            ck.disagree("iosxeP (Lean line predicate) vs the IOS-XE class pattern in CPython re", {"line": ln.decode("latin1")}, f"model={o.strip()} re={want}")
    ck.extra["line_predicate_accepting_lines"] = n_true
    # the same for IOS-XR (`iosxrP`, ScrapliProps/C01PlatformXR.lean): `\s?` after the `#`, `config` in any case, bounds {1,63} / {0,32}
    cx = re.compile(C.IOSXRDriver(host="h").comms_prompt_pattern.encode(), re.M | re.I)
    alpha_x = b"abzAZ09_.-@/:+>#()configCONFIG \t\r\x0b\x0c!"
    base_x = [b"RP/0/RP0/CPU0:ios#", b"RP/0/RP0/CPU0:ios# ", b"xr-1(config)#", b"xr-1(config-if)# ", b"xr(CONFIG-bgp)#", b"xr(confi)#", b"xr(config" + b"m" * 32 + b")#",
              b"xr(config" + b"m" * 33 + b")#", b"a" * 63 + b"#", b"a" * 64 + b"#", b"#", b"# ", b"xr#  ", b"xr#\t", b"xr#\x0c", b"xr>", b"xr(config)>", b"xr(cfg)#",
              b"x(y)(config)#", b"xr(config+)#", b"xr(config)##", b"xr# #", b"(config)#", b""]
    lines_x = list(base_x)
    for _ in range(1500 if tier == "quick" else 20000):
        ln = bytearray(rng.choice(base_x))
        for _ in range(rng.randint(0, 3)):
            k = rng.random()
            if k < 0.4 and ln:
                ln[rng.randrange(len(ln))] = rng.choice(alpha_x)
            elif k < 0.7:
                ln.insert(rng.randint(0, len(ln)), rng.choice(alpha_x))
            elif ln:
                del ln[rng.randrange(len(ln))]
        if b"\n" not in ln:
            lines_x.append(bytes(ln))
    try:
        outs = run_model("C01", [f"linep iosxr {hexs(ln)}" for ln in lines_x], native=True)
    except Exception as e:
        ck.proof_broken("model driver Drv/C01.lean (linep iosxr)", repr(e))
        return
    n_true = 0
    for ln, o in zip(lines_x, outs):
        want = cx.search(ln) is not None
        n_true += want
        ck.extra["line_predicate_checks_iosxr"] = ck.extra.get("line_predicate_checks_iosxr", 0) + 1
        if (o.strip() == "1") != want:
            ck.disagree("iosxrP (Lean line predicate) vs the IOS-XR class pattern in CPython re", {"line": ln.decode("latin1")}, f"model={o.strip()} re={want}")
    ck.extra["line_predicate_accepting_lines_iosxr"] = n_true
    # and for Arista EOS (`eosP`, ScrapliProps/C01PlatformEOS.lean): host class with parentheses and blanks, mode class {0,63}
    ce = re.compile(C.EOSDriver(host="h").comms_prompt_pattern.encode(), re.M | re.I)
    alpha_e = b"abzAZ09_.-@/:+>#()configCONFIG \t\r\x0b\x0c!"
    base_e = [b"leaf1>", b"leaf1> ", b"leaf1#", b"leaf1# ", b"leaf1(config)#", b"leaf1 (s1)(config-if-Et1)# ", b"leaf1(CONFIG-s-abc)#", b"l(confi)#", b"l(config" + b"m" * 63 + b")#",
              b"l(config" + b"m" * 64 + b")#", b"a" * 63 + b">", b"a" * 64 + b">", b"a" * 54 + b"(config)#", b"a" * 55 + b"(config)#", b"#", b"> ", b"l#  ", b"l>\t", b"l#\x0c", b"l(x)#", b"l (x) #",
              b"l(config+x)#", b"l(config(x))#", b"l(config)##", b"l# #", b"(config)#", b"l>#", b"l+#", b""]
    lines_e = list(base_e)
    for _ in range(1500 if tier == "quick" else 20000):
        ln = bytearray(rng.choice(base_e))
        for _ in range(rng.randint(0, 3)):
            k = rng.random()
            if k < 0.4 and ln:
                ln[rng.randrange(len(ln))] = rng.choice(alpha_e)
            elif k < 0.7:
                ln.insert(rng.randint(0, len(ln)), rng.choice(alpha_e))
            elif ln:
                del ln[rng.randrange(len(ln))]
        if b"\n" not in ln:
            lines_e.append(bytes(ln))
    try:
        outs = run_model("C01", [f"linep eos {hexs(ln)}" for ln in lines_e], native=True)
    except Exception as e:
        ck.proof_broken("model driver Drv/C01.lean (linep eos)", repr(e))
        return
    n_true = 0
    for ln, o in zip(lines_e, outs):
        want = ce.search(ln) is not None
        n_true += want
        ck.extra["line_predicate_checks_eos"] = ck.extra.get("line_predicate_checks_eos", 0) + 1
        if (o.strip() == "1") != want:
            ck.disagree("eosP (Lean line predicate) vs the EOS class pattern in CPython re", {"line": ln.decode("latin1")}, f"model={o.strip()} re={want}")
    ck.extra["line_predicate_accepting_lines_eos"] = n_true
    # and for Cisco NX-OS (`nxosP`, ScrapliProps/C01PlatformNX.lean): optional (maint-mode), tcl alternatives, bare '>'
    cn = re.compile(C.NXOSDriver(host="h").comms_prompt_pattern.encode(), re.M | re.I)
    alpha_n = b"abzAZ09_.-@/:+>#()configmaintodelCONFIGMAINT \t\r\x0b\x0c!"
    base_n = [b"n9k>", b"n9k> ", b"n9k#", b"n9k# ", b"n9k(config)#", b"n9k(config-if)# ", b"n9k(maint-mode)#", b"n9k(MAINT-MODE)>", b"n9k(maint-mode)(config-if)#", b"n9k-tcl#", b"n9k(config-tcl)#",
              b">", b"> ", b"n9k(maint-mode-tcl)#", b"n9k(maint-mode)(config-tcl)#", b"n9k(maint-mode)(maint-mode)#", b"n9k(maint-mod)#", b"(maint-mode)#", b"n9k(confi)#", b"n(config" + b"m" * 32 + b")#",
              b"n(config" + b"m" * 33 + b")#", b"a" * 63 + b"#", b"a" * 64 + b"#", b"a" * 63 + b"-tcl#", b"a" * 64 + b"-tcl#", b"a" * 63 + b"(maint-mode)#", b"a" * 64 + b"(maint-mode)>", b"#", b"# ",
              b"n#  ", b"n>\t", b"n@x#", b"n(x)#", b"n(config)(maint-mode)#", b"n(config)##", b"n# #", b"n9k(maint-mode-tcl)>", b""]
    lines_n = list(base_n)
    for _ in range(2000 if tier == "quick" else 25000):
        ln = bytearray(rng.choice(base_n))
        for _ in range(rng.randint(0, 3)):
            k = rng.random()
            if k < 0.4 and ln:
                ln[rng.randrange(len(ln))] = rng.choice(alpha_n)
            elif k < 0.7:
                ln.insert(rng.randint(0, len(ln)), rng.choice(alpha_n))
            elif ln:
                del ln[rng.randrange(len(ln))]
        if b"\n" not in ln:
            lines_n.append(bytes(ln))
    try:
        outs = run_model("C01", [f"linep nxos {hexs(ln)}" for ln in lines_n], native=True)
    except Exception as e:
        ck.proof_broken("model driver Drv/C01.lean (linep nxos)", repr(e))
        return
    n_true = 0
    for ln, o in zip(lines_n, outs):
        want = cn.search(ln) is not None
        n_true += want
        ck.extra["line_predicate_checks_nxos"] = ck.extra.get("line_predicate_checks_nxos", 0) + 1
        if (o.strip() == "1") != want:
            ck.disagree("nxosP (Lean line predicate) vs the NX-OS class pattern in CPython re", {"line": ln.decode("latin1")}, f"model={o.strip()} re={want}")
    ck.extra["line_predicate_accepting_lines_nxos"] = n_true
    # and for Juniper Junos (`junosP`, ScrapliProps/C01PlatformJunos.lean): terminators > # % $, shell / root-shell alternatives
    cj = re.compile(C.JunosDriver(host="h").comms_prompt_pattern.encode(), re.M | re.I)
    alpha_j = b"abzAZ09_.-@/:+>#%$()rootROOT~ \t\r\x0b\x0c!{}[]"
    base_j = [b"admin@vmx1>", b"admin@vmx1> ", b"admin@vmx1#", b"admin@vmx1# ", b"%", b"% ", b"$", b"admin@vmx1:~ %", b"root@vmx1:~ # ", b"root@vmx1:~ #", b"root@%", b"ROOT@host:/var/tmp #", b"xroot@a b#",
              b"root@a b #", b"root@a  #", b"root@#", b"root#", b"a" * 63 + b">", b"a" * 64 + b">", b"a" * 64 + b"#", b"{master:0}", b"{master:0}[edit]", b"[edit]", b"ab cd%", b"ab cd>", b"ab>cd", b"x>  ",
              b"x#\t", b"x$\x0c", b"x%  ", b"root@h:~ # x", b"root@h#x#", b"root@ab root@c d#", b"a.b-c/d:e(f)@g>", b"a+b>", b""]
    lines_j = list(base_j)
    for _ in range(2000 if tier == "quick" else 25000):
        ln = bytearray(rng.choice(base_j))
        for _ in range(rng.randint(0, 3)):
            k = rng.random()
            if k < 0.4 and ln:
                ln[rng.randrange(len(ln))] = rng.choice(alpha_j)
            elif k < 0.7:
                ln.insert(rng.randint(0, len(ln)), rng.choice(alpha_j))
            elif ln:
                del ln[rng.randrange(len(ln))]
        if b"\n" not in ln:
            lines_j.append(bytes(ln))
    try:
        outs = run_model("C01", [f"linep junos {hexs(ln)}" for ln in lines_j], native=True)
    except Exception as e:
        ck.proof_broken("model driver Drv/C01.lean (linep junos)", repr(e))
        return
    n_true = 0
    for ln, o in zip(lines_j, outs):
        want = cj.search(ln) is not None
        n_true += want
        ck.extra["line_predicate_checks_junos"] = ck.extra.get("line_predicate_checks_junos", 0) + 1
        if (o.strip() == "1") != want:
            ck.disagree("junosP (Lean line predicate) vs the Junos class pattern in CPython re", {"line": ln.decode("latin1")}, f"model={o.strip()} re={want}")
    ck.extra["line_predicate_accepting_lines_junos"] = n_true


def run(tier, seed):
    ck = Check(PID, tier, seed, level="proof")
    ck.rule = ("scenario = driver (Generic + 5 core platforms) x stack (sync/asyncio) x hostname from the platform grammar (length 1..max) x "
               "device newline (LF, CRLF, CRCRLF) x return char (LF/CRLF) x search depth (1000/100/200) x 1-5 operations (get_prompt, send_command "
               "strip on/off, send_commands, send_interactive) x outputs sized 0 / around depth / 2*depth / 5*depth incl. single lines longer "
               "than the window, blank lines and trailing blanks, over an alphabet without prompt terminators x read cuts (whole, 1-byte, fixed k, "
               "random). Non-trivial = at least one command with non-empty output; distinct by full scenario. Every channel-level call of the "
               "real run is replayed on the Lean model; oracle = device log normalised in Python.")
    ck.trusted = ["Lean 4.33.0 kernel; axioms audited", "tools/gen/c01.py (depth, return char, ANSI pattern text)",
                  "tools/rx2lean.py + ScrapliModel/Channel/Rx.lean: executable model of the used fragment of CPython re (validated against re every run)",
                  "harness: tools/harness/simdevice.py (causal device = environment assumption), simtransport.py, chanscen.py"]
    ck.assumptions = ["device is causal: echoes typed bytes, answers only after the return, prints output then prompt",
                      "outputs contain no line segment that the prompt pattern matches (the property's quantifier); prompts have no proper prefix matching it",
                      "CPython re / bytes methods are modelled, not verified"]
    try:
        translate.translate(PID)
    except Exception as e:
        ck.proof_broken("translator gen/c01.py", repr(e))
    ck.prove("ScrapliProps.C01", lemma_files=["ScrapliProps/C01Lemmas.lean", "ScrapliProps/C01Interact.lean", "ScrapliProps/C01Platform.lean", "ScrapliModel/Channel/Chan.lean",
                                                "ScrapliModel/Channel/Basic.lean", "ScrapliModel/Channel/Ansi.lean"])
    if tier == "thorough":
        ck.leanchecker("ScrapliProps.C01")
    for f in ck.findings:
        if f["id"] == "F23" and f.get("witness"):
            wsc = Scenario.from_dict(f["witness"])
            wp = oracle(wsc, run_real(wsc))
            ck.case(("witness", "F23"), nontrivial=True, tags=("finding-witness",))
            if f.get("status") == "open" and wp and all(p == "F23" for p in wp):
                ck.known_finding("F23", f["what"])
            elif wp:
                # an open finding that fails differently, or a fixed one that is back: a violation like any other
                what = ("interactive result starts with the blanks the previous operation left unread (F23, repaired by 4c94c83, is back)"
                        if all(p == "F23" for p in wp) else "stored witness of F23 fails: " + wp[0])
                ck.violation({"scenario": wsc.describe(), "problems": wp[:5]}, what)
    validate_regex_hypotheses(ck, tier)
    line_predicate_differential(ck, tier)
    scenarios = []
    corpus = VERIF / "corpus" / "C01" / "corpus.json"
    if corpus.exists():
        for c in json.load(open(corpus)):
            c.pop("note", None)
            scenarios.append(Scenario.from_dict(c))
    n = 2000 if tier == "quick" else 20000
    for _ in range(n):
        scenarios.append(gen_scenario(ck.rng, tier))
    reqs, idx = [], []
    env_reqs = []
    results = []
    for i, sc in enumerate(scenarios):
        res = run_real(sc)
        results.append(res)
        nontriv = any(v for v in sc.outputs.values())
        ck.case(json.dumps(sc.describe(), sort_keys=True, default=str), nontrivial=nontriv, sample=sc.describe() if len(json.dumps(sc.describe(), default=str)) < 1500 else None,
                tags=(sc.platform, sc.stack, "cuts=" + ("whole" if not sc.cuts else "1byte" if set(sc.cuts) == {1} else "fixed" if len(set(sc.cuts)) == 1 else "random"),
                      f"depth={sc.depth or 1000}", "nl=" + sc.nl.hex(), *(("abandoned-op",) if any(o[0] == "abandon" for o in sc.ops) else ()), *(("reopen",) if any(o[0] == "reopen" for o in sc.ops) else ()), *(("pattern-changed",) if any(o[0] == "set_pattern" for o in sc.ops) else ()), *(("commandeer",) if sc.commandeer else ()), "maxout=" + _bucket(max([len(v) for v in sc.outputs.values()] + [0]), sc.depth or 1000)))
        probs = oracle(sc, res)
        if probs:
            ck.violation({"scenario": sc.describe(), "problems": probs[:5]}, "; ".join(probs[:2]), matcher)
        req = model_request(sc, res)
        if req is not None:
            reqs.append(req)
            idx.append(i)
        ereq = env_request(sc, res)
        if ereq is not None:
            env_reqs.append((ereq, hexl(res.dev_outputs), sc.describe()))
    try:
        outs = run_model("C01", reqs, native=True) if reqs else []
    except Exception as e:
        ck.proof_broken("model driver Drv/C01.lean", repr(e))
        outs = []
    for i, out in zip(idx, outs):
        want = real_reply(results[i])
        if "stall" in want or "stall" in out or "exc:" in want:      # compare only up to the operation that did not complete
            out, want = out.split(" W=")[0], want.split(" W=")[0]
        if out == want:
            ck.traces_validated += 1
        else:
            ck.disagree("channel model vs real channel (trace refinement)", scenarios[i].describe(), f"model={out[:400]} real={want[:400]}")
    ck.extra["scenarios_without_model_request"] = len(scenarios) - len(reqs)
    ck.extra["model_replays_with_driver_level_send_commands"] = sum(1 for q in reqs if re.search(r"(^|;| )sc:", q))
    ck.extra["model_replays_send_commands_stop_on_failed"] = sum(1 for q in reqs if re.search(r"(^|;| )sc:[01]1:", q))
    # the environment of the theorems (LineDev.onWrite) against the test device (simdevice.CliDevice): same writes, same output per write
    try:
        eouts = run_model("C01", [e[0] for e in env_reqs], native=True) if env_reqs else []
    except Exception as e:
        ck.proof_broken("model driver Drv/C01.lean (dev)", repr(e))
        eouts = []
    for (req, want, desc), out in zip(env_reqs, eouts):
        if out.strip() == want:
            ck.extra["environment_traces_agreeing"] = ck.extra.get("environment_traces_agreeing", 0) + 1
        else:
            ck.disagree("LineDev.onWrite (the theorems' device) vs simdevice.CliDevice (the test device)", desc, f"model={out.strip()[:300]} device={want[:300]}")
    ck.extra["environment_traces_compared"] = len(env_reqs)
    return ck.finish()


def _bucket(n, depth):
    if n == 0:
        return "0"
    if n < depth - 2:
        return "<d"
    if n <= depth + 2:
        return "~d"
    if n <= 2 * depth + 2:
        return "~2d"
    return ">2d"


def replay(path):
    r = json.load(open(path))
    d = r.get("violation", {}).get("case", {}).get("scenario")
    if not d:
        print("replay file carries no scenario (broken proof/correspondence): see its no_longer_checks field")
        return 1
    sc = Scenario.from_dict(d)
    res = run_real(sc)
    probs = oracle(sc, res)
    print("\n".join(probs) or "property holds on this scenario")
    return 1 if probs else 0
