"""C20 — channel log and scrapli log file record the session faithfully.
Lean: ScrapliModel/Log.lean (+ Gen/LogConsts.lean), ScrapliProps/C20.lean, driver Drv/C20.lean.
Real code: ScrapliFormatter / ScrapliFileHandler / logging.FileHandler fed record sequences in-process
(directly built LogRecords, the real LoggerAdapter of get_instance_logger, enable_basic_logging around real
driver sessions) and Channel / AsyncChannel over tools/harness SimTransport with every channel_log sink.

The model has one flag per C20 fix (fixes/C20-*.patch, in /repo as 58f1a8a / 93127cf / f3dbcd6).  The flags in
effect are *measured* each run by replaying the three stored witnesses (corpus/C20) on the real classes, so that
the correspondence is strict on a tree with or without a fix; the oracle is the property itself and is the same
on every tree — a violation is attributed to a finding only while that finding is "open" in findings/C20.json /
known_findings.json AND the case satisfies its narrow predicate (all three are "fixed": nothing is suppressed)."""
import asyncio, contextlib, io, itertools, json, logging, os, re, shutil, sys, tempfile
from pathlib import Path

from vlib.common import VERIF, Check, hexs, run_model
import translate

PID = "C20"
LEMMAS = ["ScrapliProps/C20Lemmas.lean", "ScrapliProps/C20Repr.lean", "ScrapliProps/C20ApiLemmas.lean", "ScrapliModel/Log.lean",
          "ScrapliModel/LogApi.lean", "ScrapliModel/LogTypes.lean"]

# ---------------------------------------------------------------- the property, stated independently (oracle)
READ = "read: "            # a "read message" is one whose text starts like this
COALESCED = "read : "      # the coalesced entry


def o_message(r):
    """text of a record (CPython's own %-operator on the real argument objects)"""
    args = tuple(decode_arg(a) for a in r["args"])
    return r["msg"] % args if args else r["msg"]


def o_wf(r):
    try:
        o_message(r)
        return True
    except Exception:
        return False


def o_target(r):
    t = ""
    if r.get("uid") is not None:
        t += r["uid"] + ":"
    if r.get("host") is not None:
        t += r["host"]
        if r.get("port") is not None:
            t += ":" + r["port"]
    return t if len(t) <= 25 else t[:22] + "..."


def _cut20(s):
    return s if len(s) <= 20 else s[:17] + "..."


def o_entries(recs, buffered):
    """(record that supplies the columns, text): maximal runs of read messages become ONE entry whose payload
    is the concatenation of the payloads"""
    out, i = [], 0
    while i < len(recs):
        r = recs[i]
        if buffered and r["msg"].startswith(READ):
            j, payload = i, ""
            while j < len(recs) and recs[j]["msg"].startswith(READ):
                payload += o_message(recs[j])[len(READ):]
                j += 1
            out.append((r, COALESCED + repr(payload.encode())))
            i = j
        else:
            out.append((r, o_message(r)))
            i += 1
    return out


def o_file(recs, buffered, caller, header=True, first_id=1):
    lines = []
    for n, (r, text) in enumerate(o_entries(recs, buffered), first_id):
        tgt = o_target(r)
        cols = [f"{n:<5}", r["asctime"], f"{r['level']:<8}", f"{tgt:<25}"]
        hdr = ["ID   ", "TIMESTAMP".ljust(23), "LEVEL   ", "(UID:)HOST:PORT".ljust(len(tgt)).ljust(25)]
        if caller:
            cols += [f"{_cut20(r['module']):<20}", f"{_cut20(r['func']):<20}", f"{r['lineno']:<5}"]
            hdr += ["MODULE".ljust(20), "FUNCNAME".ljust(20), "LINE "]
        if n == 1 and header:
            lines.append(" | ".join(hdr + ["MESSAGE"]))
        lines.append(" | ".join(cols + [text]))
    return "".join(l + "\n" for l in lines)


# ---------------------------------------------------------------- records <-> real LogRecords <-> model lines
class _Obj:
    """stands for an argument object of which only the two renderings matter"""

    def __init__(self, r, s):
        self.r, self.s = r, s

    def __repr__(self):
        return self.r

    def __str__(self):
        return self.s


def decode_arg(a):
    k, v = a[0], a[1]
    if k == "b":
        return bytes.fromhex(v)
    if k == "s":
        return v
    if k == "o":
        return _Obj(v, a[2])
    return json.loads(v)   # "j": int / float / bool / None


def encode_arg(o):
    if isinstance(o, (bytes, bytearray)):
        return ["b", bytes(o).hex()]
    if isinstance(o, str):
        return ["s", o]
    if o is None or isinstance(o, (bool, int)) or (isinstance(o, float) and o == o and abs(o) < 1e15):
        return ["j", json.dumps(o)]
    return ["o", repr(o), str(o)]


LEVELS = {"DEBUG": 10, "INFO": 20, "WARNING": 30, "ERROR": 40, "CRITICAL": 50}


def mk_record(r):
    args = tuple(decode_arg(a) for a in r["args"]) or None
    rec = logging.LogRecord(r.get("name", "scrapli.test"), LEVELS[r["level"]], r["module"] + ".py", r["lineno"], r["msg"], args, None,
                            func=r["func"])
    rec.module = r["module"]     # (LogRecord derives it from the path; "" would become ".py")
    for k in ("host", "port", "uid"):
        if r.get(k) is not None:
            setattr(rec, k, r[k])
    return rec


_STD = logging.Formatter()


def snapshot(record):
    """our record dict from a real LogRecord (used for records the real code created)"""
    args = record.args if isinstance(record.args, tuple) else ((record.args,) if record.args else ())
    return {"msg": record.msg, "args": [encode_arg(a) for a in args], "level": record.levelname,
            "module": record.module, "func": record.funcName, "lineno": record.lineno, "name": record.name,
            "host": record.__dict__.get("host"), "port": record.__dict__.get("port"), "uid": record.__dict__.get("uid"),
            "asctime": _STD.formatTime(record)}


def es(s):
    return hexs(s.encode("utf-8"))


def eo(s):
    return "~" if s is None else es(s)


def m_args(args):
    if not args:
        return "."
    out = []
    for a in args:
        o = decode_arg(a)
        out.append(f"{es(repr(o))}/{es(str(o))}")
    return "+".join(out)


def m_rec(r):
    return ",".join([es(r["msg"]), es(r["level"]), es(r["asctime"]), es(r["module"]), es(r["func"]), str(r["lineno"]),
                     eo(r.get("host")), eo(r.get("port")), eo(r.get("uid")), m_args(r["args"])])


def m_recs(recs):
    return ";".join(m_rec(r) for r in recs) if recs else "."


def vbits(v, ascii_stream=False):
    """lazyAware flushOnClose portDefault asciiStream (the last one: the log file cannot encode non-ASCII text)"""
    return "".join("1" if v[k] else "0" for k in ("lazy", "flush", "port")) + ("1" if ascii_stream else "0")


def err_offsets(field):
    """the error list of a reply with the exception class names removed: which exception logging reports is
    incidental, where (after how many bytes of output) it happens is not"""
    return re.sub(r"[A-Za-z]+@", "@", field)


def unhex_str(h):
    return b"" if h == "-" else bytes.fromhex(h)


# ---------------------------------------------------------------- running the real handler / formatter
class Work:
    """a private temp directory (removed at the end)"""

    def __init__(self):
        self.dir = Path(tempfile.mkdtemp(prefix="verif-c20-"))
        self.n = 0

    def path(self, name="log"):
        self.n += 1
        return str(self.dir / f"{name}{self.n % 7}.log")

    def cleanup(self):
        shutil.rmtree(self.dir, ignore_errors=True)


_PROBES = {}


def _probe(base):
    if base in _PROBES:
        return _PROBES[base]

    class Probe(base):
        """the handler under test; only the error report is redirected (logging's documented hook)"""

        def handleError(self, record):
            et = sys.exc_info()[0]
            try:
                if self.stream:
                    self.stream.flush()
                off = os.path.getsize(self.baseFilename) - self._c20_start
            except Exception:
                off = -1
            self._c20_errors.append(f"{et.__name__ if et else 'None'}@{off}")
    _PROBES[base] = Probe
    return Probe


def run_handler(case, work, stderr_mode=False):
    """feed the record sequence to the real handler + formatter pair; returns observables"""
    from scrapli.logging import ScrapliFileHandler, ScrapliFormatter
    path = work.path()
    old = case.get("old", "")
    append = case.get("append", False)
    with open(path, "w", encoding="utf-8") as f:
        f.write(old)
    base = ScrapliFileHandler if case["buffered"] else logging.FileHandler
    cls = base if stderr_mode else _probe(base)
    h = cls(path, mode="a" if append else "w", encoding="utf-8")   # the locale's default is the subject of run_locale only
    h._c20_errors = []
    h._c20_start = len(old.encode()) if append else 0
    h.setFormatter(ScrapliFormatter(log_header=case.get("header", True), caller_info=case["caller"]))
    recs, raised = [], None
    err = io.StringIO()
    with contextlib.redirect_stderr(err):
        try:
            for r in case["recs"]:
                rec = mk_record(r)
                r["asctime"] = _STD.formatTime(rec)
                recs.append(r)
                h.handle(rec)
        except Exception as e:  # an exception reaching the code that logs
            raised = f"{type(e).__name__}: {e}"
        finally:
            try:
                h.close()
            except Exception as e:
                raised = raised or f"close: {type(e).__name__}: {e}"
    data = open(path, "rb").read()
    errors = list(h._c20_errors)
    if stderr_mode:
        errors = ["stderr"] * err.getvalue().count("--- Logging error ---")
    return {"file": data, "errors": errors, "raised": raised, "stderr": err.getvalue() if stderr_mode else ""}


def judge_handler(case, res):
    """oracle on one real run: list of problems (empty = property holds)"""
    probs = []
    want = (case.get("old", "") if case.get("append") else "") + o_file(case["recs"], case["buffered"], case["caller"], case.get("header", True))
    if res["raised"]:
        probs.append(f"exception reached the logging caller: {res['raised']}")
    if res["errors"]:
        probs.append(f"logging reported formatting errors: {res['errors'][:3]}")
    if res["file"] != want.encode("utf-8"):
        probs.append("log file differs from the rendered record sequence (lost / reordered / altered message)")
    return probs, want


def run_formatter(case):
    """format the records one after the other with one real ScrapliFormatter; per record text or exception"""
    from scrapli.logging import ScrapliFormatter
    f = ScrapliFormatter(log_header=case.get("header", True), caller_info=case["caller"])
    out = []
    for r in case["recs"]:
        rec = mk_record(r)
        r["asctime"] = _STD.formatTime(rec)
        try:
            out.append(("ok", f.format(rec)))
        except Exception as e:
            out.append(("err", type(e).__name__))
    return out


# ---------------------------------------------------------------- log file encoding: a child process in the C locale
LOCALE_ENV = {"LC_ALL": "C", "LANG": "C", "PYTHONCOERCECLOCALE": "0", "PYTHONUTF8": "0"}


def _locale_child():
    """runs in the child: enable_basic_logging (the code that chooses the file's encoding) + the records of each case"""
    import locale
    from scrapli.logging import enable_basic_logging
    cases = json.load(sys.stdin)
    out = {"encoding": locale.getpreferredencoding(False), "results": []}
    work = Work()
    lg = logging.getLogger("scrapli")
    try:
        for case in cases:
            path = work.path("loc")
            old = case.get("old", "")
            with open(path, "w", encoding="utf-8") as f:
                f.write(old)
            before = list(lg.handlers)
            enable_basic_logging(file=path, level="debug", caller_info=case["caller"], buffer_log=case["buffered"],
                                 mode="append" if case.get("append") else "write")
            h = [x for x in lg.handlers if x not in before][0]
            errors, start = [], (len(old.encode()) if case.get("append") else 0)

            def on_error(record, h=h, errors=errors, start=start):
                et = sys.exc_info()[0]
                h.stream.flush()
                errors.append(f"{et.__name__ if et else 'None'}@{os.path.getsize(h.baseFilename) - start}")
            h.handleError = on_error
            raised = None
            try:
                for r in case["recs"]:
                    rec = mk_record(r)
                    r["asctime"] = _STD.formatTime(rec)
                    h.handle(rec)
            except Exception as e:
                raised = f"{type(e).__name__}: {e}"
            h.close()
            lg.removeHandler(h)
            out["results"].append({"file": open(path, "rb").read().hex(), "errors": errors, "raised": raised, "recs": case["recs"],
                                   "stream_encoding": getattr(h, "encoding", None)})
    finally:
        work.cleanup()
    sys.stdout.write(json.dumps(out))


def run_locale(cases):
    """the cases through enable_basic_logging in a child process whose locale encoding is not UTF-8"""
    import subprocess
    tools = str(Path(__file__).resolve().parents[1])
    code = (f"import sys; sys.path.insert(0, {tools!r}); from vlib import common; common.use_repo(); "
            "import props.c20 as m; m._locale_child()")
    env = {**os.environ, **LOCALE_ENV}
    p = subprocess.run([sys.executable, "-c", code], input=json.dumps(cases), capture_output=True, text=True, env=env, timeout=300)
    if p.returncode != 0:
        raise RuntimeError(f"locale child failed rc={p.returncode}: {p.stderr[-1500:]}")
    return json.loads(p.stdout)


def locale_cases():
    e = {"host": "sim", "port": "22", "uid": None}
    mk = lambda recs, buffered, **kw: {"kind": "handler", "via": "locale-C", "buffered": buffered, "caller": kw.get("caller", False),
                                       "append": kw.get("append", False), "old": kw.get("old", ""), "recs": recs}
    cafe = "description caf\u00e9 \u2713\n"
    return [mk([rec("ascii only", (), "INFO", **e), rec("write: %r", ("show version\n",), **e), rec("read: %r", (b"caf\xc3\xa9",), **e)], True),
            mk([rec("start", (), "INFO", **e), rec("write: %r", (cafe,), **e), rec("read: %r", (b"ok",), **e), rec("done", (), "INFO", **e)], True),
            mk([rec("write: %r", (cafe,), **e), rec("second", (), "INFO", **e)], False),                      # header row lost with it
            mk([rec("read: %s", ("caf\u00e9",), **e), rec("read: %r", (b"x",), **e), rec("after", (), "INFO", **e)], True, caller=True),
            mk([rec("plain", (), "INFO", host="caf\u00e9", port="22")], False, append=True, old="old\n"),
            mk([rec("a", (), "INFO", **e), rec("b \u2713", (), "INFO", **e), rec("c", (), "INFO", **e)], True)]


def needs_non_ascii(case):
    """predicate of C20-ENC: the case ran under a non-UTF-8 locale and a line of its rendering has a non-ASCII character"""
    try:
        return case.get("via") == "locale-C" and not o_file(case["recs"], case["buffered"], case["caller"]).isascii()
    except Exception:
        return False


# ---------------------------------------------------------------- findings
def is_read(r):
    return r["msg"].startswith(READ)


def predicates(case):
    """ids of the findings whose narrow predicate the case satisfies"""
    recs = case.get("recs") or []
    ids = []
    if needs_non_ascii(case):
        ids.append("C20-ENC")
    if any(r.get("host") is not None and r.get("port") is None for r in recs):
        ids.append("F4")
    if case.get("buffered") and any(is_read(r) and r["args"] for r in recs):
        ids.append("F2")
    if case.get("buffered") and recs and is_read(recs[-1]):
        ids.append("F3")
    return ids


def load_own_findings(ck):
    """findings/C20.json is the source the lead merges into known_findings.json (tools/mergefindings.py); its entries
    replace merged copies of the same id so that a status change here is in effect before the next merge.
    Only status "open" entries can suppress anything; F2/F3/F4 are "fixed"."""
    f = VERIF / "findings" / "C20.json"
    if not f.exists():
        return
    own = json.load(open(f))
    ids = {x["id"] for x in own}
    ck.findings = [x for x in ck.findings if x["id"] not in ids] + [x for x in own if x["property"] == PID]


# ---------------------------------------------------------------- generators
PAYLOADS = [b"a", b"", b"it's", b'say "hi"', b"it's \"q\"", b"100%", b"%r%s%%", b"\xff\xfe\x00", b"r1#\n", b"caf\xc3\xa9", b"\\x41\\",
            b"\x1b[0m", b"read: ", b"x" * 40, b"%(a)s", b"\t\r\n", b"\x7f\x80", b"'", b'"']
TEXTS = ["done", "", "sending channel input: show version; strip_prompt: True; eager: False", "100% sure", "%r", "café ✓",
         "write: REDACTED", "read:no-blank", "Read: upper", " read: lead", "opening connection to 'h' on port '22'", "a\nb", "read"]
HOSTS = [None, "h", "router1.example.net", "10.0.0.1", "2001:db8::1", "h" * 30, "", "café"]
PORTS = [None, "22", "2222", "", "65535"]
UIDS = [None, "u1", "", "session-" + "x" * 20]
MODS = ["m", "sync_channel", "a" * 20, "b" * 21, "c" * 17, "é" * 25]


def extras_full(rng):
    return {"host": rng.choice(HOSTS), "port": rng.choice(PORTS), "uid": rng.choice(UIDS)}


def extras_subset(mask, host="dev1", port="22", uid="u"):
    return {"host": host if mask & 1 else None, "port": port if mask & 2 else None, "uid": uid if mask & 4 else None}


def rec(msg, args=(), level="DEBUG", module="m", func="f", lineno=1, **ex):
    return {"msg": msg, "args": [encode_arg(a) for a in args], "level": level, "module": module, "func": func, "lineno": lineno,
            "host": ex.get("host"), "port": ex.get("port"), "uid": ex.get("uid")}


KINDS = ("Rl", "Rl2", "Re", "W", "I", "Il")


def kind_rec(kind, i, ex):
    """the small alphabet used for exhaustive enumeration"""
    if kind == "Rl":
        return rec("read: %r", (bytes([97 + i % 3]) * (1 + i % 2),), **ex)
    if kind == "Rl2":
        return rec("read: %r", (b"it's 5%\xff",), **ex)
    if kind == "Re":
        return rec(f"read: {bytes([65 + i % 3])!r}", (), **ex)
    if kind == "W":
        return rec("write: %r", ("show run\n",), **ex)
    if kind == "I":
        return rec("done 100%", (), level="INFO", **ex)
    return rec("sending channel input: %s; strip_prompt: %s", ("show version", True), level="INFO", **ex)


def gen_random(rng, tier):
    n = rng.choice([0, 1, 2, 3, 4, 5, 6, 8, 12, 20] if tier == "quick" else [0, 1, 2, 3, 5, 8, 13, 21, 40])
    same_ex = extras_full(rng) if rng.random() < 0.6 else None
    legal = rng.random() < 0.5      # extras as get_instance_logger builds them (host and port together)
    recs = []
    p_read = rng.choice([0.2, 0.5, 0.8, 0.95])
    for _ in range(n):
        ex = dict(same_ex) if same_ex else extras_full(rng)
        if legal and (ex["host"] is None) != (ex["port"] is None):
            ex["host"] = ex["port"] = None
        x = rng.random()
        mod, fn, ln = rng.choice(MODS), rng.choice(MODS), rng.choice([0, 1, 74, 99999, 123456])
        lvl = rng.choice(list(LEVELS))
        if x < p_read:
            pl = rng.choice(PAYLOADS) if rng.random() < 0.7 else bytes(rng.randrange(256) for _ in range(rng.randint(0, 12)))
            y = rng.random()
            if y < 0.6:
                r = rec("read: %r", (pl,), lvl, mod, fn, ln, **ex)
            elif y < 0.8:
                r = rec(f"read: {pl!r}", (), lvl, mod, fn, ln, **ex)
            elif y < 0.9:
                r = rec("read: %s", (pl.decode("latin-1"),), lvl, mod, fn, ln, **ex)
            else:
                r = rec("read: " + rng.choice(TEXTS), (), lvl, mod, fn, ln, **ex)
        else:
            y = rng.random()
            if y < 0.3:
                r = rec("write: %r", (rng.choice(TEXTS),), lvl, mod, fn, ln, **ex)
            elif y < 0.5:
                r = rec("%s and %r; 100%% (%s)", (rng.choice(TEXTS), rng.choice(PAYLOADS), rng.choice([1, 2.5, True, None])), lvl, mod, fn, ln, **ex)
            else:
                r = rec(rng.choice(TEXTS), (), lvl, mod, fn, ln, **ex)
        recs.append(r)
    append = rng.random() < 0.3
    return {"kind": "handler", "buffered": rng.random() < 0.7, "caller": rng.random() < 0.3, "append": append,
            "old": rng.choice(["", "old line\n", "no newline", "café\n"]) if (append or rng.random() < 0.2) else "", "recs": recs}


BIG_TOTALS = (255, 256, 257, 4095, 4096, 4097, 32767, 32768, 32769, 65535, 65536, 65537, 131071, 131072, 131073)


def _split_sizes(rng, total, parts):
    """`parts` positive sizes adding up to `total`"""
    parts = max(1, min(parts, total))
    cuts = sorted(rng.sample(range(1, total), parts - 1)) if parts > 1 else []
    return [b - a for a, b in zip([0] + cuts, cuts + [total])]


def gen_big(rng, tier):
    """LONG runs of consecutive read records and LARGE payloads: totals of rendered payload bytes at and around powers of two
    (…, 65535 / 65536 / 65537, 2 x 65536 ± 1), as one huge read, two reads meeting at the boundary, many equal reads
    (300 x 1000, 5 x 65535) or a random split; the run is ended by close(), by a non-read record, or followed by another run.
    Eager records carry the payload text itself (the rendered size IS the size given); lazy ones carry bytes rendered by %r."""
    ex = {"host": "sim", "port": "22", "uid": None}
    out = []

    def eager(n, i):
        body = (f"<{i}>" + "x" * n)[:n] if n >= 8 else "y" * n
        return rec("read: " + body, (), **ex)

    def lazy(n, i):        # repr adds b'' (3 characters)
        body = (f"<{i}>".encode() + bytes([97 + i % 26]) * n)[:max(n - 3, 0)]
        return rec("read: %r", (body,), **ex)

    def case(sizes, tail, mk=eager, buffered=True, pre=True):
        recs = ([rec("start", (), level="INFO", **ex)] if pre else []) + [mk(n, i) for i, n in enumerate(sizes)]
        if tail == "info":
            recs.append(rec("after the run", (), level="INFO", **ex))
        elif tail == "write+run":
            recs += [rec("write: %r", ("show tech\n",), **ex), eager(300, 901), eager(300, 902)]
        return {"kind": "handler", "big": True, "buffered": buffered, "caller": False, "append": False, "old": "", "recs": recs}

    fixed = [([1000] * 300, "close"), ([65535] * 5, "info"), ([65535, 1], "close"), ([65535, 1, 1], "info"), ([1, 65535], "write+run"),
             ([65536], "close"), ([32768, 32768, 7], "close"), ([256] * 257, "info")]
    pick = fixed if tier != "quick" else [fixed[0], fixed[1]] + rng.sample(fixed[2:], 3)
    for sizes, tail in pick:
        out.append(case(sizes, tail, mk=rng.choice([eager, eager, lazy])))
    for total in (BIG_TOTALS if tier != "quick" else rng.sample(BIG_TOTALS[:9], 2) + rng.sample(BIG_TOTALS[9:], 3)):
        sizes = _split_sizes(rng, total, rng.choice([2, 2, 3, 17, 256]))
        out.append(case(sizes, rng.choice(["close", "info", "write+run"]), mk=rng.choice([eager, lazy]), pre=rng.random() < 0.5))
    out.append(case([70000, 5], "close", buffered=False))
    return out


def gen_malformed(rng, foreign):
    """records outside the property's domain: advisory only.  foreign=False: arity mismatches and incomplete
    directives (the model's %-fragment covers them); foreign=True: directives CPython knows and the model does not"""
    c = gen_random(rng, "quick")
    if foreign:
        bad = [rec("x %d", (3,)), rec("read: %5r", (b"a",)), rec("%(a)s", ("a",)), rec("read: %-4s|", ("a",)), rec("%x", (255,))]
    else:
        bad = [rec("read: %r %r", (b"a",)), rec("read: %r", (b"a", b"b")), rec("x %", ("a",)), rec("read: 100%", (b"a",)),
               rec("%s", ()), rec("plain", ("a",)), rec("read: %r", ())]   # the last two: no directive / no args
    for _ in range(rng.randint(1, 3)):
        c["recs"].insert(rng.randint(0, len(c["recs"])), dict(rng.choice(bad)))
    c["kind"] = "malformed-foreign" if foreign else "malformed"
    return c


# ---------------------------------------------------------------- channel log: real Channel / AsyncChannel
class KeepBytesIO(io.BytesIO):
    """BytesIO that remembers its value should anybody close it (the channel must not: fb0c968)"""
    final = None

    def close(self):
        self.final = self.getvalue()
        super().close()


class Capture(logging.Handler):
    """copies what the formatter/handler will look at, at emit time (the coalescing handler mutates records later)"""

    def __init__(self):
        super().__init__(level=0)
        self.recs = []

    def emit(self, record):
        self.recs.append(snapshot(record))


DEV_OUT = ["Cisco IOS XE Software\r\nuptime is 1 day", "line1\rover\r\n\x1b[0mcolour\x1b[1;32mgreen", "", "it's \"quoted\" 100%\r\r\n\xff\xfe", "x" * 300,
           "\r", "a\r\nb\r\nc"]


def run_channel(case, work):
    """one or more real driver sessions over SimTransport with a channel_log sink.
    returns sink content, bytes served per session, channel ops per session, captured channel records"""
    from harness.simdevice import CliDevice
    from harness.simtransport import CutAt, CutList, CutOne, CutRng, Cuts, make_conn
    import random
    sinkk = case["sink"]
    cwd = os.getcwd()
    d = Path(tempfile.mkdtemp(dir=work.dir))
    path = d / ("scrapli_channel.log" if sinkk == "true" else "chan.log")
    old = bytes.fromhex(case.get("old", ""))
    if sinkk in ("path", "true") and (old or case.get("precreate")):
        path.write_bytes(old)
    bio = KeepBytesIO() if sinkk == "bio" else None
    if bio is not None and old:
        bio.write(old)
    cap = Capture()
    lg = logging.getLogger("scrapli")
    saved = (lg.level, lg.propagate)
    lg.setLevel(logging.DEBUG)
    lg.addHandler(cap)
    sessions, problems = [], []
    os.chdir(d)
    try:
        for si, sess in enumerate(case["sessions"]):
            outs = sess.get("outputs", {})
            dev = CliDevice("cisco_iosxe", hostname=sess.get("hostname", "r1"), nl=b"\r\n", banner=bytes.fromhex(sess.get("banner", "")),
                            outputs=lambda m, l, outs=outs: outs.get(l.strip(), DEV_OUT[len(l) % len(DEV_OUT)]))
            ck = sess["cuts"]
            cuts = {"whole": Cuts(), "one": CutOne()}.get(ck[0]) or (CutRng(random.Random(ck[1]), ck[2]) if ck[0] == "rng" else
                                                                    CutList(ck[1]) if ck[0] == "list" else CutAt(ck[1]))
            sink = {"off": False, "path": str(path), "true": True, "bio": bio}[sinkk]
            kw = dict(channel_log=sink, channel_log_mode=case.get("mode", "write"), host=case.get("host", "sim"), port=case.get("port", 22))
            if case.get("uid"):
                kw["logging_uid"] = case["uid"]
            conn, t = make_conn("cisco_iosxe", dev, stack=case["stack"], cuts=cuts, **kw)
            ops = []
            orig = conn.channel.write

            def spy(channel_input, redacted=False, _o=orig, _ops=ops):
                _ops.append(("w", channel_input, bool(redacted)))
                return _o(channel_input=channel_input, redacted=redacted)
            conn.channel.write = spy
            # the transport trace carries the reads; tag them into the same op list
            tr = t.trace

            class _L(list):
                def append(self, x, _ops=ops):
                    if x[0] == "R":
                        _ops.append(("r", x[1]))
                    list.append(self, x)
            t.trace = _L(tr)
            n0 = len(cap.recs)
            try:
                if case["stack"] == "sync":
                    conn.open()
                    for c in sess["cmds"]:
                        if c[0] == "cmd":
                            conn.send_command(c[1])
                        elif c[0] == "cfg":
                            conn.send_configs(c[1])
                        elif c[0] == "prompt":
                            conn.get_prompt()
                        elif c[0] == "redacted":
                            conn.channel.write(c[1], redacted=True); conn.channel.send_return(); conn.channel._read_until_prompt()
                    conn.close()
                else:
                    async def go():
                        await conn.open()
                        for c in sess["cmds"]:
                            if c[0] == "cmd":
                                await conn.send_command(c[1])
                            elif c[0] == "cfg":
                                await conn.send_configs(c[1])
                            elif c[0] == "prompt":
                                await conn.get_prompt()
                            elif c[0] == "redacted":
                                conn.channel.write(c[1], redacted=True); conn.channel.send_return(); await conn.channel._read_until_prompt()
                        await conn.close()
                    asyncio.run(go())
            except BaseException as e:  # SimStall etc. would be harness trouble
                problems.append(f"session {si}: {type(e).__name__}: {e}")
                with contextlib.suppress(Exception):
                    conn.channel.close()
            served = b"".join(t.reads())
            chrecs = [r for r in cap.recs[n0:] if r["name"] == "scrapli.channel" and r["func"] in ("read", "write")]
            sessions.append({"served": served, "ops": ops, "recs": chrecs})
    finally:
        os.chdir(cwd)
        lg.removeHandler(cap)
        lg.setLevel(saved[0]); lg.propagate = saved[1]
    if sinkk == "bio":
        if bio.closed:
            problems.append("the channel closed the user supplied BytesIO")
        content = bio.final if bio.final is not None else bio.getvalue()
    elif sinkk == "off":
        content = path.read_bytes() if path.exists() else None
    else:
        content = path.read_bytes() if path.exists() else None
    shutil.rmtree(d, ignore_errors=True)
    return {"content": content, "sessions": sessions, "problems": problems}


def judge_channel(case, res):
    probs = list(res["problems"])
    old = bytes.fromhex(case.get("old", ""))
    per = [s["served"].replace(b"\r", b"") for s in res["sessions"]]
    if case["sink"] == "off":
        want = None
    elif case["sink"] == "bio":
        want = old + b"".join(per)
    elif case.get("mode", "write") == "append":
        want = old + b"".join(per)
    else:
        want = per[-1] if per else old
    if res["content"] != want:
        probs.append("channel log differs from the CR-stripped bytes served by the device")
    # every read / write also reaches the logger, in order, with the payload it carried
    for s in res["sessions"]:
        exp = []
        for op in s["ops"]:
            if op[0] == "r":
                exp.append(("read: " + repr(op[1].replace(b"\r", b""))))
            elif op[0] == "w":
                exp.append("write: REDACTED" if op[2] else "write: " + repr(op[1]))
        got = [o_message(r) for r in s["recs"]]
        if got != exp:
            probs.append("read/write log records differ from the channel's reads and writes")
    return probs, want


def gen_channel(rng, tier):
    sink = rng.choice(["path", "path", "true", "bio", "bio", "off"])
    nsess = 1 if sink == "off" else rng.choice([1, 1, 2])
    sessions = []
    for _ in range(nsess):
        cmds = []
        for _ in range(rng.randint(0, 3)):
            x = rng.random()
            if x < 0.55:
                cmds.append(("cmd", rng.choice(["show version", "show ip int brief", "sh run | i it's", "show 100%", "x"])))
            elif x < 0.75:
                cmds.append(("cfg", [rng.choice(["interface lo0", "description it's \"q\"", "no shut"]) for _ in range(rng.randint(1, 2))]))
            elif x < 0.9:
                cmds.append(("prompt",))
            else:
                cmds.append(("redacted", "s3cret"))
        ck = rng.choice([("whole",), ("one",), ("rng", rng.randrange(1 << 30), rng.choice([2, 7, 40])),
                         ("list", [rng.randint(1, 9) for _ in range(rng.randint(1, 30))]), ("at", sorted(rng.sample(range(1, 400), rng.randint(1, 6))))])
        if ck[0] == "one" and tier == "quick" and len(cmds) > 2:
            cmds = cmds[:2]
        sessions.append({"cmds": cmds, "cuts": list(ck), "hostname": rng.choice(["r1", "core-sw.1", "a" * 20]),
                         "banner": rng.choice([b"", b"\xff\xfe banner\r\r\n", b"\r", b"Last login: it's 100%\r\n\x1b[0m"]).hex()})
    old = rng.choice([b"", b"", b"OLD\r\n", b"\xff\x00old"]).hex() if sink != "off" else ""
    return {"kind": "channel", "sink": sink, "mode": rng.choice(["write", "append"]), "stack": rng.choice(["sync", "async"]),
            "old": old, "precreate": rng.random() < 0.5, "host": rng.choice(["sim", "10.0.0.1", "r1.example.net"]),
            "port": rng.choice([22, 23, 2222]), "uid": rng.choice([None, "u1"]), "sessions": sessions}


def m_chan_line(case, sessions):
    sink = {"off": "off", "bio": "bio", "true": None, "path": None}[case["sink"]] or ("a" if case.get("mode", "write") == "append" else "w")
    ops = []
    for s in sessions:
        ops.append("o")
        for op in s["ops"]:
            if op[0] == "r":
                ops.append("r" + hexs(op[1]))
            elif op[2]:
                ops.append("x")
            else:
                ops.append("w" + es(op[1]) + "/" + es(repr(op[1])))
        ops.append("c")
    return f"chan {sink} {hexs(bytes.fromhex(case.get('old', '')))} {es(case.get('host', 'sim'))} {case.get('port', 22)} {es(case.get('uid') or '')} {','.join(ops) if ops else '.'}"


def enc_emitted(recs):
    return ";".join(f"{es(r['msg'])}|{m_args(r['args'])}|{eo(r.get('host'))}|{eo(r.get('port'))}|{eo(r.get('uid'))}" for r in recs) if recs else "."


# ---------------------------------------------------------------- channel log across commandeer()
def run_commandeer(case, work):
    """connection A (its own channel_log sink) opens and runs operations; driver B (its own channel_log setting, never
    open()ed) commandeers A; operations run through B; B is closed (which closes the shared transport).
    Returns both sinks, the bytes served before / after commandeer(), the channel ops and the channel's log records"""
    from harness.simdevice import CliDevice
    from harness.simtransport import CutOne, CutRng, Cuts, make_conn
    import random
    cwd = os.getcwd()
    d = Path(tempfile.mkdtemp(dir=work.dir))
    paths = {"a": d / ("scrapli_channel.log" if case["sink_a"] == "true" else "chanA.log"),
             "b": d / ("scrapli_channel.log" if case["sink_b"] == "true" else "chanB.log")}
    bios, sinks = {}, {}
    for k in ("a", "b"):
        sk, old = case["sink_" + k], bytes.fromhex(case.get("old_" + k, ""))
        if sk in ("path", "true") and old:
            paths[k].write_bytes(old)
        if sk == "bio":
            bios[k] = KeepBytesIO()
            bios[k].write(old)
        sinks[k] = {"off": False, "path": str(paths[k]), "true": True, "bio": bios.get(k)}[sk]
    cap = Capture()
    lg = logging.getLogger("scrapli")
    saved = (lg.level, lg.propagate)
    lg.setLevel(logging.DEBUG)
    lg.addHandler(cap)
    problems, ops, split = [], [], None
    os.chdir(d)
    try:
        dev = CliDevice("cisco_iosxe", hostname="r1", nl=b"\r\n", banner=bytes.fromhex(case.get("banner", "")),
                        outputs=lambda m, l: DEV_OUT[len(l) % len(DEV_OUT)])
        ck_ = case["cuts"]
        cuts = {"whole": Cuts(), "one": CutOne()}.get(ck_[0]) or CutRng(random.Random(ck_[1]), ck_[2])
        common = dict(host=case.get("host", "sim"), port=22)
        a, ta = make_conn(case.get("platform_a", "generic"), dev, stack=case["stack"], cuts=cuts, channel_log=sinks["a"],
                          channel_log_mode=case.get("mode_a", "write"), **common)
        b, _tb = make_conn("cisco_iosxe", dev, stack=case["stack"], channel_log=sinks["b"], channel_log_mode=case.get("mode_b", "write"), **common)
        for conn in (a, b):
            orig = conn.channel.write

            def spy(channel_input, redacted=False, _o=orig):
                ops.append(("w", channel_input, bool(redacted)))
                return _o(channel_input=channel_input, redacted=redacted)
            conn.channel.write = spy

        class _L(list):
            def append(self, x):
                if x[0] == "R":
                    ops.append(("r", x[1]))
                list.append(self, x)
        ta.trace = _L(ta.trace)
        try:
            if case["stack"] == "sync":
                a.open()
                for c in case["cmds_a"]:
                    a.send_command(c)
                split = (len(ops), len(ta.reads()))
                b.commandeer(a, execute_on_open=case["on_open"])
                for c in case["cmds_b"]:
                    b.send_command(c)
                b.close()
            else:
                async def go():
                    nonlocal split
                    await a.open()
                    for c in case["cmds_a"]:
                        await a.send_command(c)
                    split = (len(ops), len(ta.reads()))
                    await b.commandeer(a, execute_on_open=case["on_open"])
                    for c in case["cmds_b"]:
                        await b.send_command(c)
                    await b.close()
                asyncio.run(go())
        except BaseException as e:
            problems.append(f"{type(e).__name__}: {e}")
        finally:
            for conn in (a, b):      # whatever is still open (a mutated close path must not leak file handles into the next case)
                with contextlib.suppress(Exception):
                    cl = getattr(conn.channel, "channel_log", None)
                    if cl is not None and not isinstance(cl, io.BytesIO):
                        cl.close()
        reads = ta.reads()
    finally:
        os.chdir(cwd)
        lg.removeHandler(cap)
        lg.setLevel(saved[0]); lg.propagate = saved[1]
    content = {}
    for k in ("a", "b"):
        if case["sink_" + k] == "bio":
            content[k] = bios[k].final if bios[k].final is not None else bios[k].getvalue()
        else:
            content[k] = paths[k].read_bytes() if paths[k].exists() else None
    shutil.rmtree(d, ignore_errors=True)
    nsplit = split[1] if split else len(reads)
    chrecs = [r for r in cap.recs if r["name"] == "scrapli.channel" and r["func"] in ("read", "write")]
    return {"content": content, "before": b"".join(reads[:nsplit]), "after": b"".join(reads[nsplit:]), "ops": ops, "recs": chrecs,
            "problems": problems, "commandeered": split is not None}


def _keeps_old(sink, mode):
    return sink == "bio" or mode == "append"


def judge_commandeer(case, res):
    """channel-log faithfulness across commandeer(): every byte read through the channel — before AND after commandeer() —
    is in the active sink exactly once, in order.  The active sink: the one of the original connection when it has one
    (commandeer() documents that it takes it over; the commandeering driver is never open()ed, so its own setting opens
    nothing and its sink must stay untouched); when the original connection has none, the commandeering driver's own sink
    for what is read through it.  Returns (problems, problems that are the commandeering driver's own sink never being set up)"""
    probs, own = list(res["problems"]), []
    before, after = res["before"].replace(b"\r", b""), res["after"].replace(b"\r", b"")
    old_a, old_b = bytes.fromhex(case.get("old_a", "")), bytes.fromhex(case.get("old_b", ""))
    same = case["sink_a"] == "true" and case["sink_b"] == "true"
    if case["sink_a"] != "off":
        want_a = (old_a if _keeps_old(case["sink_a"], case.get("mode_a", "write")) else b"") + before + after
        if res["content"]["a"] != want_a:
            probs.append("the channel log of the original connection differs from the CR-stripped bytes read before and after commandeer()")
        if case["sink_b"] != "off" and not same:
            if (res["content"]["b"] or b"") != old_b:
                probs.append("the commandeering driver's own channel log was written although the original connection's log is the active one")
    else:
        if res["content"]["a"] is not None:
            probs.append("a channel log file appeared for a connection without channel_log")
        if case["sink_b"] != "off":
            want_b = (old_b if _keeps_old(case["sink_b"], case.get("mode_b", "write")) else b"") + after
            if (res["content"]["b"] or b"") != want_b:
                own.append("bytes read through the commandeering driver reach NO channel log: its own channel_log sink is never set up "
                           "(commandeer() does not open it and the original connection has none to take over)")
    exp = []
    for op in res["ops"]:
        exp.append("read: " + repr(op[1].replace(b"\r", b"")) if op[0] == "r" else ("write: REDACTED" if op[2] else "write: " + repr(op[1])))
    if [o_message(r) for r in res["recs"]] != exp:
        probs.append("read/write log records differ from the channel's reads and writes")
    return probs, own


def cmd_predicate(case):
    """predicate of C20-CMD: commandeer() where the original connection has no channel log and the commandeering driver has one"""
    return case.get("kind") == "commandeer" and case.get("sink_a") == "off" and case.get("sink_b") != "off"


def m_commandeer_line(case, res):
    """the model's statement: one channel whose sink is the ORIGINAL connection's, fed the ops of both phases"""
    sink = {"off": "off", "bio": "bio"}.get(case["sink_a"]) or ("a" if case.get("mode_a", "write") == "append" else "w")
    ops = ["o"]
    for op in res["ops"]:
        ops.append("r" + hexs(op[1]) if op[0] == "r" else ("x" if op[2] else "w" + es(op[1]) + "/" + es(repr(op[1]))))
    ops.append("c")
    return f"chan {sink} {hexs(bytes.fromhex(case.get('old_a', '')))} {es(case.get('host', 'sim'))} 22 {es('')} {','.join(ops)}"


def gen_commandeer(rng, tier):
    """every pair of sinks (original x commandeering) x execute_on_open x sync/asyncio (exhaustive), modes / old content / cuts random"""
    out = []
    for sa in ("path", "true", "bio", "off"):
        for sb in ("path", "true", "bio", "off"):
            for on_open in (True, False):
                stacks = ("sync", "async") if tier != "quick" else (("sync", "async")[(len(out) // 2 + on_open) % 2],)
                for stack in stacks:
                    ck_ = rng.choice([("whole",), ("rng", rng.randrange(1 << 30), rng.choice([3, 9, 60]))])
                    out.append({"kind": "commandeer", "sink_a": sa, "sink_b": sb, "on_open": on_open, "stack": stack, "cuts": list(ck_),
                                "mode_a": rng.choice(["write", "append"]), "mode_b": rng.choice(["write", "append"]),
                                "old_a": rng.choice([b"", b"OLD-A\r\n"]).hex() if sa != "off" else "",
                                "old_b": rng.choice([b"", b"OLD-B\n"]).hex() if sb not in ("off",) and not (sa == "true" and sb == "true") else "",
                                "platform_a": rng.choice(["generic", "generic", "cisco_iosxe"]),
                                "banner": rng.choice([b"", b"console server\r\r\n"]).hex(),
                                "cmds_a": [rng.choice(["show clock", "show version"]) for _ in range(rng.randint(0, 2))],
                                "cmds_b": [rng.choice(["show version", "show ip int brief", "show it's"]) for _ in range(rng.randint(1, 2))]})
    return out


# ---------------------------------------------------------------- end to end: enable_basic_logging around a real session
BIG_OUT = "".join(f"line {i:05d} of the output of show tech: it's \"quoted\" 100% " + "x" * 40 + "\r\n" for i in range(900))    # ~ 88 KB


def run_e2e(case, work):
    """enable_basic_logging(file=…) + a real driver session; returns file content and the captured record stream"""
    from harness.simdevice import CliDevice
    from harness.simtransport import CutRng, make_conn
    from scrapli.logging import enable_basic_logging
    import random
    d = Path(tempfile.mkdtemp(dir=work.dir))
    cwd = os.getcwd()
    lg = logging.getLogger("scrapli")
    saved = (lg.level, lg.propagate, list(lg.handlers))
    cap = Capture()
    lg.addHandler(cap)          # before the file handler: sees every record first
    path = d / ("scrapli.log" if case["file"] == "true" else "my.log")
    old = case.get("old", "")
    if old:
        path.write_text(old, encoding="utf-8")
    os.chdir(d)
    problems = []
    err = io.StringIO()
    try:
        with contextlib.redirect_stderr(err):
            enable_basic_logging(file=True if case["file"] == "true" else str(path), level="debug", caller_info=case["caller"],
                                 buffer_log=case["buffered"], mode=case["mode"])
            new = [h for h in lg.handlers if h not in saved[2] and h is not cap]
            try:
                for sess in case["sessions"]:
                    dev = CliDevice("cisco_iosxe", nl=b"\r\n", outputs=lambda m, l: BIG_OUT if l.strip() == "show tech" else DEV_OUT[len(l) % len(DEV_OUT)])
                    conn, t = make_conn("cisco_iosxe", dev, stack="sync", cuts=CutRng(random.Random(sess["seed"]), sess["maxn"]),
                                        host=case.get("host", "sim"), port=case.get("port", 22))
                    conn.open()
                    for c in sess["cmds"]:
                        conn.send_command(c)
                    if sess.get("close", True):
                        conn.close()
            except BaseException as e:
                problems.append(f"{type(e).__name__}: {e}")
            for h in new:
                h.close()
    finally:
        os.chdir(cwd)
        for h in list(lg.handlers):
            if h not in saved[2]:
                lg.removeHandler(h)
        lg.setLevel(saved[0]); lg.propagate = saved[1]
    data = path.read_bytes() if path.exists() else b""
    shutil.rmtree(d, ignore_errors=True)
    return {"file": data, "recs": cap.recs, "problems": problems, "nhandlers": len(new), "nerr": err.getvalue().count("--- Logging error ---"),
            "hclass": type(new[0]).__name__ if new else None}


def gen_e2e_big(rng, i):
    """a command whose output is a run of consecutive reads of more than 64 KiB (full sized transport reads / small ones)"""
    return {"kind": "e2e", "file": "path", "caller": False, "buffered": True, "mode": "write", "old": "", "host": "sim", "port": 22, "big": True,
            "sessions": [{"seed": rng.randrange(1 << 30), "maxn": [65535, 4096, 700][i % 3], "cmds": ["show clock", "show tech"], "close": i % 2 == 0}]}


def gen_e2e(rng):
    return {"kind": "e2e", "file": rng.choice(["true", "path"]), "caller": rng.random() < 0.4, "buffered": rng.random() < 0.75,
            "mode": rng.choice(["write", "append", "Append", "WRITE"]), "old": rng.choice(["", "old\n"]),
            "host": rng.choice(["sim", "edge-router-17.lab.example.org"]), "port": rng.choice([22, 830]),
            "sessions": [{"seed": rng.randrange(1 << 30), "maxn": rng.choice([3, 9, 60]),
                          "cmds": [rng.choice(["show version", "show clock", "show it's"]) for _ in range(rng.randint(0, 2))],
                          "close": rng.random() < 0.8} for _ in range(rng.choice([1, 1, 2]))]}


# ---------------------------------------------------------------- histories of the logging API
class _Witness(logging.Handler):
    """a foreign handler on the scrapli logger (what pytest's caplog or a user's own handler is): must keep receiving"""

    def __init__(self):
        super().__init__(level=0)
        self.seen = []

    def emit(self, record):
        try:
            self.seen.append(record.getMessage())
        except Exception:       # an ill-formed record (histories outside the oracle's domain): the foreign handler must not disturb the run
            self.seen.append(None)


def _hist_rec(kind, n, ex):
    """records with a token that occurs nowhere else in the history (so loss / reordering cannot hide behind a repeat)"""
    if kind == "R":
        return rec("read: %r", (f"<r{n}>\n".encode(),), **ex)
    if kind == "Rbig":    # a full sized transport read: two of them in a row are more than 64 KiB of coalesced payload
        return rec("read: %r", (f"<r{n}>".encode() + bytes([97 + n % 26]) * (40000 + 7 * n),), **ex)
    if kind == "Re":
        return rec(f"read: {f'<e{n}>'.encode()!r}", (), **ex)
    if kind == "W":
        return rec("write: %r", (f"cmd{n}\n",), **ex)
    if kind == "Wn":
        return rec("warn %s", (f"<w{n}>",), level="WARNING", **ex)
    if kind == "Br":      # ill-formed read record (two directives, one argument)
        return rec("read: %r %r", (f"<b{n}>".encode(),), **ex)
    if kind == "Bx":      # ill-formed non-read record (argument without directive)
        return rec(f"plain {n}", (f"<x{n}>",), level="INFO", **ex)
    return rec(f"info {n} 100%", (), level="INFO", **ex)


def _lvl(st):
    return LEVELS[st.get("level", "debug").upper()]


def run_history(case, work):
    """enable_basic_logging called any number of times (any level / file / mode, also file=False and an invalid mode), records
    logged through the real scrapli loggers in between (Logger.log's own `isEnabledFor` gate, then `handle`), then
    logging.shutdown() or close() of the attached handlers.  The harness keeps NO reference to the handlers:
    whatever the library drops is really gone, as in a program."""
    import gc
    from scrapli.exceptions import ScrapliException
    from scrapli.logging import enable_basic_logging
    d = Path(tempfile.mkdtemp(dir=work.dir))
    lg = logging.getLogger("scrapli")
    src = logging.getLogger("scrapli.channel")
    saved = (lg.level, lg.propagate, list(lg.handlers))
    saved_src = list(src.handlers)
    level0 = lg.getEffectiveLevel()
    for st in case["steps"]:
        if st["op"] == "emit":
            st["rec"]["asctime"] = _STD.formatTime(mk_record(st["rec"]))
    files = {k: str(d / f"{k}.log") for k in {st["file"] for st in case["steps"] if st["op"] == "enable" and st.get("file")}}
    for k, pth in files.items():
        if case.get("old", {}).get(k):
            Path(pth).write_text(case["old"][k], encoding="utf-8")
    wit = None
    err = io.StringIO()
    raised = None
    refused = 0
    nhandlers = None
    try:
        with contextlib.redirect_stderr(err):
            try:
                for st in case["steps"]:
                    if st["op"] == "enable":
                        try:
                            enable_basic_logging(file=files[st["file"]] if st.get("file") else False, level=st.get("level", "debug"),
                                                 caller_info=st["caller"], buffer_log=st["buffered"], mode=st["mode"])
                        except ScrapliException:
                            refused += 1
                    elif st["op"] == "witness":
                        wit = _Witness()
                        lg.addHandler(wit)
                    else:
                        r = st["rec"]
                        record = mk_record(r)
                        r["asctime"] = _STD.formatTime(record)      # (created now: the same rendering as above unless the second ticked)
                        if src.isEnabledFor(record.levelno):      # Logger.log: `if self.isEnabledFor(level): self._log(...)` -> handle
                            src.handle(record)
                        del record
                if case.get("gc"):          # (costly on a big heap: a share of the cases; refcounting frees dropped handlers anyway)
                    gc.collect()
                nhandlers = sum(1 for h in lg.handlers if isinstance(h, logging.FileHandler) and h not in saved[2])
                if case["end"] == "shutdown":
                    logging.shutdown()
                else:
                    for h in [h for h in lg.handlers if isinstance(h, logging.FileHandler)]:
                        h.close()
                    h = None
            except Exception as e:
                raised = f"{type(e).__name__}: {e}"
    finally:
        for h in list(lg.handlers):
            if h not in saved[2]:
                lg.removeHandler(h)
                with contextlib.suppress(Exception):
                    h.close()
        for h in list(src.handlers):       # (a library that attaches its handlers somewhere else must not leak into the next case)
            if h not in saved_src:
                src.removeHandler(h)
                with contextlib.suppress(Exception):
                    h.close()
        h = None
        lg.setLevel(saved[0]); lg.propagate = saved[1]
    content = {k: (Path(pth).read_bytes() if Path(pth).exists() else None) for k, pth in files.items()}
    shutil.rmtree(d, ignore_errors=True)
    return {"files": content, "nerr": err.getvalue().count("--- Logging error ---"), "raised": raised, "level0": level0,
            "refused": refused, "nhandlers": nhandlers, "witness_seen": None if wit is None else list(wit.seen)}


def _file_atoms(data, caller):
    """what a log file says, flattened: ("m", text) per non-read message, ("c", ch) per character of read payload text"""
    import ast as _ast
    atoms = []
    for line in data.decode("utf-8", "replace").split("\n"):
        if not line or line.startswith("ID    | TIMESTAMP"):
            continue
        parts = line.split(" | ", 7 if caller else 4)
        if len(parts) != (8 if caller else 5):
            atoms.append(("?", line))
            continue
        msg = parts[-1]
        if msg.startswith(COALESCED):
            try:
                atoms += [("c", ch) for ch in _ast.literal_eval(msg[len(COALESCED):]).decode("utf-8")]
            except Exception:
                atoms.append(("?", line))
        elif msg.startswith(READ):
            atoms += [("c", ch) for ch in msg[len(READ):]]
        else:
            atoms.append(("m", msg))
    return atoms


def _is_subsequence(want, got):
    it = iter(got)
    return all(any(a == b for b in it) for a in want)


def _valid_mode(m):
    return m.lower() in ("write", "append")


def _logged(case, res):
    """per step index: was the record handed to the handlers (the level in force = that of the latest call)"""
    lvl, out = res["level0"], {}
    for i, st in enumerate(case["steps"]):
        if st["op"] == "enable":
            lvl = _lvl(st)
        elif st["op"] == "emit":
            out[i] = LEVELS[st["rec"]["level"]] >= lvl
    return out


def judge_history(case, res):
    """every record logged while a file was configured (from the call that configured it to the next call) is in that
    file, complete and in order — whatever was called afterwards; nothing is in a file twice; no logging error; a foreign
    handler keeps receiving.  Returns (problems, duplication problems on paths configured by several calls)"""
    probs, dups = [], []
    if res["raised"]:
        probs.append(f"exception: {res['raised']}")
    if res["nerr"]:
        probs.append(f"logging reported {res['nerr']} error(s)")
    steps = case["steps"]
    logged = _logged(case, res)
    anycall = [i for i, st in enumerate(steps) if st["op"] == "enable"]
    calls = [i for i in anycall if steps[i].get("file") and _valid_mode(steps[i]["mode"])]
    if res["refused"] != sum(1 for i in anycall if not _valid_mode(steps[i]["mode"])):
        probs.append("enable_basic_logging accepted an invalid mode / refused a valid one")
    for n, i in enumerate(calls):
        st = steps[i]
        end = min([j for j in anycall if j > i], default=len(steps))
        window = [x["rec"] for k, x in enumerate(steps[i + 1:end], i + 1) if x["op"] == "emit" and logged[k]]
        want = []
        for r in window:
            m = o_message(r)
            want += [("c", ch) for ch in m[len(READ):]] if r["msg"].startswith(READ) else [("m", m)]
        data = res["files"].get(st["file"])
        if data is None:
            probs.append(f"log file of call {n + 1} does not exist")
            continue
        got = _file_atoms(data, st["caller"])
        if not _is_subsequence(want, got):
            probs.append(f"records emitted after enable_basic_logging call {n + 1} (file {st['file']}) are missing from / out of order in that file")
    # exactly once: every record carries a token that occurs nowhere else in the history
    tok = r"<[a-z]\d+>|cmd\d+|info \d+ "
    toks = {t for st in steps if st["op"] == "emit" for t in re.findall(tok, o_message(st["rec"]))}
    for f in sorted({steps[i]["file"] for i in calls}):
        data = res["files"].get(f)
        if data is None:
            continue
        ncalls = sum(1 for i in calls if steps[i]["file"] == f)
        atoms = _file_atoms(data, steps[[i for i in calls if steps[i]["file"] == f][0]]["caller"])
        text = "".join(a[1] for a in atoms if a[0] == "c") + "\n" + "\n".join(a[1] for a in atoms if a[0] == "m")
        found = re.findall(tok, text)
        twice = sorted(t for t in set(found) if t in toks and found.count(t) > 1)
        if twice:
            (dups if ncalls > 1 else probs).append(f"file {f} (configured by {ncalls} call(s)) shows a record more than once: {twice[:3]}")
    if res["witness_seen"] is not None:
        w = [i for i, st in enumerate(steps) if st["op"] == "witness"][0]
        exp = [o_message(x["rec"]) for k, x in enumerate(steps[w + 1:], w + 1) if x["op"] == "emit" and logged[k]]
        if res["witness_seen"] != exp:
            probs.append("a foreign handler on the scrapli logger stopped receiving records")
    return probs, dups


HFILES = "ABCDEFGH"


def history_api_line(case, vb, level0):
    """the whole history as ONE request to the Lean state machine of the logging API (ScrapliModel/LogApi.lean runApi)"""
    ops = []
    for st in case["steps"]:
        if st["op"] == "enable":
            ops.append(f"E{HFILES.index(st['file']) if st.get('file') else '~'},{_lvl(st)},{int(st['caller'])},{int(st['buffered'])},{es(st['mode'])}")
        elif st["op"] == "emit":
            ops.append(f"R{LEVELS[st['rec']['level']]}:{m_rec(st['rec'])}")
    old = ",".join(f"{HFILES.index(k)}:{es(v)}" for k, v in sorted(case.get("old", {}).items()) if v)
    return f"api {vb} {level0} {'s' if case['end'] == 'shutdown' else 'c'} {old or '.'} {'|'.join(ops) or '.'}"


def history_impl_reply(case, res):
    """the real run in the reply format of the `api` request"""
    ids = sorted({HFILES.index(k) for k, v in case.get("old", {}).items() if v} |
                 {HFILES.index(st["file"]) for st in case["steps"] if st["op"] == "enable" and st.get("file")})
    fs = []
    for i in ids:
        data = res["files"].get(HFILES[i])
        if data is None:      # never opened by the library: what the harness put there
            data = (case.get("old", {}).get(HFILES[i]) or "").encode()
        fs.append(f"{i}:{hexs(data)}")
    return f"{','.join(fs) or '.'} {res['refused']} {res['nhandlers']} {res['nerr']}"


def dup_predicate(case):
    """predicate of C20-DUP: some path is configured by more than one valid enable_basic_logging call"""
    fs = [st["file"] for st in case.get("steps", []) if st["op"] == "enable" and st.get("file") and _valid_mode(st["mode"])]
    return len(fs) != len(set(fs))


def _history(windows, calls, end, witness_at=None, old=None):
    """windows: list of record-kind lists (windows[0] precedes the first call); calls: list of enable steps"""
    ex = {"host": "sim", "port": "22", "uid": None}
    steps, n = [], 0
    for w, kinds in enumerate(windows):
        if w:
            steps.append({"op": "enable", **calls[w - 1]})
        if witness_at == w:
            steps.append({"op": "witness"})
        for k in kinds:
            n += 1
            steps.append({"op": "emit", "rec": _hist_rec(k, n, ex)})
    # one path, several calls: only sane when every call appends (O_APPEND) and the layout is the same
    for f in {c["file"] for c in calls if c.get("file")}:
        same = [st for st in steps if st["op"] == "enable" and st.get("file") == f]
        if len(same) > 1:
            for st in same:
                st["mode"], st["caller"] = "append", same[0]["caller"]
    return {"kind": "history", "steps": steps, "end": end, "old": old or {}, "gc": n % 7 == 0,
            "illformed": any(st["op"] == "emit" and not o_wf(st["rec"]) for st in steps)}


def gen_histories(rng, tier):
    out = []
    lasts = (["R"], ["W"], ["I"], ["R", "R"], ["W", "Re"], ["R", "W"], [])
    # exhaustive: two calls on two files x what was logged last before the second call x buffering x ending
    for w1 in lasts:
        for w2 in lasts[:4]:
            for b1 in (True, False):
                for b2 in (True, False):
                    for end in ("shutdown", "close"):
                        calls = [{"file": "A", "buffered": b1, "caller": False, "mode": "write"}, {"file": "B", "buffered": b2, "caller": False, "mode": "write"}]
                        out.append(_history([["I"], w1, w2], calls, end))
    # exhaustive: the SAME path configured twice (append) x shape of the two windows x buffering x ending
    for w1 in lasts[:4]:
        for w2 in (["I"], ["R"], ["W", "R"]):
            for b1 in (True, False):
                for b2 in (True, False):
                    for end in ("shutdown", "close"):
                        calls = [{"file": "A", "buffered": b1, "caller": False, "mode": "append"}, {"file": "A", "buffered": b2, "caller": False, "mode": "append"}]
                        out.append(_history([[], w1, w2], calls, end))
    # exhaustive: level of the second call x level of the records x buffering of the first handler
    for l2 in ("debug", "info", "WARNING"):
        for w2 in (["R", "I", "R"], ["W", "Wn"], ["R", "Wn", "R", "R"]):
            for b1 in (True, False):
                calls = [{"file": "A", "buffered": b1, "caller": False, "mode": "write", "level": "debug"},
                         {"file": "B", "buffered": True, "caller": False, "mode": "write", "level": l2}]
                out.append(_history([["Wn"], ["R", "R"], w2], calls, "shutdown"))
    # long runs / large payloads across the API: > 64 KiB of consecutive reads pending when the next call / the end comes
    for w1, w2, b2, end in ((["Rbig", "Rbig"], ["I"], True, "shutdown"), (["W", "Rbig", "R", "Rbig"], ["Rbig", "Rbig", "Rbig"], False, "close"),
                            (["R"] * 300, ["Rbig"], True, "shutdown")):
        calls = [{"file": "A", "buffered": True, "caller": False, "mode": "write"}, {"file": "B", "buffered": b2, "caller": False, "mode": "write"}]
        out.append(_history([["I"], w1, w2], calls, end))
    nex = len(out)
    for _ in range(150 if tier == "quick" else 2500):
        nc = rng.choice([1, 2, 2, 3, 3, 4])
        rich = rng.random() < 0.6        # levels, file=False, invalid modes, ill-formed records
        calls = [{"file": rng.choice("ABC"[:rng.choice([1, 2, 3])]), "buffered": rng.random() < 0.75, "caller": rng.random() < 0.25,
                  "mode": rng.choice(["write", "append", "Append"])} for _ in range(nc)]
        if rich:
            for c in calls:
                c["level"] = rng.choice(["debug", "debug", "DEBUG", "info", "Info", "warning"])
                x = rng.random()
                if x < 0.12:
                    c["file"] = None
                elif x < 0.22:
                    c["mode"] = rng.choice(["tacocat", "", "w", "writeappend"])
        kinds = ["R", "R", "Re", "W", "I"] + (["Wn", "Wn"] if rich else []) + (["Br", "Bx"] if rich and rng.random() < 0.3 else [])
        windows = []
        for _w in range(nc + 1):
            k = [rng.choice(kinds) for _ in range(rng.randint(0, 5))]
            if k and rng.random() < 0.6:
                k[-1] = rng.choice(["R", "R", "W", "I"])
            windows.append(k)
        old = {f: rng.choice(["", "old line\n"]) for f in "ABC"} if rng.random() < 0.3 else None
        out.append(_history(windows, calls, rng.choice(["shutdown", "shutdown", "close"]), witness_at=rng.choice([None, None, 0, 1]), old=old))
    return out, nex


# ---------------------------------------------------------------- the check
def measure_variant(work, witnesses):
    """which of the three fixes the tree has: replay each stored witness through the oracle"""
    v = {}
    for key, fid in (("lazy", "F2"), ("flush", "F3"), ("port", "F4")):
        w = json.loads(json.dumps(witnesses[fid]))
        res = run_handler(w, work)
        probs, _ = judge_handler(w, res)
        v[key] = not probs
    return v


def tags_of(case):
    recs = case["recs"]
    runs, cur = [], 0
    for r in recs:
        if is_read(r):
            cur += 1
        else:
            if cur:
                runs.append(cur)
            cur = 0
    if cur:
        runs.append(cur)
    t = ["buffered" if case["buffered"] else "unbuffered", "append" if case.get("append") else "write",
         "caller_info" if case["caller"] else "plain", f"nrec={min(len(recs), 10)}", f"maxrun={min(max(runs, default=0), 6)}"]
    if case.get("big"):
        tot = sum(len(o_message(r)) - len(READ) for r in recs if is_read(r) and o_wf(r))
        t += ["big-run", "big-total>=64KiB" if tot > 65535 else "big-total<64KiB", f"big-maxrun={'>=256' if max(runs, default=0) >= 256 else '<256'}"]
    if recs and is_read(recs[-1]):
        t.append("ends-with-read")
    if any(is_read(r) and r["args"] for r in recs):
        t.append("lazy-read")
    if any(is_read(r) and not r["args"] for r in recs):
        t.append("eager-read")
    if any(r.get("host") is not None and r.get("port") is None for r in recs):
        t.append("host-without-port")
    if any(len(o_target(r)) == 25 and o_target(r).endswith("...") for r in recs):
        t.append("target-truncated")
    return tuple(t)


def run(tier, seed):
    ck = Check(PID, tier, seed, level="proof")
    load_own_findings(ck)
    ck.rule = ("handler cases = record sequences (read / write / info records; lazily %-formatted with bytes, str, int, bool, None args "
               "or eager; every subset of host/port/uid incl. empty and long values; payloads with quotes, %, non-UTF-8 bytes, "
               "newlines) x buffered/unbuffered x caller_info x write/append with old content; exhaustive: all sequences of <= N "
               "records over a 6-kind alphabet x buffered/unbuffered and all 8 extras subsets x target lengths around the 25 column "
               "limit; random: up to 20 (40) records. Each case runs the real ScrapliFormatter + ScrapliFileHandler/FileHandler on a "
               "temp file and the Lean model; oracle = file must equal the independently rendered record sequence with maximal "
               "read runs coalesced, no logging error, no exception. Channel cases = real Channel/AsyncChannel sessions over "
               "SimTransport (CR-laden device, cut schedules) with channel_log path/True/BytesIO/off, write/append, one or two "
               "sessions; oracle = sink equals CR-stripped bytes served. e2e cases = enable_basic_logging around real sessions. "
               "history cases = enable_basic_logging called 1..3 times (same / different files, buffering on/off, write/append, a "
               "foreign handler attached) interleaved with records whose last one before the next call is a read / write / info, then "
               "logging.shutdown() or close(); the harness keeps no reference to the handlers; oracle = every record emitted between a call "
               "and the next one is in that call's file, complete and in order (atoms with unique tokens), no logging error; exhaustive over "
               "2 calls x 7 x 4 last-record shapes x buffering x ending. "
               "big cases = long runs of consecutive reads / large payloads with totals at and around powers of two up to 2 x 65536 + 1 (one huge read, "
               "two reads meeting at the boundary, 300 x 1000, 5 x 65535, random splits; ended by close / a non-read record / another run) at handler level, "
               "in API histories (40 KB reads, 300 reads) and as a real session whose command output is > 64 KiB. "
               "commandeer cases = original connection (sink path / True / BytesIO / off) opens and runs commands, an IOSXE driver with its own "
               "channel_log setting (each of the four) commandeers it (execute_on_open on / off), commands run through it, it is closed; exhaustive over the "
               "16 sink pairs x on_open, sync and asyncio; oracle = the original connection's sink holds every byte read before and after commandeer() "
               "once, in order, the commandeering driver's own sink stays untouched; without an original sink the commandeering driver's own sink must "
               "hold what is read through it (open finding C20-CMD on the unchanged tree). "
               "Non-trivial = >= 2 records with a read run (handler) / >= 1 read with CR (channel); distinct by full case.")
    ck.trusted = ["Lean 4.33.0 kernel; axioms of every theorem audited ⊆ {propext, Classical.choice, Quot.sound}",
                  "tools/gen/c20.py (format strings, prefix, widths, templates copied from the source AST)",
                  "correspondence harness props/c20.py (LogRecords built by hand or captured from the real loggers; Handler.handleError "
                  "overridden to record logging's error reports; SimTransport)",
                  "CPython: logging's dispatch, %-operator (model: arity + %r/%s/%% only), repr() of argument objects (bytes repr is "
                  "modelled and compared against CPython's), str.format field layout, file open modes, UTF-8 codec"]
    ck.assumptions = ["records carry no exc_info/stack_info; record.msg is a str (true of every scrapli call site)",
                      "the log file's encoding can encode every character (UTF-8): handler_refines_spec is stated for asciiStream = false. "
                      "enable_basic_logging guarantees it since 35bb84d (encoding='utf-8'); before, under a non-UTF-8 locale, non-ASCII messages and "
                      "the header row were lost (finding C20-ENC, fixed; handler_ascii_stream_refuted). The witness is replayed through "
                      "enable_basic_logging in a child process with LC_ALL=C PYTHONUTF8=0 every run; in-process handler cases open the file "
                      "with encoding='utf-8' explicitly",
                      "a BytesIO sink is positioned at its end (the channel never closes it: any number of open/close cycles is covered)",
                      "all read records of a coalesced run are shown under the FIRST record's target/level/time: attribution is proved only "
                      "when the read records share one target (coalesce_attribution; refuted for interleaved connections)",
                      "reads happen only between open() and close() of the channel (a read after close() on a path sink raises ValueError)",
                      "ill-formed records (msg % args raises): inside the model's %-fragment the model/code agreement is checked strictly, "
                      "directives CPython knows and the model does not (%d, %5r, %(a)s) are advisory",
                      "asctime is whatever logging.Formatter.formatTime returns for the record (taken from the stdlib, not modelled)",
                      "logging API histories (ScrapliModel/LogApi.lean): files are append-at-end (a path configured twice with a write-mode call among "
                      "them is outside the model), the history ends with logging.shutdown() / close() (nothing is logged afterwards), level names are "
                      "numbers from logging's own table (NOTSET excluded); exactly-once per file is proved for paths configured by ONE call "
                      "(api_file_exact) and refuted otherwise (api_exactly_once_full_refuted, open finding C20-DUP)"]
    try:
        translate.translate(PID)
    except Exception as e:
        ck.proof_broken("translator gen/c20.py", repr(e))
    try:        # what the translator could not read from the source text this run (measured on the live objects / kept from the Gen file)
        import gen.c20 as _gen
        if _gen.NOTES:
            ck.extra["translator_notes"] = list(_gen.NOTES)
            ck.notes += [n[:300] for n in _gen.NOTES]
    except Exception:
        pass
    ck.prove("ScrapliProps.C20", lemma_files=LEMMAS)
    if tier == "thorough":
        ck.leanchecker("ScrapliProps.C20")

    work = Work()
    try:
        return _run(ck, tier, work)
    finally:
        work.cleanup()


def _run(ck, tier, work):
    corpus = json.load(open(VERIF / "corpus" / "C20" / "corpus.json"))
    witnesses = {c["finding"]: c for c in corpus if c.get("finding")}
    variant = measure_variant(work, witnesses)
    ck.extra["variant_measured"] = variant
    live = {fid for key, fid in (("lazy", "F2"), ("flush", "F3"), ("port", "F4")) if not variant[key]}
    # log file encoding: the stored witness + a few more cases through enable_basic_logging in a C-locale child process
    enc_witness = json.loads(json.dumps(witnesses["C20-ENC"]))
    loc_cases = [enc_witness] + locale_cases()
    try:
        loc = run_locale(loc_cases)
    except Exception as e:
        loc = None
        ck.notes.append(f"locale child process could not run: {e!r}"[:300])
        ck.extra["locale_child"] = "failed to run (advisory)"
    ascii_stream = False
    if loc is not None:
        ck.extra["locale_child_encoding"] = loc["encoding"]
        r0 = loc["results"][0]
        c0 = {**enc_witness, "recs": r0["recs"]}
        probs0, _ = judge_handler(c0, {"file": bytes.fromhex(r0["file"]), "errors": r0["errors"], "raised": r0["raised"]})
        ascii_stream = bool(probs0)
        variant["utf8_log_file"] = not ascii_stream
        if ascii_stream:
            live.add("C20-ENC")
    if "C20-DUP" in witnesses:          # stacked handlers on one path: every record twice (api_exactly_once_full_refuted)
        wd = json.loads(json.dumps(witnesses["C20-DUP"]))
        _p, _d = judge_history(wd, run_history(wd, work))
        if _d:
            live.add("C20-DUP")
        ck.extra["variant_measured"]["stacks_handlers_on_one_path"] = bool(_d)
    if "C20-CMD" in witnesses:          # commandeer(): original connection without a channel log, commandeering driver with one
        wc = json.loads(json.dumps(witnesses["C20-CMD"]))
        _p, _o = judge_commandeer(wc, run_commandeer(wc, work))
        if _o:
            live.add("C20-CMD")
        ck.extra["variant_measured"]["commandeer_opens_own_channel_log"] = not _o
    for f in ck.findings:
        if f.get("status") == "open" and f["id"] in live:
            ck.known_finding(f["id"], f["what"])

    def matcher(case):
        for fid in predicates(case):
            if fid in live:
                return fid
        return None

    # ---------------- cases
    hcases = [json.loads(json.dumps(c)) for c in corpus if c.get("kind", "handler") == "handler"]
    ncorpus = len(hcases)
    # exhaustive: all sequences over the 6-kind alphabet, buffered and unbuffered
    nmax = 4 if tier == "quick" else 5
    ex = {"host": "sim", "port": "22", "uid": None}
    for n in range(0, nmax + 1):
        for seq in itertools.product(KINDS, repeat=n):
            for buffered in (True, False):
                if not buffered and n > 3:
                    continue
                hcases.append({"kind": "handler", "buffered": buffered, "caller": False, "append": False, "old": "",
                               "recs": [kind_rec(k, i, ex) for i, k in enumerate(seq)]})
    # exhaustive: extras subsets x target lengths x caller_info (through the handler, 2 records)
    for mask in range(8):
        for tl in (0, 1, 20, 21, 22, 23, 24, 25, 26, 27, 40):
            for caller in (False, True):
                e = extras_subset(mask, host="h" * tl, port="22", uid="u")
                hcases.append({"kind": "handler", "buffered": mask % 2 == 0, "caller": caller, "append": False, "old": "",
                               "recs": [rec("write: %r", ("x",), module="m" * (tl), func="f" * (41 - tl), **e),
                                        rec("read: %r", (b"y",), **e), rec("info", (), level="INFO", **e)]})
    nexh = len(hcases) - ncorpus
    big = gen_big(ck.rng, tier)
    hcases += big
    nrand = 1500 if tier == "quick" else 25000
    for _ in range(nrand):
        hcases.append(gen_random(ck.rng, tier))
    mal = [gen_malformed(ck.rng, foreign=i % 3 == 2) for i in range(150 if tier == "quick" else 1500)]
    chcases = [json.loads(json.dumps(c)) for c in corpus if c.get("kind") == "channel"]
    chcases += [gen_channel(ck.rng, tier) for _ in range(120 if tier == "quick" else 1500)]
    e2e = [gen_e2e_big(ck.rng, i) for i in range(2 if tier == "quick" else 6)] + [gen_e2e(ck.rng) for _ in range(25 if tier == "quick" else 250)]

    # ---------------- real runs
    vb = vbits(variant)
    lines, plan = [], []      # plan: (kind, case, res, first line index)
    for c in hcases + mal:
        res = run_handler(c, work)
        plan.append((c["kind"], c, res, len(lines)))
        lines.append(f"handler {vb} {int(c['buffered'])} {int(c['caller'])} {int(c.get('header', True))} {int(bool(c.get('append')))} "
                     f"{es(c.get('old', ''))} {m_recs(c['recs'])}")
    if loc is not None:
        for c, r in zip(loc_cases, loc["results"]):
            cc = {**c, "via": "locale-C", "recs": r["recs"]}
            res = {"file": bytes.fromhex(r["file"]), "errors": r["errors"], "raised": r["raised"]}
            plan.append(("handler", cc, res, len(lines)))
            lines.append(f"handler {vbits(variant, ascii_stream)} {int(cc['buffered'])} {int(cc['caller'])} 1 {int(bool(cc.get('append')))} "
                         f"{es(cc.get('old', ''))} {m_recs(cc['recs'])}")
    # a share of the cases once more with logging's own stderr report instead of the handleError override
    stderr_checked = 0
    for c in hcases[: (300 if tier == "quick" else 3000)]:
        c2 = json.loads(json.dumps(c))
        res = run_handler(c2, work, stderr_mode=True)
        probs, _ = judge_handler(c2, res)
        stderr_checked += 1
        if probs:
            ck.violation({**c2, "via": "stderr"}, "; ".join(probs), matcher)
    ck.extra["cases_rerun_with_logging_stderr_report"] = stderr_checked
    # formatter alone: every subset x header/caller x id sequence
    fcases = []
    for mask in range(8):
        for caller in (False, True):
            for header in (True, False):
                e = [extras_subset(mask, host=h, port=p, uid=u) for h, p, u in (("dev1", "22", "u"), ("h" * 23, "2222", "uid" * 4), ("", "", ""))]
                fcases.append({"kind": "formatter", "caller": caller, "header": header,
                               "recs": [rec("m %s", ("a",), **e[0]), rec("read: %r", (b"x",), **e[1]), rec("z", (), **e[2])]})
    for c in fcases:
        out = run_formatter(c)
        plan.append(("formatter", c, out, len(lines)))
        i = 1
        for r, o in zip(c["recs"], out):
            lines.append(f"fmt {vb} {int(c['caller'])} {int(c['header'])} {i} {m_rec(r)}")
            if o[0] == "ok":
                i += 1
    for c in chcases:
        res = run_channel(c, work)
        plan.append(("channel", c, res, len(lines)))
        lines.append(m_chan_line(c, res["sessions"]))
    cmdcases = [json.loads(json.dumps(c)) for c in corpus if c.get("kind") == "commandeer"] + gen_commandeer(ck.rng, tier)
    for c in cmdcases:
        res = run_commandeer(c, work)
        plan.append(("commandeer", c, res, len(lines)))
        lines.append(m_commandeer_line(c, res))
    hists, nhist_ex = gen_histories(ck.rng, tier)
    hists = [json.loads(json.dumps(c)) for c in corpus if c.get("kind") == "history"] + hists
    for c in hists:
        res = run_history(c, work)
        plan.append(("history", c, res, len(lines)))
        lines.append(history_api_line(c, vb, res["level0"]))
    for c in e2e:
        res = run_e2e(c, work)
        plan.append(("e2e", c, res, len(lines)))
        lines.append(f"handler {vb} {int(c['buffered'])} {int(c['caller'])} 1 {int(c['mode'].lower() == 'append')} {es(c.get('old', ''))} "
                     f"{m_recs(res['recs'])}")
    # small functions: bytes repr, mode table, the %-operator (template x arity table), extras
    small = []
    for b in PAYLOADS + [bytes([i]) for i in range(256)] + [bytes(ck.rng.randrange(256) for _ in range(ck.rng.randint(0, 20))) for _ in range(200)]:
        small.append((f"repr {hexs(b)}", es(repr(b))))
    for m in ["write", "append", "Write", "APPEND", "w", "a", "", "tacocat", "writeappend"]:
        from scrapli.exceptions import ScrapliException
        from scrapli.logging import enable_basic_logging
        lg = logging.getLogger("scrapli")
        sv = (lg.level, lg.propagate)
        try:
            enable_basic_logging(file=False, mode=m)
            exp = "ok " + es("a" if m.lower() == "append" else "w")
        except ScrapliException:
            exp = "err ScrapliException"
        finally:
            lg.setLevel(sv[0]); lg.propagate = sv[1]
        small.append((f"mode {es(m)}", exp))
    # the %-operator: templates x arities against CPython's own
    tmpls = ["", "plain", "%r", "%s", "a %r b %s c", "%%", "100%% %s", "%s%s", "%r %r %r", "%", "x %", "%%%", "%%%%", "%r%", "%s %% %r", "read: %r"]
    argsets = [(), (b"a",), ("s",), (b"it's", "q\"q"), (1, None, 2.5), (b"\xff", "caf\u00e9", True, "x")]
    for t in tmpls:
        for a in argsets:
            if not a:
                continue      # no args: logging does not apply the operator at all
            try:
                exp = "ok " + es(t % a)
            except Exception:
                exp = "err"
            small.append((f"pyfmt {es(t)} {m_args([encode_arg(x) for x in a])}", exp))
    from scrapli.logging import get_instance_logger
    for h, p, u in itertools.product(["", "h", "10.0.0.1"], [0, 22, 65535], ["", "u"]):
        exx = get_instance_logger("scrapli.c20probe", host=h, port=p, uid=u).extra
        small.append((f"extras {es(h)} {p} {es(u)}", f"{eo(exx.get('host'))} {eo(exx.get('port'))} {eo(exx.get('uid'))}"))
    small0 = len(lines)
    lines += [s[0] for s in small]

    try:
        mout = run_model("C20", lines)
    except Exception as e:
        ck.proof_broken("model driver Drv/C20.lean", repr(e))
        mout = None

    # ---------------- judge
    adv_foreign = legacy_dis = ill_hist = hist_files = 0
    hist_dis = []
    for kind, c, res, li in plan:
        if kind in ("handler", "malformed", "malformed-foreign"):
            indom = kind == "handler" and all(o_wf(r) for r in c["recs"])
            if indom:
                probs, want = judge_handler(c, res)
                nread = sum(1 for r in c["recs"] if is_read(r))
                ck.case(json.dumps(c, sort_keys=True), nontrivial=len(c["recs"]) >= 2 and nread >= 1,
                        sample={"buffered": c["buffered"], "recs": [(r["msg"][:80], str(r["args"])[:80]) for r in c["recs"][:5]]}, tags=tags_of(c))
                if probs:
                    gf = res["file"].decode("utf-8", "replace")
                    if c.get("big"):       # keep the replay readable: where the files part, not megabytes of payload
                        k = next((i for i, (a, b) in enumerate(zip(gf, want)) if a != b), min(len(gf), len(want)))
                        probs.append(f"file has {len(gf)} characters, the rendering {len(want)}; first difference at {k}: got {gf[k:k + 60]!r} want {want[k:k + 60]!r}")
                        gf, want = gf[max(0, k - 200):k + 400], want[max(0, k - 200):k + 400]
                    ck.violation({**c, "got_file": gf, "want_file": want, "errors": res["errors"]}, "; ".join(probs), matcher)
            if mout is not None:
                got = f"{hexs(res['file'])} {','.join(res['errors']) if res['errors'] else '.'}"      # the WHOLE file (old content included)
                if res["raised"]:
                    got += " RAISED"
                if err_offsets(got) != err_offsets(mout[li]):
                    if kind == "malformed-foreign":
                        adv_foreign += 1    # directives CPython knows and the model does not
                    elif matcher(c) is not None and any(f["id"] == matcher(c) and f.get("status") == "open" for f in ck.findings) \
                            and c.get("via") != "locale-C":
                        legacy_dis += 1     # behaviour of an OPEN defect beyond the modelled %-directives
                    else:                   # in-domain AND ill-formed records inside the model's %-fragment: strict
                        ck.disagree("Log model (handler+formatter) vs real classes", c, f"impl={got[-600:]} model={mout[li][-600:]}")
                else:
                    ck.traces_validated += 1
        elif kind == "formatter":
            i = li
            for r, o in zip(c["recs"], res):
                ck.case(("fmt", json.dumps(r, sort_keys=True), c["caller"], c["header"]), nontrivial=True,
                        tags=("formatter-direct", "extras=" + "".join(k[0] for k in ("host", "port", "uid") if r.get(k) is not None)))
                if o[0] != "ok":
                    ck.violation({"kind": "formatter", "caller": c["caller"], "header": c["header"], "recs": [r], "got": o[1]},
                                 f"ScrapliFormatter.format raised {o[1]}", matcher)
                if mout is not None:
                    got = f"ok {es(o[1])}" if o[0] == "ok" else f"err {o[1]}"
                    if got != mout[i]:
                        ck.disagree("Log model (formatMessage) vs ScrapliFormatter", {"rec": r, "caller": c["caller"]}, f"impl={got[:300]} model={mout[i][:300]}")
                    else:
                        ck.traces_validated += 1
                i += 1
        elif kind == "channel":
            probs, want = judge_channel(c, res)
            nreads = sum(1 for s in res["sessions"] for op in s["ops"] if op[0] == "r")
            ck.case(json.dumps(c, sort_keys=True), nontrivial=nreads >= 1 and any(b"\r" in s["served"] for s in res["sessions"]),
                    sample={"sink": c["sink"], "mode": c.get("mode"), "stack": c["stack"], "reads": nreads},
                    tags=("channel", "sink=" + c["sink"], "chan-" + c.get("mode", "write"), c["stack"], f"sessions={len(c['sessions'])}",
                          "cuts=" + "+".join(sorted({s["cuts"][0] for s in c["sessions"]}))))
            if probs:
                ck.violation({**c, "got": hexs(res["content"] or b""), "want": hexs(want or b"")}, "; ".join(probs), None)
            if mout is not None and not res["problems"]:
                recs_all = [r for s in res["sessions"] for r in s["recs"]]
                got = (f"{hexs(res['content'] or (bytes.fromhex(c.get('old', '')) if c['sink'] == 'off' else b''))} "
                       f"{1 if c['sink'] == 'bio' else 0} {enc_emitted(recs_all)}")
                if got != mout[li]:
                    ck.disagree("Log model (channel log) vs real Channel", {k: v for k, v in c.items()}, f"impl={got[:300]} model={mout[li][:300]}")
                else:
                    ck.traces_validated += 1
        elif kind == "commandeer":
            probs, own = judge_commandeer(c, res)
            nafter = sum(1 for op in res["ops"] if op[0] == "r")
            ck.case(json.dumps(c, sort_keys=True), nontrivial=res["commandeered"] and len(res["after"]) > 0,
                    sample={"commandeer": (c["sink_a"], c["sink_b"]), "stack": c["stack"], "on_open": c["on_open"], "reads": nafter},
                    tags=("commandeer", "cmd-orig-sink=" + c["sink_a"], "cmd-new-sink=" + c["sink_b"], "cmd-" + c["stack"],
                          "cmd-on_open" if c["on_open"] else "cmd-no-on_open"))
            slim = {**c, "got_a": hexs(res["content"]["a"] or b"")[-4000:], "got_b": hexs(res["content"]["b"] or b"")[-2000:],
                    "served_before": hexs(res["before"])[-2000:], "served_after": hexs(res["after"])[-4000:]}
            if probs:
                ck.violation(slim, "; ".join(probs), None)
            if own:
                ck.violation(slim, "; ".join(own), lambda cc: "C20-CMD" if ("C20-CMD" in live and cmd_predicate(cc)) else None)
            if mout is not None and not res["problems"]:
                got = (f"{hexs(res['content']['a'] or (bytes.fromhex(c.get('old_a', '')) if c['sink_a'] == 'off' else b''))} "
                       f"{1 if c['sink_a'] == 'bio' else 0} {enc_emitted(res['recs'])}")
                if got != mout[li]:
                    ck.disagree("Log model (one channel log = the original connection's, across commandeer) vs real drivers", c,
                                f"impl={got[:300]} model={mout[li][:300]}")
                else:
                    ck.traces_validated += 1
        elif kind == "history":
            probs, dups = ([], []) if c.get("illformed") else judge_history(c, res)
            ncalls = sum(1 for st in c["steps"] if st["op"] == "enable")
            lastk = []
            for i, st in enumerate(c["steps"]):
                if st["op"] == "enable" and i and c["steps"][i - 1]["op"] == "emit":
                    lastk.append("read" if is_read(c["steps"][i - 1]["rec"]) else "other")
            nfiles = len({st["file"] for st in c["steps"] if st["op"] == "enable" and st.get("file")})
            nconf = sum(1 for st in c["steps"] if st["op"] == "enable" and st.get("file") and _valid_mode(st["mode"]))
            lv = {st.get("level", "debug").lower() for st in c["steps"] if st["op"] == "enable"}
            ck.case(json.dumps(c, sort_keys=True), nontrivial=ncalls >= 2,
                    sample={"history": [st["op"] + ":" + (st.get("file") or st.get("rec", {}).get("msg", ""))[:12] for st in c["steps"]][:8], "end": c["end"]},
                    tags=("history", f"hist-calls={ncalls}", "hist-end=" + c["end"], *("hist-last-before-call=" + k for k in set(lastk)),
                          *(["hist-same-file"] if nfiles < nconf else []), *(["hist-levels-differ"] if len(lv) > 1 else []),
                          *(["hist-file-false"] if any(st["op"] == "enable" and not st.get("file") for st in c["steps"]) else []),
                          *(["hist-invalid-mode"] if any(st["op"] == "enable" and not _valid_mode(st["mode"]) for st in c["steps"]) else []),
                          *(["hist-ill-formed-records"] if c.get("illformed") else [])))
            got_files = {k: (v.decode("utf-8", "replace") if v is not None else None) for k, v in res["files"].items()}
            if c.get("illformed"):
                ill_hist += 1       # records whose own formatting raises: outside the oracle's domain, strict for the correspondence
            else:
                if probs:
                    ck.violation({**c, "got_files": got_files}, "; ".join(probs), None)
                if dups:
                    ck.violation({**c, "got_files": got_files}, "; ".join(dups), lambda cc: "C20-DUP" if ("C20-DUP" in live and dup_predicate(cc)) else None)
            if mout is not None and not res["raised"]:
                got = history_impl_reply(c, res)
                if got != mout[li]:
                    gf, mf = got.split(" ")[0].split(","), mout[li].split(" ")[0].split(",")
                    bad = [a.split(":")[0] for a, b in zip(gf, mf) if a != b] if len(gf) == len(mf) else ["?"]
                    ck.disagree("Log API model (runApi: handler list, levels, files) vs logging API history", c,
                                f"differing files {[HFILES[int(x)] if x.isdigit() else x for x in bad]}; impl={got[-500:]} model={mout[li][-500:]}")
                    if not c.get("illformed") and not probs and not dups:
                        hist_dis.append(c)
                else:
                    ck.traces_validated += 1
                    hist_files += got.split(" ")[0].count(":")
        elif kind == "e2e":
            cc = {"kind": "e2e", "buffered": c["buffered"], "caller": c["caller"], "append": c["mode"].lower() == "append", "old": c.get("old", ""),
                  "recs": res["recs"], "gen": c}
            hres = {"file": res["file"], "errors": ["stderr"] * res["nerr"], "raised": "; ".join(res["problems"]) or None}
            probs, want = judge_handler(cc, hres)
            if res["nhandlers"] != 1 or res["hclass"] != ("ScrapliFileHandler" if c["buffered"] else "FileHandler"):
                probs.append(f"enable_basic_logging installed {res['nhandlers']} handler(s) of class {res['hclass']}")
            ck.case(json.dumps(c, sort_keys=True), nontrivial=len(res["recs"]) > 3, tags=("e2e", "e2e-buffered" if c["buffered"] else "e2e-unbuffered", *(["e2e-big-output>64KiB"] if c.get("big") else [])),
                    sample={"e2e": c["mode"], "records": len(res["recs"])})
            if probs:
                slim = {**cc, "recs": res["recs"][:60], "got_file": res["file"].decode("utf-8", "replace")[:4000], "want_file": want[:4000]}
                ck.violation(slim, "; ".join(probs), lambda _c, cc=cc: matcher(cc))
            if mout is not None:
                got = hexs(res["file"])
                mfile, merrs = mout[li].split(" ")
                if got != mfile or res["nerr"] != (0 if merrs == "." else merrs.count(",") + 1):
                    if matcher(cc) is None:
                        ck.disagree("Log model vs enable_basic_logging session", c, f"impl={got[-600:]} {res['nerr']} model={mout[li][-600:]}")
                    else:
                        legacy_dis += 1
                else:
                    ck.traces_validated += 1
    if mout is not None:
        for k, (req, exp) in enumerate(small):
            if mout[small0 + k] != exp and not (exp == "err" and mout[small0 + k].startswith("err ")):
                ck.disagree("Log model small functions (repr / mode / extras) vs CPython and scrapli", {"request": req}, f"impl={exp} model={mout[small0 + k]}")
            else:
                ck.traces_validated += 1
    ck.extra["advisory_out_of_domain_cases"] = len(mal)
    ck.extra["ill_formed_record_cases_checked_strictly"] = sum(1 for m_ in mal if m_["kind"] == "malformed")
    ck.extra["advisory_out_of_domain_disagreements_foreign_directives"] = adv_foreign
    ck.extra["advisory_disagreements_inside_open_finding_predicates"] = legacy_dis
    ck.extra["history_files_compared_with_runApi"] = hist_files
    ck.extra["history_cases_with_ill_formed_records_correspondence_only"] = ill_hist
    ck.exhaustive = True
    ck.extra["exhaustive_scope"] = (f"all record sequences of <= {nmax} records over a 6-kind alphabet (buffered; <= 3 unbuffered) + all 8 extras "
                                   f"subsets x 11 target lengths x caller_info ({nexh} cases); bytes repr on all 256 single bytes")
    ck.extra["case_counts"] = {"handler": len(hcases), "handler_big_runs": len(big), "malformed_advisory": len(mal), "formatter": len(fcases), "channel": len(chcases), "commandeer": len(cmdcases), "e2e": len(e2e),
                               "history": len(hists), "history_exhaustive": nhist_ex, "small": len(small)}
    return ck.finish()


def replay(path):
    r = json.load(open(path))
    c = (r.get("violation") or {}).get("case") or r.get("case") or {}
    work = Work()
    try:
        kind = c.get("kind", "handler")
        if kind in ("handler", "malformed", "malformed-foreign", "e2e"):
            if kind == "e2e" and "gen" in c:
                res = run_e2e(c["gen"], work)
                c = {**c, "recs": res["recs"]}
                res = {"file": res["file"], "errors": [], "raised": "; ".join(res["problems"]) or None}
            else:
                res = run_handler(c, work)
            probs, want = judge_handler(c, res)
            print("got file:\n" + res["file"].decode("utf-8", "replace"))
            print("want file:\n" + want)
            print("errors:", res["errors"], "raised:", res["raised"])
        elif kind == "history":
            res = run_history(c, work)
            probs, dups = judge_history(c, res)
            probs = probs + dups
            for k, v in res["files"].items():
                print(f"--- file {k}:\n" + (v.decode("utf-8", "replace") if v is not None else "(missing)"))
            print("steps:", [(st["op"], st.get("file") or st.get("rec", {}).get("msg"), st.get("level") or st.get("rec", {}).get("level")) for st in c["steps"]], "end:", c["end"])
            print("level in force at the start:", res["level0"], "refused calls:", res["refused"], "file handlers at the end:", res["nhandlers"])
        elif kind == "commandeer":
            res = run_commandeer(c, work)
            probs, own = judge_commandeer(c, res)
            probs = probs + own
            print("original connection's sink:", c["sink_a"], res["content"]["a"], "\ncommandeering driver's sink:", c["sink_b"], res["content"]["b"])
            print("served before commandeer():", res["before"], "\nserved after commandeer():", res["after"])
        elif kind == "formatter":
            out = run_formatter(c)
            probs = [f"raised {o[1]}" for o in out if o[0] != "ok"]
            print(out)
        else:
            res = run_channel(c, work)
            probs, want = judge_channel(c, res)
            print("got ", res["content"], "\nwant", want)
        print("PROBLEMS:", probs)
        return 1 if probs else 0
    finally:
        work.cleanup()
