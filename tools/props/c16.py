"""C16 — SSH config and known_hosts lookups return that host's entry and only that.
Lean: ScrapliModel/SSHConfig.lean, ScrapliProps/C16.lean.  Real code: scrapli.ssh_config.SSHConfig /
SSHKnownHosts / ssh_config_factory on generated files (fresh temp paths, removed afterwards)."""
import base64, hashlib, hmac, itertools, json, os, re, shutil, tempfile
from collections import OrderedDict
from pathlib import Path

from vlib.common import VERIF, Check, run_model
import translate

PID = "C16"
ATTRS_SET = ("hostname", "port", "user", "identities_only", "identity_file")  # what a config file can set


# =====================================================================================================
# independent statement of the property (oracle).  Knows nothing of the model or of scrapli.
# =====================================================================================================
def glob_match(p, s):
    """whole-name glob: `*` any run, `?` one character, everything else literal (ASCII case-insensitive)"""
    p, s = p.lower() if p.isascii() else p, s.lower() if s.isascii() else s
    prev = [True] + [False] * len(s)           # prev[j]: p[:i] matches s[:j]
    for ch in p:
        cur = [False] * (len(s) + 1)
        if ch == "*":
            acc = False
            for j in range(len(s) + 1):
                acc = acc or prev[j]
                cur[j] = acc
        else:
            for j in range(1, len(s) + 1):
                cur[j] = prev[j - 1] and (ch == "?" or ch == s[j - 1])
        prev = cur
    return prev[len(s)]


def captured(p, s):
    """characters of s taken by wildcards when p matches s entirely"""
    return len(s) - sum(1 for c in p if c not in "*?")


def spec_entries(blocks):
    """the file as a mapping Host line -> own options; a repeated Host line replaces the earlier block
    (the position of the first one is kept); `Host *` exists implicitly"""
    ent = OrderedDict()
    for pats, opts in blocks:
        ent[" ".join(pats)] = (list(pats), dict(opts))
    if "*" not in ent:
        ent["*"] = (["*"], {})
    return ent


def spec_score(pats, name):
    sc = [captured(p, name) for p in pats if glob_match(p, name)]
    return min(sc) if sc else None


def spec_primary(ent, name):
    if name in ent:
        return name, "exact"
    for k, (pats, _) in ent.items():
        if name in pats:
            return k, "listed"
    best = None
    for k, (pats, _) in ent.items():
        sc = spec_score(pats, name)
        if sc is not None and (best is None or sc < best[0]):
            best = (sc, k)
    return (best[1], "glob") if best else ("*", "default")


def spec_lookup(blocks, name):
    """-> (primary key, how, {attr: value}) : own options of the primary entry, unset ones from the other
    entries matching the whole name in order of increasing wildcard-captured characters, then `Host *`"""
    ent = spec_entries(blocks)
    prim, how = spec_primary(ent, name)
    donors = []
    for i, (k, (pats, _)) in enumerate(ent.items()):
        if k in (prim, "*"):
            continue
        sc = spec_score(pats, name)
        if sc is not None:
            donors.append((sc, i, k))
    order = [prim] + [k for _, _, k in sorted(donors)] + (["*"] if prim != "*" else [])
    res = {}
    for k in order:
        for a, v in ent[k][1].items():
            if a != "hostname" and a not in res:
                res[a] = v
    if "hostname" in ent[prim][1]:
        res["hostname"] = ent[prim][1]["hostname"]   # HostName is not an inherited option in scrapli (not in HOST_ATTRS)
    return prim, how, res


def names_it(pats, key, name):
    return key == "*" or key == name or any(glob_match(p, name) for p in pats)


# ---- helpers for the narrow predicates of the known findings (harness' own unanchored matcher)
def _rx(p):
    return re.compile("".join("(.*)" if c == "*" else "(.)" if c == "?" else re.escape(c) for c in p), re.I)


def occurs(p, text):
    return _rx(p).search(text) is not None


META = set("\\[{()+^$|")


def has_meta(blocks):
    return any(c in META for pats, _ in blocks for p in pats for c in p)


def unanchored_hit(blocks, name):
    """some Host pattern occurs inside the looked-up name without matching it entirely"""
    return any(occurs(p, name) and not glob_match(p, name) for pats, _ in blocks for p in pats)


def line_donors(ent, prim):
    """non-* entries, other than prim, that can feed prim through _merge_hosts: a pattern of theirs occurs in
    the TEXT of a Host line that (transitively) feeds prim"""
    reach, todo = {prim}, [prim]
    while todo:
        t = todo.pop()
        for k, (pats, _) in ent.items():
            if k not in reach and any(occurs(p, t) for p in pats):
                reach.add(k); todo.append(k)
    return reach - {prim, "*"}


# ---- the MECHANISM of the two open lookup findings, written out: candidates by unanchored search, score = characters
# captured by the leftmost-greedy match, inheritance decided once by searching the patterns in the TEXT of the Host
# lines.  A deviation from the specification is attributed to those findings only if the real answer is exactly what
# this mechanism yields -- anything else (a changed merge, a changed tie-break ...) is a NEW violation.
_RX_CACHE = {}


def _search_score(p, text):
    rx = _RX_CACHE.get(p)
    if rx is None:
        rx = _RX_CACHE[p] = _rx(p)
    m = rx.search(text)
    return None if m is None else sum(e - b for b, e in m.regs[1:])


def _finding_fuzzy(name, keys):
    best = None
    for k in keys:
        for p in k.split():
            sc = _search_score(p, name)
            if sc is not None and (best is None or sc < best[0]):
                best = (sc, k)
    return best[1] if best else "*"


def finding_table(blocks):
    ent = spec_entries(blocks)
    table = OrderedDict((k, dict(o)) for k, (_, o) in ent.items())
    for host in table:
        cur = list(table)
        while True:
            fm = _finding_fuzzy(host, cur or list(table))
            for a in ATTRS_SET:
                if a != "hostname" and not table[host].get(a) and table[fm].get(a):
                    table[host][a] = table[fm][a]
            if fm in cur:
                cur.remove(fm)
            else:
                break
    return table


def finding_lookup(blocks, name, _cache={}):
    key = json.dumps(blocks, sort_keys=True)
    if _cache.get("key") != key:
        _cache.clear()
        _cache.update(key=key, blocks=blocks, table=finding_table(blocks))
    table = _cache["table"]
    if name in table:
        k = name
    else:
        k = next((k for k in table if name in k.split()), None) or _finding_fuzzy(name, list(table))
    return k, {a: conv(a, v) for a, v in table[k].items()}


def conv(a, v):
    return int(v) if a == "port" else os.path.expanduser(v) if a == "identity_file" else v


HOSTWORD = re.compile(r"\bhost(?=\s|$)", re.I)


def parser_host_word(text):
    """the word `host` followed by a blank / end occurs somewhere else than as a Host keyword at line start"""
    for line in text.splitlines():
        ms = list(HOSTWORD.finditer(line))
        for m in ms:
            if line[:m.start()].strip() != "":
                return True
            if m.end() == len(line.rstrip()) and line[:m.start()].strip() == "":
                return True  # a bare `host` line
    return False


HOSTEQ = re.compile(r"^[ \t]*host=", re.I | re.M)


def parser_host_equals(text):
    """a Host keyword directly followed by `=` (no blank) that is not the first Host line of the file"""
    ms = list(re.finditer(r"^[ \t]*host[ \t=]", text, re.I | re.M))
    return any(HOSTEQ.match(text, m.start()) for m in ms[1:])


def parser_last_char(text):
    t = text.rstrip()
    return bool(t) and not re.match(r"\w", t[-1])


# =====================================================================================================
# structured configs -> text (every supported spelling)
# =====================================================================================================
KW = {"hostname": "HostName", "port": "Port", "user": "User", "identities_only": "IdentitiesOnly", "identity_file": "IdentityFile"}
UNKNOWN_LINES = ["ForwardAgent yes", "StrictHostKeyChecking no", "ProxyJump bastion1", "ServerAliveInterval 30",
                 "UserKnownHostsFile /dev/null", "Compression=yes"]


def spell_kw(rng, kw):
    return rng.choice([kw, kw, kw.lower(), kw.upper(), kw.swapcase(), kw.capitalize()])


def render(rng, blocks, plain=False, comment_words=("managed by ansible", "lab gear", "x")):
    """text of the config; plain=True: one canonical spelling"""
    out = []
    if not plain and rng.random() < 0.3:
        out.append("# " + rng.choice(comment_words))
    if not plain and rng.random() < 0.15:
        out.append("")
    for pats, opts in blocks:
        sep = " " if plain else rng.choice([" ", " ", "  ", "\t", " = ", " ="] if rng.random() < 0.85 else ["=", "= "])
        ind0 = "" if plain else rng.choice(["", "", "", " ", "\t"])
        hl = ind0 + ("Host" if plain else spell_kw(rng, "Host")) + sep + (" " if plain else rng.choice([" ", " ", "  ", "\t"])).join(pats)
        if not plain and rng.random() < 0.1:
            hl += rng.choice([" # " + rng.choice(comment_words), "\t#x"])
        out.append(hl)
        items = list(opts.items())
        if not plain:
            rng.shuffle(items)
        ind = "  " if plain else rng.choice(["", "  ", "    ", "\t", " \t"])
        for a, v in items:
            if not plain and rng.random() < 0.12:
                out.append(ind + rng.choice(UNKNOWN_LINES))
            if not plain and rng.random() < 0.08:
                out.append(rng.choice(["", "   ", ind + "# " + rng.choice(comment_words), "#"]))
            s = " " if plain else rng.choice([" ", " ", "  ", "\t", "=", " = ", " =", "= "])
            out.append(ind + (KW[a] if plain else spell_kw(rng, KW[a])) + s + str(v))
        if not plain and rng.random() < 0.06:
            # an option keyword WITHOUT a value (blank or `=` then end of line), only for options the block does not set:
            # means nothing (unset); must certainly not make the constructor raise
            unset = [a for a in KW if a not in opts]
            if unset:
                out.append(ind + spell_kw(rng, KW[rng.choice(unset)]) + rng.choice([" ", "  ", " =", "=", "\t"]))
        if not plain and rng.random() < 0.5:
            out.append("")
    nl = "\n" if plain else rng.choice(["\n", "\n", "\n", "\r\n"])
    text = nl.join(out)
    if plain or rng.random() < 0.8:
        text += nl
    return text


def expected_parse(blocks):
    """what the text means, as the sequence of Host objects of the parse loop: [(hosts, {attr: value})]"""
    out = []
    for pats, opts in blocks:
        o = dict(opts)
        if "port" in o:
            o["port"] = int(o["port"])
        if "identity_file" in o:
            o["identity_file"] = os.path.expanduser(o["identity_file"])
        out.append((" ".join(pats), o))
    return out


# ---- generators
BASES = ["foo", "web", "web1", "db-1", "r1.lab.net", "10.0.0.1", "myhost", "hostA", "ahost1", "sw_2", "a", "ab", "o", "Core1", "x.y"]
WILDS = ["*", "?", "web*", "*web", "*web*", "web?", "web??", "*.lab.net", "r?.lab.net", "10.0.0.?", "10.0.*", "a*", "a?", "*a", "?b",
         "f*o", "fo?", "*o*", "**", "*?", "db-*", "Core*", "core?", "x.*", "*.y"]
METAS = ["a[b", "r1+", "sw(1)", "a|b", "c$", "^d", "x{2}", "web[12]", "(", "b)", "a+b", "fo+", "$", "[a-z]oo"]
HOSTWORDS = ["my-host", "a.host", "host", "jump-host"]


def gen_pattern(rng, kinds):
    k = rng.choice(kinds)
    if k == "base":
        return rng.choice(BASES)
    if k == "wild":
        return rng.choice(WILDS)
    if k == "meta":
        return rng.choice(METAS)
    if k == "hostword":
        return rng.choice(HOSTWORDS)
    # mutate a base into a pattern
    b = rng.choice(BASES)
    i = rng.randrange(len(b) + 1)
    j = rng.randrange(i, len(b) + 1)
    return b[:i] + rng.choice(["*", "?", "*", ""]) + b[j:] or "*"


def gen_blocks(rng, kinds, nmax=5):
    n = rng.choice([0, 1, 1, 2, 2, 3, 3, 4, nmax])
    blocks = []
    for bi in range(n):
        np_ = rng.choice([1, 1, 1, 2, 3])
        pats = [gen_pattern(rng, kinds) for _ in range(np_)]
        if rng.random() < 0.12:
            pats = ["*"]
        if blocks and rng.random() < 0.08:
            pats = list(rng.choice(blocks)[0])     # duplicate Host line
        opts = {}
        for a in ATTRS_SET:
            if rng.random() < 0.45:
                opts[a] = {"hostname": f"h{bi}.example.net", "port": str(1000 + bi), "user": f"u{bi}",
                           "identities_only": rng.choice(["yes", "no", "YES"]),
                           "identity_file": rng.choice([f"~/.ssh/k{bi}", f"/keys/k{bi}_rsa", f"~/.ssh/id-{bi}@x"])}[a]
        blocks.append((pats, opts))
    return blocks


def gen_names(rng, blocks, k=6):
    pats = [p for ps, _ in blocks for p in ps] or ["foo"]
    out = []
    for _ in range(k):
        p = rng.choice(pats)
        m = rng.random()
        inst = "".join(rng.choice(["", "1", "x", "ab", "9999", ".lab"]) if c == "*" else rng.choice("1xZ.") if c == "?" else c for c in p)
        if m < 0.2:
            out.append(p)                                   # the pattern text itself (exact / listed)
        elif m < 0.4:
            out.append(inst)                                # wildcard hit
        elif m < 0.5:
            out.append(inst[:-1])                           # prefix
        elif m < 0.6:
            out.append(inst[1:])                            # suffix
        elif m < 0.75:
            out.append(rng.choice(["", "x", "my"]) + inst + rng.choice(["bar", "1", ""]))   # superstring
        elif m < 0.85:
            out.append(rng.choice([inst.upper(), inst.swapcase(), inst.lower()]))           # case variant
        elif m < 0.9:
            out.append(" ".join(rng.choice(blocks)[0]) if blocks else "")                   # a whole Host line
        elif m < 0.95:
            out.append(rng.choice(BASES))
        else:
            out.append(rng.choice(["", "*", "?", "zzz", "a b"]))
    return out


def gen_overlap_configs():
    """an exactly named entry matched by 2-3 wildcard entries that OVERLAP on it but do not match one another
    (prefix*, *suffix, pre*suf), each setting a different option, optionally Host *, in every block order"""
    out = []
    for name, pats in (("sw1.lab", ["sw1*", "*.lab", "s*b"]), ("core-7.dc2", ["core-*", "*.dc2", "c?re*2"]), ("web01", ["web*", "*01", "w*1"])):
        opts = [("port", "2201"), ("user", "labadmin"), ("identity_file", "/keys/overlap_rsa")]
        for nw in (2, 3):
            for with_star in (False, True):
                for own in ({}, {"identities_only": "yes"}):
                    blocks = [([name], dict(own))] + [([p], {a: v}) for p, (a, v) in zip(pats[:nw], opts[:nw])]
                    if with_star:
                        blocks.append((["*"], {opts[nw % 3][0]: "9" if opts[nw % 3][0] == "port" else "star" if opts[nw % 3][0] == "user" else "/keys/star"}))
                    for perm in itertools.permutations(blocks):
                        out.append(([(list(p), dict(o)) for p, o in perm], [name, name.upper(), name + "x", "x" + name, name[:-1]]))
    return out


# =====================================================================================================
# real code
# =====================================================================================================
class Tmp:
    def __init__(self):
        self.d = tempfile.mkdtemp(prefix="c16-")
        self.n = 0

    def write(self, text):
        self.n += 1
        p = os.path.join(self.d, f"f{self.n}")
        with open(p, "w", encoding="utf-8", newline="") as f:
            f.write(text)
        return p

    def close(self):
        shutil.rmtree(self.d, ignore_errors=True)


def host_obs(h, attrs):
    return (h.hosts, h.hostname, tuple(getattr(h, a) for a in attrs))


def real_parse(text):
    """the dict `_parse` returns for this text (before `*` insertion and merging), as [(hosts, hostname, attrs)]"""
    from scrapli.ssh_config import SSHConfig
    o = SSHConfig.__new__(SSHConfig)
    o.ssh_config = text.replace("\r\n", "\n").replace("\r", "\n")   # Path.read_text: universal newlines
    return o._parse()


def real_lookup(path, name, attrs):
    from scrapli.ssh_config import SSHConfig
    try:
        c = SSHConfig(path)
        return ("ok", host_obs(c.lookup(name), attrs))
    except Exception as e:  # noqa
        return ("exc", type(e).__name__ + ": " + str(e))


# =====================================================================================================
# model I/O
# =====================================================================================================
def hx(s):
    b = s.encode("utf-8")
    return b.hex() if b else "-"


def unhx(s):
    return "" if s == "-" else bytes.fromhex(s).decode("utf-8")


def enc_val(v):
    if v is None:
        return "n"
    if isinstance(v, int):
        return f"i{v}"
    return "s" + hx(v)


def dec_val(s):
    if s == "n":
        return None
    if s[0] == "i":
        return int(s[1:])
    return unhx(s[1:])


def enc_entries(entries):
    """entries: [(hosts, hostname, (attr values...))]"""
    if not entries:
        return "."
    return ";".join(f"{hx(h)}/{enc_val(hn)}/{','.join(enc_val(v) for v in at)}" for h, hn, at in entries)


def model_line(name, entries):
    return f"L {hx(name)} {enc_entries(entries)}"


def dec_model(line):
    f = line.split(" ")
    if f[0] == "err":
        return ("err", f[1])
    if f[0] != "ok":
        raise ValueError(f"model said {line!r}")
    return ("ok", (unhx(f[1]), dec_val(f[2]), tuple(dec_val(x) for x in f[3].split(","))))


def entries_of(parsed_seq, attrs, dflt):
    out = []
    for hosts, o in parsed_seq:
        out.append((hosts, o.get("hostname", dflt["hostname"]), tuple(o.get(a, dflt[a]) for a in attrs)))
    return out


def ascii_ok(blocks, name):
    return name.isascii() and "\n" not in name and all(p.isascii() for ps, _ in blocks for p in ps)


# =====================================================================================================
# known findings: narrow predicates (matcher) -- any violation not matching one of them is NEW
# =====================================================================================================
F_UNANCH = "F14-unanchored-match"
F_META = "F14-regex-metachar"
F_MERGE = "F14-inherit-by-host-line"
F_PHOST = "F14-parser-host-word"
F_PLAST = "F14-parser-last-char"
F_PEQ = "F14-parser-host-equals"
F_KH = "F14-known-hosts-fields"
F_PORT = "F14-empty-port-value"
EMPTY_PORT = re.compile(r"^[ \t]*port[ \t=]+$", re.I | re.M)


def matcher(case):
    """case carries: kind, blocks, name, text?, got_primary, spec_primary, attr, origin.  Returns finding id or None."""
    k = case.get("kind")
    blocks = [(list(p), dict(o)) for p, o in case.get("blocks", [])]
    name = case.get("name", "")
    text = case.get("text")
    if k == "kh":
        # the only lines recording the name carry a comment field / are separated by more than one blank
        if case.get("parser_case"):
            return F_KH if case.get("odd_spelling") else None
        if case.get("only_extra_lines_record") and case.get("got") == ["ok", None]:
            return F_KH
        # a three-token comment line `# x y` read as an entry for the host `#`
        return F_KH if case.get("name") == "#" and case.get("comment3") and not case.get("want_any_of") else None
    if has_meta(blocks) and case.get("meta_live"):
        # F14-regex-metachar: a Host pattern contains one of \ [ { ( ) + ^ $ | and the tree does not escape it
        return F_META
    if text is not None and case.get("parser_differs"):
        if EMPTY_PORT.search(text.replace("\r\n", "\n")):
            return F_PORT
        if parser_host_word(text):
            return F_PHOST
        if parser_host_equals(text):
            return F_PEQ
        if parser_last_char(text):
            return F_PLAST
        return None
    ent = spec_entries(blocks)
    if k == "raise":
        # a Port keyword with an empty value: int("") in _parse
        return F_PORT if text is not None and EMPTY_PORT.search(text.replace("\r\n", "\n")) and str(case.get("got", "")).startswith("ValueError") else None
    if k in ("only", "primary", "inherit"):
        # narrow: the real answer must be exactly what the recorded mechanism (finding_lookup) yields
        fk, fv = finding_lookup(blocks, name)
        if case.get("got_primary") != fk:
            return None
        if k in ("only", "inherit") and (case.get("got_value") or None) != (fv.get(case.get("attr")) or None):
            return None
    if k == "only":          # a value came from an entry that does not name the host
        owners, prim = case.get("owners") or [], case.get("got_primary")
        if not owners or prim not in ent:
            return None
        if prim in owners:
            return F_UNANCH if any(occurs(p, name) and not glob_match(p, name) for p in ent[prim][0]) else None
        return F_MERGE if set(owners) & line_donors(ent, prim) else None
    if k == "primary":       # another entry than the spec's was selected
        return F_UNANCH if unanchored_hit(blocks, name) else None
    if k == "inherit":       # same primary entry, an inherited option differs
        prim, a = case.get("got_primary"), case.get("attr")
        if prim not in ent or a in ent[prim][1]:
            return None
        others = {k2 for k2, (pats, _) in ent.items() if k2 not in (prim, "*") and any(glob_match(p, name) for p in pats)}
        return F_MERGE if (others | line_donors(ent, prim)) else None
    return None


# =====================================================================================================
# known_hosts
# =====================================================================================================
def kh_hash(salt, name):
    return hmac.new(salt, name.encode("utf-8"), hashlib.sha1).digest()


def kh_hashed_id(rng, name):
    salt = bytes(rng.randrange(256) for _ in range(20))
    return "|1|" + base64.b64encode(salt).decode() + "|" + base64.b64encode(kh_hash(salt, name)).decode()


KH_NAMES = ["172.18.0.11", "172.18.0.1", "sw1", "sw1.lab.net", "sw10", "SW1", "[r1]:2222", "r1", "10.0.0.1", "a", "foo", "foobar", "xfoo", "h,x"]
KH_TYPES = ["ssh-rsa", "ssh-ed25519", "ecdsa-sha2-nistp256", "ssh-dss"]


def gen_kh(rng):
    """-> list of lines: dict(kind=plain|list|hashed|extra|hextra|comment|marker, hosts=[names], field, kt, pk, text);
    extra / hextra = a plain-or-listed / hashed line in a legal but unusual spelling"""
    n = rng.choice([0, 1, 2, 3, 4, 6])
    lines = []
    for i in range(n):
        kt, pk = rng.choice(KH_TYPES), f"AAAAC3Nza{i}k{rng.randrange(1000)}+/="
        m = rng.random()
        if m < 0.35:
            hs = [rng.choice(KH_NAMES[:-1])]
            field, kind = hs[0], "plain"
        elif m < 0.6:
            hs = rng.sample(KH_NAMES[:-1], rng.choice([2, 3]))
            field, kind = ",".join(hs), "list"
        else:
            hs = [rng.choice(KH_NAMES[:-1])]
            field, kind = kh_hashed_id(rng, hs[0]), "hashed"
        text = f"{field} {kt} {pk}"
        if rng.random() < 0.15:
            # legal known_hosts spellings: trailing comment field, runs of blanks / tabs, leading blanks, trailing blanks,
            # key types with @ and . (sk-...@openssh.com)
            if rng.random() < 0.25 and kind != "hashed":
                kt = "sk-ssh-ed25519@openssh.com"
            kind = "hextra" if kind == "hashed" else "extra"
            text = rng.choice([f"{field} {kt} {pk} root@bastion", f"{field}  {kt} {pk}", f"{field} {kt}\t {pk}", f"{field}\t{kt}\t{pk}\tadded by ops 2024",
                               f"  {field} {kt} {pk}", f"{field} {kt} {pk}  ", f"{field} {kt} {pk} # c"])
            if kt.startswith("sk-") and text == f"{field} {kt} {pk}":
                text += " "
        lines.append(dict(kind=kind, hosts=hs, field=field, kt=kt, pk=pk, text=text))
        r = rng.random()
        if r < 0.15:
            lines.append(dict(kind="comment", text=rng.choice(["# comment", "#", "", "# a b c d", "# a b", "#sw1 ssh-rsa AAAA"])))
        elif r < 0.22:
            # marker lines: the key is NOT a key to trust for the listed hosts (revoked / a CA key)
            lines.append(dict(kind="marker", text=rng.choice([f"@revoked {rng.choice(KH_NAMES[:-1])} ssh-rsa AAAAREVOKED{i}",
                                                              f"@cert-authority *.lab.net,sw1 ssh-ed25519 AAAACA{i} ca@x",
                                                              f"@revoked {rng.choice(KH_NAMES[:-1])} ssh-rsa AAAAREVOKED{i} why"])))
    return lines


REC_KINDS = ("plain", "list", "hashed", "extra", "hextra")


def kh_recording(lines, name):
    """the lines that record a key for `name` (independent: literal listing or HMAC-SHA1 of the name under the id's salt);
    comment lines and marker lines (@revoked / @cert-authority) record nothing"""
    out = []
    for l in lines:
        if l["kind"] in ("plain", "list", "extra"):
            if name in l["field"].split(","):
                out.append(l)
        elif l["kind"] in ("hashed", "hextra"):
            _, _, s, h = l["field"].split("|")
            if hmac.compare_digest(kh_hash(base64.b64decode(s), name), base64.b64decode(h)):
                out.append(l)
    return out


def kh_spec(lines, name):
    return [(l["kt"], l["pk"]) for l in kh_recording(lines, name)]


def real_kh_parse(text):
    from scrapli.ssh_config import SSHKnownHosts
    o = SSHKnownHosts.__new__(SSHKnownHosts)
    o.ssh_known_hosts = text
    return OrderedDict((k, (v["key_type"], v["public_key"])) for k, v in o._parse().items())


def kh_mark_kept(lines):
    """per line: what does the real line parser make of it?  l["model"] = [(host field, key type, key)] or [] when the
    line is dropped.  The model gets exactly these (the parser itself is compared with the structured lines separately)."""
    for l in lines:
        if "model" in l:
            continue
        try:
            d = real_kh_parse(l["text"] + "\n")
        except Exception:  # noqa
            d = {}
        vals = list(dict.fromkeys(d.values()))
        l["model"] = [(",".join(k for k in d if d[k] == v), v[0], v[1]) for v in vals]


def kh_expected_parse(lines):
    d = OrderedDict()
    for l in lines:
        if l["kind"] in REC_KINDS:
            for h in l["field"].split(","):
                d[h] = (l["kt"], l["pk"])
    return d


def kh_odd_spelling(lines):
    return any(l["kind"] in ("extra", "hextra") or (l["kind"] == "comment" and len(l["text"].split()) == 3) for l in lines)


def _kh_model_fields(lines, names):
    ls, hm = [], []
    for l in lines:
        for field, kt, pk in l.get("model", []):
            ls.append(f"{hx(field)}/{hx(kt)}/{hx(pk)}")
            for hid in field.split(","):
                parts = hid.split("|")
                if hid.startswith("|1|") and len(parts) == 4:
                    for nm in names:
                        try:
                            r = "t" if kh_hash(base64.b64decode(parts[2]), nm) == base64.b64decode(parts[3]) else "f"
                        except Exception:
                            r = "x"
                        hm.append((parts[2], parts[3], nm, r))
    return ls, hm


def kh_model_line(lines, name):
    ls, hm = _kh_model_fields(lines, [name])
    return f"K {hx(name)} {';'.join(ls) or '.'} {';'.join(f'{hx(a)}/{hx(b)}/{r}' for a, b, _, r in hm) or '.'}"


def real_kh(path, name):
    from scrapli.ssh_config import SSHKnownHosts
    try:
        r = SSHKnownHosts(path).lookup(name)
        return ("ok", (r["key_type"], r["public_key"]) if r else None)
    except Exception as e:  # noqa
        return ("exc", type(e).__name__)



# =====================================================================================================
# the TEXT PARSERS in the model (parseCfg / khParse, ScrapliModel/SSHConfigParse.lean) vs the real regex parsers
# =====================================================================================================
CFG_QUIRKS = [
    "Host a\n  HostName\n  foo\n", "Host \n  HostName foo\n", "Host a\n HostName \n User bob\n", "Host a b # c\n", "Host \"a b\" c\n",
    "Host 'a\n", "Host a\\\n", "Host a\\ b\n", "Host \"a\\\"b\" \"c\\d\" 'e\\f'\n", "Host a\nMatch all\n User x\nHost b\n User y\n",
    "  host=a\nhostname=x\n", "Host a\nPort 22 \n", "Host a\nPort\n22\n", "Host a\nUser\nbob\n", "Host a\nIdentitiesOnly yes\nIdentitiesOnly no\n",
    "Host a\nIdentitiesOnly yesno\n", "Host a\nIdentitiesOnly YeS\n", "hostname foo\nHost a\n", "Host a\n User carl # x\n", "Host a\n User=\n",
    "Host a\n User = = b\n", "Host\n", "Host", "Host ", "Host =", "Host a\n\x0bUser b\n", "Host \"\" b\n", "Host a#b c\n", "Host a #b\n c\n",
    "Host a\n Port 007\n", "Host a\n Port 12x\n Port 13\n", "Host a\n User \n User b\n", "Host a\n IdentityFile ~\n", "Host a\n IdentityFile ~/x/~y\n",
    "Host a\n IdentityFile \n\n Port 5\n", "Host a\nHostName =\n=x\n", "match host a\nHost b\n", "Host a\n  matchx y\n User u\n", "Host a\n Match\n User u\n",
    "Host a\n Match=x\n User u\nhost b\n", "hostess a\nHost b\n", "Host a\n\n\n   \n User u", "\nHost a", "Host a\nHost a\n User u\nHost b\nHost a\n Port 1\n",
    "Host a\tb\x0cc\n", "Host a\n User u\x0c\n", "Host a\n User\x0cu\n", "HOST A\nUSER U\nhOsTnAmE h.x\niDENTITIESoNLY NO\n", "Host a\\\n b\n", "Host a '\n'\n",
    "", "\n", "# only a comment\n", "User u\n", "Host *\n Port 1\nHost *\n User u\n",
]
KH_QUIRKS = [
    "a b c", "a b\n", " a  ssh-rsa\tK c d\n", "#a b c\n", "@x a b c\n", "a ssh+rsa K\n", "a ssh-rsa K\x0b\n", "a\x0bb ssh-rsa K\n", ", ssh-rsa K\n",
    "a,,b t k\n", "a t k\na t2 k2\n", " \t# a b c\n", "  @revoked a b c\n", "a\tt\tk\t\n", "a t k \n", "a t k\x0cx\n", "\n\na t k\n\n", "a t  \n", "a  t\n k\n",
    "a# t k\n", "a @t k\n", "a t. k#\n", "", "\n", "|1|x|y ssh-rsa K\n", "a t k\rb t k\n", "a\x1ct k\n",
]
CFG_TOKENS = [" ", "\t", "=", "#", "\n", "\"", "'", "\\", "host ", "Host=", "Match all\n", "match ", "hostname", "Port ", "User", "\n\n", " # c", "yes", "no",
              "~", "/", "@", "0", "x", "\x0b", "\x0c", "\nHost q\n", "Port\n", "IdentitiesOnly "]
KH_TOKENS = [" ", "\t", "#", "@", ",", "|", "\n", "\x0b", "+", "x", "  ", "\n#", "\n@", " c"]


def mutate_text(rng, text, tokens):
    """1-3 small edits: insert a token, delete a character / a line, duplicate / swap lines, truncate, join lines"""
    for _ in range(rng.choice([1, 1, 2, 3])):
        m = rng.random()
        if m < 0.45 or not text:
            i = rng.randrange(len(text) + 1)
            text = text[:i] + rng.choice(tokens) + text[i:]
        elif m < 0.6:
            i = rng.randrange(len(text))
            text = text[:i] + text[i + 1:]
        else:
            ls = text.split("\n")
            i = rng.randrange(len(ls))
            if m < 0.7:
                del ls[i]
            elif m < 0.8:
                ls.insert(i, ls[i])
            elif m < 0.9:
                j = rng.randrange(len(ls))
                ls[i], ls[j] = ls[j], ls[i]
            elif m < 0.95:
                ls[i] = ls[i].rstrip().rsplit(" ", 1)[0] if " " in ls[i].strip() else ls[i]
            else:
                ls = ls[: i + 1]
            text = "\n".join(ls)
    return text


def unl(text):
    return text.replace("\r\n", "\n").replace("\r", "\n")


def real_parse_obs(text, attrs):
    """the dict `SSHConfig._parse` returns, in order, or the exception"""
    try:
        return ("ok", [host_obs(v, attrs) for v in real_parse(text).values()])
    except Exception as e:  # noqa
        return ("exc", type(e).__name__)


def dec_entries(line):
    f = line.split(" ")
    if f[0] == "err":
        return ("exc", {"valueError": "ValueError"}.get(f[1], f[1]))
    if f[0] != "ok":
        raise ValueError(f"model said {line!r}")
    if f[1] == ".":
        return ("ok", [])
    out = []
    for e in f[1].split(";"):
        h, hn, at = e.split("/")
        out.append((unhx(h), dec_val(hn), tuple(dec_val(x) for x in at.split(","))))
    return ("ok", out)


def real_kh_parse_obs(text):
    try:
        return ("ok", [(k, v[0], v[1]) for k, v in real_kh_parse(text).items()])
    except Exception as e:  # noqa
        return ("exc", type(e).__name__)


def dec_kh_entries(line):
    f = line.split(" ")
    if f[0] != "ok":
        return ("exc", f[1] if len(f) > 1 else "")
    if f[1] == ".":
        return ("ok", [])
    return ("ok", [tuple(unhx(x) for x in e.split("/")) for e in f[1].split(";")])


def kh_hm_table(text, names):
    """HMAC answers for every |1|salt|hash token of the text (the model's `hm` parameter), per name: only one name per
    request is supported by the K / PKL op"""
    out = []
    for tok in set(re.findall(r"\|1\|[^\s,|]*\|[^\s,|]*", text)):
        parts = tok.split("|")
        if len(parts) == 4:
            for nm in names:
                try:
                    r = "t" if kh_hash(base64.b64decode(parts[2]), nm) == base64.b64decode(parts[3]) else "f"
                except Exception:
                    r = "x"
                out.append((parts[2], parts[3], nm, r))
    return out


def parser_tie_requests(ck, tier, D, files, kh_texts, tmp, reqs, stats):
    """requests PC / PL / PK / PKL for generated (valid) texts, their mutations and a list of quirk texts.
    -> list of (kind, request index, real observation, case dict, gating)"""
    rng, attrs, dflt = ck.rng, D["host_attrs"], D["defaults"]
    home = os.path.expanduser("~")
    pend = []
    valid = [(unl(t), fi) for t, fi in files.items()]
    if tier == "quick":
        valid = [v for i, v in enumerate(valid) if "exhaustive" not in v[1]["tags"] or i % 6 == 0]
    texts = [(t, "valid", fi) for t, fi in valid]
    nmut = 2   # mutations per valid text (thorough has ~17x more valid texts; 4 per text made thorough ~19 min on a loaded machine)
    for t, fi in valid:
        if "exhaustive" in fi["tags"] and rng.random() < 0.7:
            continue
        for _ in range(nmut):
            texts.append((mutate_text(rng, t, CFG_TOKENS), "mutated", fi))
    texts += [(q, "quirk", None) for q in CFG_QUIRKS]
    seen = set()
    for t, kind, fi in texts:
        if (t, kind != "valid") in seen:
            continue
        seen.add((t, kind != "valid"))
        gate = t.isascii() and "\r" not in t
        real = real_parse_obs(t, attrs)
        ck.case(("parse-cfg", t), nontrivial=bool(t.strip()), sample={"text": t[:200], "real_parse": str(real)[:200]},
                tags=("parser", "parser=cfg-" + kind, "parse=" + real[0]))
        case = {"kind": "parse", "text": t}
        if kind == "valid":
            # oracle: a generated well-formed file parses to exactly the entries written in it
            exp = OrderedDict()
            for h, o in expected_parse(fi["blocks"]):
                exp[h] = (h, o.get("hostname", dflt["hostname"]), tuple(o.get(a, dflt[a]) for a in attrs))
            norm = lambda l: [(h, hn or None, tuple(x or None for x in at)) for h, hn, at in l]   # noqa: E731  ("" = unset)
            if real[0] != "ok" or norm(real[1]) != norm(list(exp.values())):
                ck.violation({**case, "blocks": [[p, o] for p, o in fi["blocks"]], "parser_differs": True, "expected": [list(map(str, e)) for e in exp.values()],
                              "got": str(real)}, f"SSHConfig._parse of a well-formed file = {str(real)[:300]}, the file says {list(exp.values())}", matcher)
        pend.append(("PC", len(reqs), real, case, gate))
        reqs.append(f"PC {hx(home)} {hx(t)}")
        # end to end: SSHConfig(path).lookup(name) vs lookupText
        names = list(fi["fresh"])[:2] if fi is not None and kind == "valid" else (list(fi["fresh"])[:1] if fi is not None else ["a", "b"])
        path = None
        for nm in names:
            if not (nm.isascii() and "\n" not in nm):
                continue
            if kind == "valid" and nm in fi["fresh"] and unl(t) == t:
                rl = fi["fresh"][nm]
            else:
                path = path or tmp.write(t)
                rl = real_lookup(path, nm, attrs)
            pend.append(("PL", len(reqs), rl, {"kind": "parse-lookup", "text": t, "name": nm}, gate and not has_meta_text(t, D)))
            reqs.append(f"PL {hx(home)} {hx(nm)} {hx(t)}")
    # known_hosts
    ktexts = [(t, "valid", nms) for t, nms, _ in kh_texts]
    kh_expected = {t: [(k, v[0], v[1]) for k, v in kh_expected_parse(lines).items()] for t, _, lines in kh_texts}
    for t, nms, _ in kh_texts:
        for _ in range(nmut):
            ktexts.append((mutate_text(rng, t, KH_TOKENS), "mutated", nms))
    ktexts += [(q, "quirk", ["a", "b"]) for q in KH_QUIRKS]
    seen = set()
    for t, kind, nms in ktexts:
        if t in seen:
            continue
        seen.add(t)
        gate = t.isascii()
        real = real_kh_parse_obs(t)
        ck.case(("parse-kh", t), nontrivial=bool(t.strip()), sample={"known_hosts": t[:200], "real_parse": str(real)[:200]},
                tags=("parser", "parser=kh-" + kind))
        if kind == "valid" and real != ("ok", kh_expected[t]):
            # oracle: a generated well-formed known_hosts file parses to exactly the key lines written in it
            ck.violation({"kind": "parse-kh", "known_hosts": t, "expected": [list(x) for x in kh_expected[t]], "got": str(real)},
                         f"SSHKnownHosts._parse of a well-formed file = {str(real)[:300]}, the file says {kh_expected[t]}", matcher)
        pend.append(("PK", len(reqs), real, {"kind": "parse-kh", "known_hosts": t}, gate))
        reqs.append(f"PK {hx(t)}")
        for nm in list(nms)[:2]:
            if not nm.isascii() or not nm or " " in nm:
                continue
            hm = kh_hm_table(t, [nm])
            path = tmp.write(t)
            pend.append(("PKL", len(reqs), real_kh(path, nm), {"kind": "parse-kh-lookup", "known_hosts": t, "name": nm}, gate and "\r" not in t))
            reqs.append(f"PKL {hx(nm)} {hx(t)} {';'.join(f'{hx(a)}/{hx(b)}/{r}' for a, b, _, r in hm) or '.'}")
    return pend


def has_meta_text(t, D):
    return bool(D["fuzzy"]["meta"]) and any(c in META for c in t)


def parser_tie_compare(ck, pend, mout, stats):
    for kind, idx, real, case, gate in pend:
        ml = mout[idx]
        if kind == "PC":
            m = dec_entries(ml)
            same = m == real
            name = "text parser MODEL (parseCfg + insertAll) vs real SSHConfig._parse"
        elif kind == "PL":
            m = dec_model(ml)
            if real[0] == "exc":
                k = {"KeyError": "keyError", "error": "badRegex", "PatternError": "badRegex", "ValueError": "valueError"}.get(real[1].split(":")[0])
                same = m == ("err", k)
            else:
                same = m == real
            name = "lookupText (parse + build + lookup from the file TEXT) vs real SSHConfig(path).lookup"
        elif kind == "PK":
            m = dec_kh_entries(ml)
            same = m == real
            name = "text parser MODEL (khParse + khBuild) vs real SSHKnownHosts._parse"
        else:
            f = ml.split(" ")
            m = ("exc", "") if f[0] == "err" else ("ok", None if f[1] == "none" else (unhx(f[1]), unhx(f[2])))
            same = ((m[0] == "exc") == (real[0] == "exc")) and (m[0] == "exc" or m == real)
            name = "khLookupText (parse + lookup from the file TEXT) vs real SSHKnownHosts(path).lookup"
        if same:
            stats["parser_model_" + kind + "_agree"] += 1
            if gate:
                ck.traces_validated += 1
        elif not gate or (kind in ("PC", "PL") and re.search(r"~[^/\s]", case["text"])):
            stats["advisory_parser_model_disagreements"] += 1
            if len(ck.extra.setdefault("advisory_parser_examples", [])) < 5:
                ck.extra["advisory_parser_examples"].append({"case": case, "impl": str(real)[:200], "model": str(m)[:200]})
        else:
            ck.disagree(name, case, f"impl={real} model={m}")


# =====================================================================================================
def gen_histories(rng, names, npairs_from=4, nrandom=2):
    """lookup histories over the given names: every ordered pair (also a name twice) over a few of them, plus
    random histories of length 3-4 with repeats"""
    names = list(dict.fromkeys(names))
    if not names:
        return []
    few = names if len(names) <= npairs_from else rng.sample(names, npairs_from)
    hist = [[a, b] for a in few for b in few]
    for _ in range(nrandom):
        hist.append([rng.choice(names) for _ in range(rng.choice([3, 4]))])
    return hist


DRIVER_STEPS = {"built": 0, "failed": 0}


def driver_step(path, host, i, keyfile):
    """construct a real driver on an ssh-config-reading transport with this config path: it looks `host` up through
    ssh_config_factory(path) -- the SAME cached object later lookups go through.  Alternates explicit port /
    username / key with none at all."""
    import logging
    try:
        if i % 2:
            from scrapli.driver.generic import AsyncGenericDriver as D
            transport = "asyncssh"
        else:
            from scrapli.driver.generic import GenericDriver as D
            transport = "paramiko"
        kw = {} if i % 3 == 2 else {"port": 8022 + i, "auth_username": "alice", "auth_private_key": keyfile}
        logging.disable(logging.CRITICAL)
        try:
            D(host=host, transport=transport, ssh_config_file=path, auth_strict_key=False, **kw)
        finally:
            logging.disable(logging.NOTSET)
        DRIVER_STEPS["built"] += 1
    except Exception:  # noqa  (e.g. an empty host name): not this property's business
        DRIVER_STEPS["failed"] += 1


def cfg_history_real(path, hist, attrs, via_factory=False, keyfile=None):
    """answers of successive lookups on ONE SSHConfig object (or on the object(s) ssh_config_factory hands out; then a
    real driver is constructed on the same config path between the lookups)"""
    from scrapli.ssh_config import SSHConfig, ssh_config_factory
    out = []
    try:
        if via_factory:
            objs = [ssh_config_factory(path), ssh_config_factory(path)]
            if objs[0] is not objs[1]:
                return [("exc", "ssh_config_factory returned two different objects for one path")] * len(hist)
        else:
            objs = [SSHConfig(path)]
    except Exception as e:  # noqa
        return [("exc", type(e).__name__ + ": " + str(e))] * len(hist)
    try:
        for i, nm in enumerate(hist):
            if via_factory and keyfile is not None:
                driver_step(path, hist[(i + 1) % len(hist)] if i % 2 else nm, i, keyfile)
            try:
                out.append(("ok", host_obs(objs[i % len(objs)].lookup(nm), attrs)))
            except Exception as e:  # noqa
                out.append(("exc", type(e).__name__ + ": " + str(e)))
    finally:
        if via_factory:
            SSHConfig._config_files.pop(path, None)
    return out


def kh_history_real(path, hist):
    from scrapli.ssh_config import SSHKnownHosts
    try:
        obj = SSHKnownHosts(path)
    except Exception as e:  # noqa
        return [("exc", type(e).__name__)] * len(hist)
    out = []
    for nm in hist:
        try:
            r = obj.lookup(nm)
            out.append(("ok", (r["key_type"], r["public_key"]) if r else None))
        except Exception as e:  # noqa
            out.append(("exc", type(e).__name__))
    return out


def kh_history_model_line(lines, hist):
    ls, hm = _kh_model_fields(lines, list(dict.fromkeys(hist)))
    return (f"HK {','.join(hx(n) for n in hist)} {';'.join(ls) or '.'} "
            f"{';'.join(f'{hx(a)}/{hx(b)}/{hx(n)}/{r}' for a, b, n, r in hm) or '.'}")


def fallback_data():
    """used only when the translator cannot translate: the same values read from the imported module"""
    from scrapli.ssh_config import HOST_ATTRS, Host, SSHConfig
    h = Host()
    attrs = list(HOST_ATTRS)
    o = SSHConfig.__new__(SSHConfig)
    o.hosts = {"a[b": Host()}
    try:
        o._lookup_fuzzy_match("zz")
        live = False
    except Exception:  # noqa
        live = True
    return dict(host_attrs=attrs, defaults={a: getattr(h, a) for a in attrs + ["hosts", "hostname"]},
                fuzzy={"meta": sorted(META) if live else []})


def is_open(ck, fid):
    return fid is not None and any(f["id"] == fid and f.get("status") == "open" for f in ck.findings)


def load_findings(ck):
    """findings/C16.json next to the lead's merged known_findings.json.  Where the two disagree on a status, `fixed`
    wins: a fixed entry suppresses nothing, so a merge that lags behind can never mask a regression."""
    f = VERIF / "findings" / "C16.json"
    if f.exists():
        mine = {x["id"]: x for x in json.load(open(f))}
        have = {x["id"] for x in ck.findings}
        for x in ck.findings:
            m = mine.get(x["id"])
            if m is not None and m.get("status") == "fixed" and x.get("status") != "fixed":
                x.update(status="fixed", commit=m.get("commit"), what=m.get("what", x.get("what")))
        ck.findings += [x for x in mine.values() if x["id"] not in have]


def check_case(ck, tmp, D, blocks, name, text, meta_live, stats, plain):
    """run one (config, name) on the real code; returns the model request (or None) and a closure to compare"""
    attrs, dflt = D["host_attrs"], D["defaults"]
    path = tmp.write(text)
    real = real_lookup(path, name, attrs)
    # --- parser differential: what the real regex parser made of the text vs what the text means
    exp_seq = expected_parse(blocks)
    exp_dict = OrderedDict()
    for h, o in exp_seq:
        exp_dict[h] = (h, o.get("hostname", dflt["hostname"]), tuple(o.get(a, dflt[a]) for a in attrs))
    try:
        rp = real_parse(text)
        got_dict = OrderedDict((k, host_obs(v, attrs)) for k, v in rp.items())
        parser_exact = list(got_dict.items()) == list(exp_dict.items())

        def _n(d):   # an option keyword without a value yields "" where the structured form has None: both are "unset"
            return [(k, (h, hn or None, tuple(x or None for x in at))) for k, (h, hn, at) in d.items()]
        parser_ok = parser_exact or _n(got_dict) == _n(exp_dict)
        if parser_ok and not parser_exact:
            stats["parser_empty_value_as_empty_string"] += 1
    except Exception as e:  # noqa
        got_dict, parser_ok, parser_exact = None, False, False
    base = {"blocks": [[p, o] for p, o in blocks], "name": name, "text": text, "meta_live": meta_live,
            "parser_differs": not parser_ok}
    indom = ascii_ok(blocks, name)
    metacase = has_meta(blocks) and meta_live
    if not parser_ok:
        stats["parser_differs"] += 1
        fid = matcher({**base, "kind": "parser"})
        if not is_open(ck, fid):
            ck.disagree("text parser (SSHConfig._parse) vs structured config", {"text": text},
                        f"parsed={list(got_dict.items()) if got_dict is not None else 'raised'} expected={list(exp_dict.items())}")
        else:
            ck.known_hits[fid] += 1
    # --- oracle on the real observables
    prim_s, how, want = spec_lookup(blocks, name)
    ent = spec_entries(blocks)
    if real[0] == "exc":
        ck.violation({**base, "kind": "raise", "got": real[1]}, f"SSHConfig(...).lookup({name!r}) raised {real[1]}", matcher)
    else:
        hosts_r, hostname_r, at_r = real[1]
        got = {a: v for a, v in zip(attrs, at_r)}
        got["hostname"] = hostname_r
        exp_full = {a: dflt[a] for a in attrs}
        exp_full["hostname"] = dflt["hostname"]
        for a, v in want.items():
            exp_full[a] = int(v) if a == "port" else os.path.expanduser(v) if a == "identity_file" else v
        # O2 only-matching: every set value comes from an entry that names the host (or Host *)
        for a, v in got.items():
            if not v:
                continue
            owners = [k for k, (pats, o) in ent.items() if a in o and
                      (int(o[a]) if a == "port" else os.path.expanduser(o[a]) if a == "identity_file" else o[a]) == v]
            if not any(names_it(ent[k][0], k, name) for k in owners):
                ck.violation({**base, "kind": "only", "attr": a, "value": v, "got_value": v, "owners": owners,
                              "got_primary": hosts_r, "spec_primary": prim_s},
                             f"lookup({name!r}).{a} = {v!r} comes from entry {owners[:1]} which does not match the host", matcher)
        # O3 exact first
        if how in ("exact", "listed"):
            own = {a: exp_full[a] for a in ent[prim_s][1]}
            if hosts_r != prim_s or any(got[a] != v for a, v in own.items() if v):
                ck.violation({**base, "kind": "exact", "got_primary": hosts_r, "spec_primary": prim_s, "got": got},
                             f"lookup({name!r}): the entry naming the host exactly ({prim_s!r}) was not returned with its own values", matcher)
        # O4 the whole statement: primary entry and every inherited option
        if hosts_r != prim_s:
            ck.violation({**base, "kind": "primary", "got_primary": hosts_r, "spec_primary": prim_s},
                         f"lookup({name!r}) selected entry {hosts_r!r}, specification selects {prim_s!r}", matcher)
        else:
            for a in got:
                if (got[a] or None) != (exp_full[a] or None):
                    ck.violation({**base, "kind": "inherit", "attr": a, "got_primary": hosts_r, "got": got[a], "got_value": got[a], "want": exp_full[a]},
                                 f"lookup({name!r}).{a} = {got[a]!r}, specification says {exp_full[a]!r}", matcher)
    stats["cases_with_no_oracle_deviation"] += int(len(ck.violations) + sum(ck.known_hits.values()) == stats["_seen"])
    stats["_seen"] = len(ck.violations) + sum(ck.known_hits.values())
    # --- model request: on the structured form when the parser agreed, else on what the parser produced
    if parser_ok and parser_exact:
        entries = entries_of(exp_seq, attrs, dflt)
    elif got_dict is not None:
        entries = list(got_dict.values())
    else:
        return None, real, indom, metacase
    stats["_entries"] = entries
    return model_line(name, entries), real, indom, metacase


def compare(ck, req, mline, real, indom, metacase, case, stats):
    m = dec_model(mline)
    if real[0] == "exc":
        kind = {"KeyError": "keyError", "error": "badRegex", "PatternError": "badRegex"}.get(real[1].split(":")[0])
        same = m == ("err", kind)
    else:
        same = m == real
    if same:
        if indom:
            ck.traces_validated += 1
        return True
    if metacase and m == ("err", "badRegex"):
        stats["advisory_meta_unescaped"] += 1     # real code did not raise on a metacharacter pattern: outside the model
        return True
    if not indom:
        stats["advisory_disagreements"] += 1
        return True
    ck.disagree("SSHConfig model (build/merge/lookup) vs real SSHConfig", case, f"impl={real} model={m}")
    return False


def run(tier, seed):
    from collections import Counter
    ck = Check(PID, tier, seed, level="proof")
    load_findings(ck)
    ck.rule = ("structured configs (0-5 Host blocks x 1-3 patterns from base names, * ? patterns, names containing 'host', regex "
               "metacharacters, duplicate Host lines, Host * anywhere; options HostName/User/Port/IdentityFile/IdentitiesOnly with values "
               "unique per block) rendered to text with random key case, = / blank / tab separators, indentation, comment and blank "
               "lines, unknown options, CRLF, missing final newline; looked-up names: pattern text, wildcard instances, prefix, "
               "suffix, superstring, case variants, whole Host line, empty. Exhaustive: every config of <= 2 single-pattern blocks over "
               "a 9-pattern alphabet x 14 names (plain spelling). known_hosts: plain / comma-listed / hashed (real HMAC-SHA1) lines, "
               "duplicates, comments; names present / absent / similar. Non-trivial = at least one non-* block and the name is not a "
               "Host line verbatim. Every case: real SSHConfig/SSHKnownHosts on a fresh temp file vs Lean model; oracle = independent "
               "Python specification (whole-name glob, fewest captured characters, inheritance from matching entries then Host *).")
    ck.trusted = ["Lean 4.33.0 kernel; axioms of every theorem audited ⊆ {propext, Classical.choice, Quot.sound}",
                  "tools/gen/c16.py (HOST_ATTRS, Host defaults, wildcard characters obtained by evaluating the source's translation "
                  "expression per character, catch-all key, known_hosts syntax constants)",
                  "correspondence harness props/c16.py; CPython re / shlex / hmac / base64"]
    ck.assumptions = ["ASCII host names and patterns (re.I / str.split on non-ASCII are compared but advisory)",
                      "partial: SSHConfig._parse is modelled in Lean (parseCfg: block split, option regexes with cross-line [\\s=]+ runs, shlex) and run "
                      "against the real parser on every generated / mutated / quirk text, but its print/parse round trip is NOT proved; the known_hosts "
                      "round trip is proved (known_hosts_parse_roundtrip)",
                      "os.path.expanduser is a function parameter of the parser model (driver: `~`, `~/...` with the run's home directory)",
                      "HMAC-SHA1 is a function parameter of the model (given as an explicit table per request)",
                      "option values are drawn from what the parser's value patterns accept; trailing blanks / comments after option "
                      "values, quoted values, Match blocks and negated patterns are outside the generated grammar"]
    # 1 translate
    D = None
    try:
        translate.translate(PID)
        from gen import c16 as g
        if not g.DATA:
            g.generate()
        D = dict(g.DATA)
        if D.get("unreadable"):
            ck.extra["translator"] = "translator: shape unreadable, tie = correspondence only: " + "; ".join(D["unreadable"])
    except Exception as e:
        ck.proof_broken("translator gen/c16.py", repr(e))
    # 2 prove
    ck.prove("ScrapliProps.C16", lemma_files=["ScrapliProps/C16Lemmas.lean", "ScrapliProps/C16ParseLemmas.lean", "ScrapliModel/Spec/SSHLookup.lean", "ScrapliModel/SSHConfig.lean", "ScrapliModel/SSHConfigParse.lean"])
    if tier == "thorough":
        ck.leanchecker("ScrapliProps.C16")
    if D is None:
        D = fallback_data()      # translator broken: still look for a failing input with the run-time values
    meta_live = bool(D["fuzzy"]["meta"])
    stats = Counter()
    tmp = Tmp()
    try:
        rc = _run_cases(ck, tier, D, meta_live, stats, tmp)
    finally:
        tmp.close()
    return rc


def _run_cases(ck, tier, D, meta_live, stats, tmp):
    rng = ck.rng
    attrs = D["host_attrs"]
    # 0 known findings: replay stored witnesses on the real code
    for f in ck.findings:
        if f.get("status") != "open":
            continue
        w = f["witness"]
        still = False
        if "known_hosts" in w:
            p = tmp.write(w["known_hosts"])
            r = real_kh(p, w["name"])
            still = r != ("ok", tuple(w["want"]))
        else:
            p = tmp.write(w["text"])
            r = real_lookup(p, w["name"], attrs)
            if r[0] == "exc":
                still = True
            else:
                got = dict(zip(attrs, r[1][2])); got["hosts"] = r[1][0]
                still = any(got.get(k) != v for k, v in w["want"].items())
        if still:
            ck.known_finding(f["id"], f["what"])
    cases = []   # (blocks, name, text, plain, tags)
    corpus = json.load(open(VERIF / "corpus" / "C16" / "corpus.json"))
    for c in corpus:
        if "blocks" in c:
            bl = [(list(p), dict(o)) for p, o in c["blocks"]]
            for nm in c["names"]:
                cases.append((bl, nm, c.get("text") or render(rng, bl, plain=True), True, ("corpus",)))
    # exhaustive small scope (plain spelling)
    alpha = ["foo", "fo", "o", "foo*", "f?o", "*", "?oo", "*o", "FOO"]
    names = ["foo", "fo", "o", "foob", "xfoo", "fooo", "FOO", "f", "", "foo*", "f?o", "*", "fxo", "oo"]
    ex_blocks = [[]]
    for p1 in alpha:
        ex_blocks.append([([p1], {"user": "u0", "port": "1000"})])
        for p2 in alpha:
            ex_blocks.append([([p1], {"user": "u0"}), ([p2], {"port": "1001", "identity_file": "/keys/k1"})])
            if tier == "thorough":
                ex_blocks.append([([p1], {"port": "1000"}), ([p2], {"user": "u1", "port": "1001"})])
                ex_blocks.append([([p1, p2], {"user": "u0"}), (["*"], {"user": "star", "port": "9"})])
    for bl in ex_blocks:
        text = render(rng, bl, plain=True)
        for nm in names:
            cases.append((bl, nm, text, True, ("exhaustive",)))
    # an exactly named entry under several overlapping wildcard entries, every block order
    ov = gen_overlap_configs()
    if tier == "quick":
        ov = rng.sample(ov, 150)
    for bl, nms in ov:
        text = render(rng, bl, plain=rng.random() < 0.5)
        for nm in nms[: (2 if tier == "quick" else 5)]:
            cases.append((bl, nm, text, False, ("overlap",)))
    # random structured configs, every spelling
    nrand = 700 if tier == "quick" else 12000
    mixes = [(["base", "wild", "mut"], "clean"), (["base", "wild", "mut"], "clean"), (["base", "wild", "mut", "meta"], "meta"),
             (["base", "wild", "hostword"], "hostword"), (["base"], "literal-only")]
    for i in range(nrand):
        kinds, tag = mixes[i % len(mixes)]
        bl = gen_blocks(rng, kinds)
        text = render(rng, bl)
        if tag == "hostword" and rng.random() < 0.3:
            text = "# jump host \n" + text
        for nm in gen_names(rng, bl, 5 if tier == "quick" else 6):
            cases.append((bl, nm, text, False, (tag,)))
    reqs, pend = [], []
    spec_reqs, spec_pend = [], []
    dom_reqs = []
    files = OrderedDict()    # text -> dict(blocks, fresh={name: real}, entries, indom)
    for bl, nm, text, plain, tags in cases:
        stats.pop("_entries", None)
        req, real, indom, metacase = check_case(ck, tmp, D, bl, nm, text, meta_live, stats, plain)
        fi = files.setdefault(text, {"blocks": bl, "fresh": {}, "entries": None, "indom": True, "tags": tags})
        fi["fresh"][nm] = real
        fi["indom"] = fi["indom"] and indom and not metacase
        if stats.get("_entries") is not None:
            fi["entries"] = stats["_entries"]
        nontriv = any(ps != ["*"] for ps, _ in bl) and nm not in [" ".join(ps) for ps, _ in bl]
        prim_s, how, _ = spec_lookup(bl, nm)
        ck.case((tuple((tuple(p), tuple(sorted(o.items()))) for p, o in bl), nm, text), nontrivial=nontriv,
                sample={"text": text[:300], "name": nm, "real": str(real)[:200]},
                tags=tags + (f"blocks={min(len(bl), 5)}", f"spec={how}", "real=" + (real[0] if real[0] == "exc" else "ok")))
        if req is not None:
            reqs.append(req)
            pend.append((real, indom, metacase, {"blocks": bl, "name": nm, "text": text}))
            if indom:
                spec_reqs.append("S" + model_line(nm, entries_of(expected_parse(bl), attrs, D["defaults"]))[1:])
                spec_pend.append((bl, nm))
                dom_reqs.append("D" + model_line(nm, entries_of(expected_parse(bl), attrs, D["defaults"]))[1:])
    stats.pop("_entries", None)
    # ---- lookup HISTORIES on one SSHConfig object / through ssh_config_factory: a lookup is a function of (file, name)
    hist_pend = []   # (kind, request index, real answers, case)
    keyfile = tmp.write("not a key\n")
    for fidx, (text, fi) in enumerate(files.items()):
        if "exhaustive" in fi["tags"] and fidx % (4 if tier == "quick" else 1):
            continue
        path = tmp.write(text)
        hists = gen_histories(rng, list(fi["fresh"]), npairs_from=3 if tier == "quick" else 4, nrandom=2)
        for hi, hist in enumerate(hists):
            via = hi % 3 == 2
            got = cfg_history_real(path, hist, attrs, via_factory=via, keyfile=keyfile if (tier == "quick" or fidx % 3 == 0) else None)
            ck.case(("cfg-history", text, tuple(hist), via), nontrivial=len(set(hist)) > 1,
                    sample={"text": text[:200], "history": hist, "answers": [str(g)[:80] for g in got]},
                    tags=("history", "history=cfg" + ("-factory" if via else ""), f"hist-len={len(hist)}"))
            for i, (nm, g) in enumerate(zip(hist, got)):
                if g != fi["fresh"][nm]:
                    ck.violation({"kind": "history", "text": text, "blocks": [[p, o] for p, o in fi["blocks"]], "history": hist,
                                  "index": i, "name": nm, "via_factory": via, "got": list(g), "fresh": list(fi["fresh"][nm])},
                                 f"SSHConfig lookup({nm!r}) after the lookups {hist[:i]!r} on the same object"
                                 f"{' (through ssh_config_factory, with real drivers constructed on the same config path in between)' if via else ''} = {g}, a fresh object answers {fi['fresh'][nm]}", matcher)
                    break
            if fi["entries"] is not None and fi["indom"] and hi >= len(hists) - 3:
                hist_pend.append(("cfg", len(reqs), got, {"text": text, "history": hist}))
                reqs.append(f"HL {','.join(hx(n) for n in hist)} {enc_entries(fi['entries'])}")
    # factory caching: same path -> same object; fresh path -> fresh parse
    from scrapli.ssh_config import SSHConfig, ssh_config_factory
    p1 = tmp.write("Host cached\n  User u1\n")
    a, b = ssh_config_factory(p1), ssh_config_factory(p1)
    p2 = tmp.write("Host cached\n  User u2\n")
    c = ssh_config_factory(p2)
    if a is not b or c is a or a.lookup("cached").user != "u1" or c.lookup("cached").user != "u2":
        ck.violation({"kind": "factory"}, "ssh_config_factory: caching by path returned the wrong object", None)
    for p in (p1, p2):
        SSHConfig._config_files.pop(p, None)
    # known_hosts
    kh_cases = []
    for c in corpus:
        if "known_hosts" in c:
            kh_cases.append((c["known_hosts"], c["names"]))
    for _ in range(150 if tier == "quick" else 3000):
        lines = gen_kh(rng)
        present = [h for l in lines if "hosts" in l for h in l["hosts"]]
        nms = set(rng.sample(KH_NAMES, 3))
        for h in present[:3]:
            nms.update([h, h[:-1], h + "0", h.upper(), "x" + h])
        kh_cases.append((lines, sorted(nms)))
    kh_pend = []
    kh_texts = []
    for lines, nms in kh_cases:
        text = "".join(l["text"] + "\n" for l in lines)
        kh_texts.append((text, nms, lines))
        path = tmp.write(text)
        kh_mark_kept(lines)
        odd = kh_odd_spelling(lines)
        comment3 = any(l["kind"] == "comment" and len(l["text"].split()) == 3 for l in lines)
        if comment3:
            nms = sorted(set(nms) | {"#"})
        # parser differential: what the real line parser makes of the text vs what the lines mean
        try:
            got_parse = real_kh_parse(text)
        except Exception as e:  # noqa
            got_parse = repr(e)
        exp_parse = kh_expected_parse(lines)
        if got_parse != exp_parse or (isinstance(got_parse, dict) and list(got_parse) != list(exp_parse)):
            stats["kh_parser_differs"] += 1
            fid = matcher({"kind": "kh", "parser_case": True, "odd_spelling": odd})
            if is_open(ck, fid):
                ck.known_hits[fid] += 1
            else:
                ck.disagree("text parser (SSHKnownHosts._parse) vs structured lines", {"known_hosts": text},
                            f"parsed={got_parse} expected={list(exp_parse.items())}")
        kh_fresh = {}
        for nm in nms:
            real = real_kh(path, nm)
            want = kh_spec(lines, nm)
            ck.case(("kh", text, nm), nontrivial=bool(lines), sample={"known_hosts": text[:200], "name": nm, "real": str(real)},
                    tags=("known_hosts", "kh=" + ("recorded" if want else "absent"), "kh-hashed" if any(l["kind"] in ("hashed", "hextra") for l in lines) else "kh-plain",
                          "kh-odd-spelling" if odd else "kh-std-spelling", "kh-marker" if any(l["kind"] == "marker" for l in lines) else "kh-no-marker"))
            rec_kinds = {l["kind"] for l in kh_recording(lines, nm)}
            case = {"kind": "kh", "known_hosts": text, "name": nm, "got": list(real), "want_any_of": want, "comment3": comment3,
                    "only_extra_lines_record": bool(rec_kinds) and rec_kinds <= {"extra", "hextra"}}
            if real[0] == "exc":
                ck.violation(case, f"SSHKnownHosts.lookup({nm!r}) raised {real[1]}", matcher)
            elif want and real[1] not in want:
                ck.violation(case, f"known_hosts lookup({nm!r}) = {real[1]}, recorded keys are {want}", matcher)
            elif not want and real[1] is not None:
                ck.violation(case, f"known_hosts lookup({nm!r}) returned a key although no line records that host", matcher)
            kh_pend.append((real, case, len(reqs)))
            reqs.append(kh_model_line(lines, nm))
            kh_fresh[nm] = real
        # histories on ONE SSHKnownHosts object
        hists = gen_histories(rng, list(kh_fresh), npairs_from=5, nrandom=3)
        for hi, hist in enumerate(hists):
            got = kh_history_real(path, hist)
            ck.case(("kh-history", text, tuple(hist)), nontrivial=len(set(hist)) > 1 and bool(lines),
                    sample={"known_hosts": text[:200], "history": hist, "answers": [str(g) for g in got]},
                    tags=("history", "history=known_hosts", f"hist-len={len(hist)}"))
            for i, (nm, g) in enumerate(zip(hist, got)):
                if g != kh_fresh[nm]:
                    ck.violation({"kind": "history", "known_hosts": text, "history": hist, "index": i, "name": nm,
                                  "got": list(g), "fresh": list(kh_fresh[nm])},
                                 f"SSHKnownHosts lookup({nm!r}) after the lookups {hist[:i]!r} on the same object = {g[1]}, "
                                 f"a fresh object answers {kh_fresh[nm][1]}", matcher)
                    break
            if hi >= len(hists) - 4:
                hist_pend.append(("kh", len(reqs), got, {"known_hosts": text, "history": hist}))
                reqs.append(kh_history_model_line(lines, hist))
    # malformed hashed entries: advisory, model vs code on error-ness only
    adv = []
    for bad in ["|1|abc", "|1|a|b", "|1|YQ==|YQ==|x", "|1||"]:
        lines = [dict(kind="hashed", hosts=[], field=bad, kt="ssh-rsa", pk="AAAA", text=f"{bad} ssh-rsa AAAA", model=[(bad, "ssh-rsa", "AAAA")])]
        path = tmp.write(lines[0]["text"] + "\n")
        adv.append((real_kh(path, "zz"), len(reqs)))
        reqs.append(kh_model_line(lines, "zz"))
    # the text parsers inside the model: parseCfg / khParse on generated, mutated and quirk texts
    ptie = parser_tie_requests(ck, tier, D, files, kh_texts, tmp, reqs, stats)
    n_main = len(reqs)
    reqs += spec_reqs
    n_dom = len(reqs)
    reqs += dom_reqs
    try:
        mout = run_model("C16", reqs)
    except Exception as e:
        ck.proof_broken("model driver Drv/C16.lean", repr(e))
        mout = None
    if mout is not None:
        for i, (real, indom, metacase, case) in enumerate(pend):
            compare(ck, reqs[i], mout[i], real, indom, metacase, case, stats)
        for real, case, ridx in kh_pend:
            ml = mout[ridx].split(" ")
            m = ("exc", "") if ml[0] == "err" else ("ok", None if ml[1] == "none" else (unhx(ml[1]), unhx(ml[2])))
            if (m[0] == "exc") != (real[0] == "exc") or (m[0] == "ok" and m != real):
                ck.disagree("SSHKnownHosts model vs real SSHKnownHosts", case, f"impl={real} model={mout[ridx]}")
            else:
                ck.traces_validated += 1
        for kind, idx, got, case in hist_pend:
            parts = mout[idx].split(" | ")
            ok = len(parts) == len(got)
            if ok:
                for ml, g in zip(parts, got):
                    if kind == "cfg":
                        m = dec_model(ml)
                        ok = ok and ((m[0] == "err") if g[0] == "exc" else m == g)
                    else:
                        f = ml.split(" ")
                        m = ("exc", "") if f[0] == "err" else ("ok", None if f[1] == "none" else (unhx(f[1]), unhx(f[2])))
                        ok = ok and ((m[0] == "exc") == (g[0] == "exc")) and (m[0] == "exc" or m == g)
            if ok:
                ck.traces_validated += 1
                stats["histories_validated_against_model"] += 1
            else:
                ck.disagree(f"lookup history on one {'SSHConfig' if kind == 'cfg' else 'SSHKnownHosts'} object vs model "
                            f"({'cfgHistory' if kind == 'cfg' else 'khHistory'})", case, f"impl={got} model={mout[idx]}")
        # the Lean specification (Spec.lookup) and the Python oracle's specification are two independent renderings
        for j, (bl, nm) in enumerate(spec_pend):
            m = dec_model(mout[n_main + j])
            prim, how, want = spec_lookup(bl, nm)
            exp = {a: D["defaults"][a] for a in attrs}
            exp["hostname"] = D["defaults"]["hostname"]
            for a, v in want.items():
                exp[a] = int(v) if a == "port" else os.path.expanduser(v) if a == "identity_file" else v
            pyv = ("ok", (prim, exp["hostname"], tuple(exp[a] for a in attrs)))
            if m != pyv:
                ck.disagree("Lean Spec.lookup vs Python oracle specification", {"blocks": bl, "name": nm}, f"lean={m} python={pyv}")
            else:
                stats["spec_renderings_agree"] += 1
        # share of the generated cases inside the domain of lookup_only_matching_partial (Anchored and NoCross)
        for j in range(len(dom_reqs)):
            ml = mout[n_dom + j]
            a, n, w = "anchored=1" in ml, "nocross=1" in ml, "crossnaming=1" in ml
            ck.dist["partial-domain=" + ("in" if a and n else "out")] += 1
            ck.dist["partial-wide-domain=" + ("in" if a and w else "out")] += 1
            ck.dist["anchored=" + ("yes" if a else "no")] += 1
            ck.dist["nocross=" + ("yes" if n else "no")] += 1
        parser_tie_compare(ck, ptie, mout, stats)
        for real, idx in adv:
            stats["advisory_malformed_hashed"] += 1
            if (real[0] == "exc") != mout[idx].startswith("err"):
                stats["advisory_disagreements"] += 1
    stats.pop("_seen", None)
    stats["driver_steps_built"], stats["driver_steps_failed"] = DRIVER_STEPS["built"], DRIVER_STEPS["failed"]
    for k, v in stats.items():
        ck.extra[k] = v
    ck.extra["parser_note"] = ("the text parsers are INSIDE the Lean model (parseCfg / khParse, run against the real _parse on generated, mutated and quirk "
                               "texts); proved: known_hosts print/parse round trip + end-to-end lookups from the text, lookup_text_total; partial: the "
                               "ssh-config print/parse round trip is not proved (tied by the correspondence and the structured-config oracle)")
    ck.exhaustive = True
    ck.extra["exhaustive_scope"] = f"{len(ex_blocks)} configs of <= 2 blocks over 9 patterns x {len(names)} names"
    return ck.finish()


def replay(path):
    from vlib.common import use_repo
    r = json.load(open(path))
    v = r.get("violation", {}).get("case") or (r.get("no_longer_checks") or [{}])[0].get("case") or {}
    tmp = Tmp()
    try:
        if v.get("kind") == "parse-kh":
            got = real_kh_parse_obs(v["known_hosts"])
            print("known_hosts:", repr(v["known_hosts"]), "\nSSHKnownHosts._parse ->", got, "\nthe file says:", v["expected"])
            return 0 if got == ("ok", [tuple(x) for x in v["expected"]]) else 1
        if v.get("kind") == "parse":
            translate.translate(PID)
            from gen import c16 as g
            if not g.DATA:
                g.generate()
            got = real_parse_obs(v["text"], g.DATA["host_attrs"])
            print("config:\n" + v["text"] + "\nSSHConfig._parse ->", got, "\nthe file says:", v.get("expected"))
            exp = [[str(x) for x in e] for e in v.get("expected", [])]
            same = got[0] == "ok" and [[str(h), str(hn), str(at)] for h, hn, at in got[1]] == exp
            norm = lambda x: x.replace("''", "None")   # noqa: E731
            return 0 if same or (got[0] == "ok" and [[norm(str(h)), norm(str(hn)), norm(str(at))] for h, hn, at in got[1]] == [[norm(y) for y in e] for e in exp]) else 1
        if "name" not in v:
            print("no failing input stored (broken proof / translator / parser differential):", json.dumps(r, indent=1)[:2000])
            return 1
        if v.get("kind") == "history":
            translate.translate(PID)
            from gen import c16 as g
            if not g.DATA:
                g.generate()
            if "known_hosts" in v:
                p = tmp.write(v["known_hosts"])
                got = kh_history_real(p, v["history"])
                fresh = [real_kh(p, n) for n in v["history"]]
                print("known_hosts:", repr(v["known_hosts"]))
            else:
                p = tmp.write(v["text"])
                got = cfg_history_real(p, v["history"], g.DATA["host_attrs"], via_factory=v.get("via_factory", False),
                                       keyfile=tmp.write("not a key\n"))
                fresh = [real_lookup(p, n, g.DATA["host_attrs"]) for n in v["history"]]
                print("config:\n" + v["text"])
            for n, a, b in zip(v["history"], got, fresh):
                print(f"  lookup({n!r}) on the one object -> {a}\n  {' ' * len(repr(n))}    on a fresh object -> {b}")
            return 0 if got == fresh else 1
        if v.get("kind") == "kh" or "known_hosts" in v:
            p = tmp.write(v["known_hosts"])
            got = real_kh(p, v["name"])
            print("known_hosts:", repr(v["known_hosts"]), "\nlookup", repr(v["name"]), "->", got, "\nrecorded:", v.get("want_any_of"))
            want = [tuple(x) for x in v.get("want_any_of") or []]
            ok = got[0] == "ok" and ((got[1] in want) if want else got[1] is None)
            return 0 if ok else 1
        translate.translate(PID)
        from gen import c16 as g
        if not g.DATA:
            g.generate()
        attrs = g.DATA["host_attrs"]
        blocks = [(list(p), dict(o)) for p, o in v.get("blocks", [])]
        text = v.get("text") or render(None, blocks, plain=True)
        p = tmp.write(text)
        got = real_lookup(p, v["name"], attrs)
        prim, how, want = spec_lookup(blocks, v["name"])
        print("config:\n" + text + "\nlookup", repr(v["name"]), "->", got, "\nspecification: entry", repr(prim), f"({how})", want)
        if got[0] == "exc":
            return 1
        g_ = dict(zip(attrs, got[1][2])); g_["hostname"] = got[1][1]
        exp = {a: (int(x) if a == "port" else os.path.expanduser(x) if a == "identity_file" else x) for a, x in want.items()}
        ok = got[1][0] == prim and all((g_.get(a) or None) == (exp.get(a) or None) for a in set(g_) | set(exp))
        return 0 if ok else 1
    finally:
        tmp.close()
