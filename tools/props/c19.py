"""C19 — with channel locking on, concurrent operations never interleave.
Lean: ScrapliModel/Lock.lean, ScrapliProps/C19.lean.  Real code: the real Channel / AsyncChannel of an IOSXEDriver /
AsyncIOSXEDriver over SchedTransport, several callers (threads / asyncio tasks) on ONE connection, driven by the
deterministic scheduler of tools/harness/sched.py; the same schedule is given to the Lean model."""
import asyncio, itertools, json, os, subprocess, sys, threading, time

from vlib.common import VERIF, Check, hexs, run_model, unhex
import translate
from harness import sched as S
from harness.simdevice import CliDevice
from harness.simtransport import Cuts, SimTransport, make_conn, named

PID = "C19"
PROMPT = b"r1#"
READ_DURATION = 1.0e6          # send_input_and_read: its wall-clock exit can never fire; it ends on the prompt
BIG_TIMEOUT = 3600             # timeout_ops for the cases that go through the real timeout decorator
EXH_CAP_QUICK, EXH_CAP_THOROUGH = 8, 12    # exhaustive schedules: every list of caller ids up to this length (2 callers)


class HarnessError(Exception):
    pass


class CutFixed(Cuts):
    """every read returns at most k bytes"""

    def __init__(self, k):
        self.k = k

    def take(self, avail):
        return min(avail, self.k)


def device():
    return CliDevice("cisco_iosxe", hostname="r1", outputs=lambda mode, line: ("out<%s>" % line) if line else None)


# ---------------------------------------------------------------- operations
def mk_prog(c, kinds):
    """kinds -> operation specs with commands that name caller and operation (so output can be attributed)"""
    prog = []
    for k, kind in enumerate(kinds):
        base = f"show c{c}o{k}"
        if kind == "gp":
            prog.append(["gp"])
        elif kind in ("si", "sir"):
            prog.append([kind, base])
        elif kind.startswith("int"):
            prog.append(["int", [f"{base}e{j}" for j in range(int(kind[3:]))]])
        else:
            raise ValueError(kind)
    return prog


def op_callable(spec, stack):
    kind = spec[0]
    if kind == "gp":
        return lambda conn: conn.channel.get_prompt()
    if kind == "si":
        return lambda conn: conn.channel.send_input(spec[1])
    if kind == "sir":
        # expected_outputs = the prompt: the operation reads up to its prompt whatever the read sizes are (without it,
        # `_join_and_compile([])` is the empty pattern, which matches after the first read chunk)
        return lambda conn: conn.channel.send_input_and_read(spec[1], expected_outputs=[PROMPT.decode()], read_duration=READ_DURATION)
    if kind == "int":
        return lambda conn: conn.channel.send_inputs_interact([(c, PROMPT.decode()) for c in spec[1]])
    raise ValueError(kind)


def expected(spec):
    """what the caller must get for ITS command from the causal device (independent of the model)"""
    kind = spec[0]
    if kind == "gp":
        return PROMPT.decode()
    if kind in ("si", "sir"):
        return [f"\nout<{spec[1]}>\n".encode() + PROMPT, f"out<{spec[1]}>".encode()]
    raw = b"".join(c.encode() + f"\nout<{c}>\n".encode() + PROMPT for c in spec[1])
    return [raw, raw]


def norm(v):
    if isinstance(v, tuple):
        return [bytes(x) for x in v]
    return v


# ---------------------------------------------------------------- rigs (one connection per stack, reused)
class Rig:
    def __init__(self, stack):
        self.stack = stack
        tcls = S.SchedTransport if stack == "sync" else S.AsyncSchedTransport
        self.conn, self.t = make_conn("cisco_iosxe", device(), stack=stack, transport_cls=tcls, channel_lock=True)
        self.opened = False
        self.native_lock = self.conn.channel.channel_lock

    def reset(self, cut=None, tops=0):
        t = self.t
        t.device = device()
        t.buf.clear()
        t.trace.clear()
        t.dead = t.silent = False
        t.nreads = t.nwrites = t.nbytes = 0
        t.cuts = CutFixed(cut) if cut else Cuts()
        t.opened = True
        self.conn._base_transport_args.timeout_transport = 0
        self.conn.channel._base_channel_args.timeout_ops = tops


_shape_cache = {}


def shape_sync(rig, spec, cut):
    key = ("sync", json.dumps(spec), cut)
    if key not in _shape_cache:
        rig.reset(cut)
        op_callable(spec, "sync")(rig.conn)
        _shape_cache[key] = [(x[0], x[1]) for x in rig.t.trace if x[0] in ("W", "R")]
    return _shape_cache[key]


async def shape_async(rig, spec, cut):
    key = ("async", json.dumps(spec), cut)
    if key not in _shape_cache:
        rig.reset(cut)
        await op_callable(spec, "async")(rig.conn)
        _shape_cache[key] = [(x[0], x[1]) for x in rig.t.trace if x[0] in ("W", "R")]
    return _shape_cache[key]


def total_steps(shapes):
    """Lean `totalSteps`: one step per lock entry and per transport call"""
    return sum(len(op) + 1 for prog in shapes for op in prog)


def full_schedule(case, shapes):
    return list(case["sched"]) + S.round_robin(len(case["progs"]), total_steps(shapes))


def run_sync_case(rig, case, schedule=None):
    shapes = [[shape_sync(rig, spec, case["cut"]) for spec in prog] for prog in case["progs"]]
    rig.reset(case["cut"], case.get("tops", 0))
    progs = [[op_callable(spec, "sync") for spec in prog] for prog in case["progs"]]
    sch = schedule if schedule is not None else full_schedule(case, shapes)
    fault = tuple(case["fault"]) if case.get("fault") else None
    res = S.run_threads(rig.conn, rig.t, progs, sch, case["lock"], fault)
    return shapes, sch, res


async def run_async_case(rig, case, schedule=None):
    shapes = [[await shape_async(rig, spec, case["cut"]) for spec in prog] for prog in case["progs"]]
    rig.reset(case["cut"], case.get("tops", 0))
    progs = [[op_callable(spec, "async") for spec in prog] for prog in case["progs"]]
    sch = schedule if schedule is not None else full_schedule(case, shapes)
    fault = tuple(case["fault"]) if case.get("fault") else None
    res = await S.run_tasks(rig.conn, rig.t, progs, sch, case["lock"], fault)
    return shapes, sch, res


# ---------------------------------------------------------------- oracle (never consults the model)
def blocks(wire):
    """[(caller, op), first index, last index, count] in order of first appearance"""
    out, pos = [], {}
    for i, e in enumerate(wire):
        k = (e[0], e[1])
        if k not in pos:
            pos[k] = len(out)
            out.append([k, i, i, 1])
        else:
            b = out[pos[k]]
            b[2] = i
            b[3] += 1
    return out


def interleaved(wire):
    return [b[0] for b in blocks(wire) if b[2] - b[1] + 1 != b[3]]


def op_reads(wire, key):
    return b"".join(e[3] for e in wire if (e[0], e[1]) == key and e[2] == "R" and not e[4])


def oracle(case, res, serial_res=None):
    """list of violated clauses of C19 on one real run with channel_lock on"""
    bad = []
    wire = res.wire
    il = interleaved(wire)
    if il:
        bad.append(f"wire: calls of operation(s) {il} are not contiguous: {[(e[0], e[1], e[2]) for e in wire]}")
    for o in getattr(res, "orphans", []):
        bad.append(f"operation {tuple(o['op'])} has ended for its caller ({o['outcome']}) but is not over: {'; '.join(o['left'])}")
    if res.max_holders > 1:
        bad.append("two callers were inside the lock context at once")
    if res.deadlock:
        bad.append("deadlock: unfinished callers exist and none is enabled (the lock was not released)")
    if not res.lock_free_at_end:
        bad.append("channel lock still held after the run")
    failed_keys = [(e[0], e[1]) for e in wire if e[4]]
    order = [b[0] for b in blocks(wire)]
    first_failed = min((order.index(k) for k in failed_keys), default=None)
    for c, prog in enumerate(case["progs"]):
        outs = res.results[c]
        if res.all_done and len(outs) != len(prog):
            bad.append(f"caller {c}: {len(outs)} outcomes for {len(prog)} operations")
        for k, out in enumerate(outs):
            key = (c, k)
            if key in res.cancelled or out[0] == "cancelled":
                if out != ("cancelled",) or key not in res.cancelled:
                    bad.append(f"operation {key}: cancelled while waiting for the lock = {key in res.cancelled}, but it ended with {out}")
                if any((e[0], e[1]) == key for e in wire):
                    bad.append(f"operation {key} was cancelled while waiting for the lock, yet it made transport calls")
                continue
            if key in failed_keys:
                if out[0] != "exc" or out[1] != "ScrapliConnectionError" or S.INJECTED not in out[2]:
                    bad.append(f"operation {key}: transport fault surfaced as {out}")
                continue
            if out[0] != "ok":
                bad.append(f"operation {key} did not complete although no fault was injected into it: {out}")
                continue
            clean = first_failed is None or (key in order and order.index(key) < first_failed)
            if clean:
                if norm(out[1]) != expected(prog[k]):
                    bad.append(f"operation {key} {prog[k]}: result {norm(out[1])!r} is not the output of its own command {expected(prog[k])!r}")
                rd = op_reads(wire, key)
                foreign = [f"c{j}o" for j in range(len(case["progs"])) if j != c and f"c{j}o".encode() in rd]
                if foreign:
                    bad.append(f"operation {key} read bytes caused by another caller ({foreign}): {rd!r}")
    if res.all_done is False and not res.deadlock and not bad:
        bad.append("not every operation completed within the schedule + totalSteps fair rounds")
    if serial_res is not None and not bad:
        # serial equivalence on the real code: same acquisition order without preemption gives the same per-operation results
        for c in range(len(case["progs"])):
            a = [(o[0], norm(o[1]) if o[0] == "ok" else o[1:]) for o in res.results[c]]
            b = [(o[0], norm(o[1]) if o[0] == "ok" else o[1:]) for o in serial_res.results[c]]
            if serial_res.cancelled != res.cancelled:
                bad.append(f"harness: the one-at-a-time re-run cancelled {sorted(serial_res.cancelled)} instead of {sorted(res.cancelled)}")
            if a != b:
                bad.append(f"caller {c}: results differ from the one-at-a-time run in the same order: {a!r} vs {b!r}")
        if [(e[0], e[1], e[2], e[4]) for e in res.wire] != [(e[0], e[1], e[2], e[4]) for e in serial_res.wire] or \
                [op_reads(res.wire, k) for k in order] != [op_reads(serial_res.wire, k) for k in order]:
            bad.append("wire trace differs from the one-at-a-time run in the same order")
    return bad


def serial_schedule(res, stack, ncallers):
    """non-preemptive schedule with the acquisition order observed in `res`: every operation gets exactly the
    entries it needs (threads: the lock + one per transport call; tasks: the lock + one per read); an operation that
    was cancelled while waiting is cancelled again as soon as its caller waits for it"""
    sch, nxt = [], [0] * ncallers

    def cancels(c):
        while (c, nxt[c]) in res.cancelled:
            sch.append(10 + c)
            nxt[c] += 1

    for c in range(ncallers):
        cancels(c)
    for key, _a, _b, cnt in blocks(res.wire):
        if stack == "async":
            cnt = sum(1 for e in res.wire if (e[0], e[1]) == key and e[2] == "R")
        sch += [key[0]] * (cnt + 1)
        nxt[key[0]] = key[1] + 1
        cancels(key[0])
    return sch


# ---------------------------------------------------------------- model side
def model_line(case, shapes, sch, res=None):
    """request line for Drv/C19.lean.  The harness counts the fault as "k-th transport call of caller c"; which call of
    which operation that is depends on the operations abandoned by cancel events, so it is read off the real wire"""
    fault = tuple(case["fault"]) if case.get("fault") else None
    fpos = None
    if res is not None:
        for i, e in enumerate(res.wire):
            if e[4]:
                fpos = (e[0], e[1], sum(1 for x in res.wire[:i] if (x[0], x[1]) == (e[0], e[1])) + 1)
    progs = []
    for c, prog in enumerate(shapes):
        n, ops = 0, []
        for k, op in enumerate(prog):
            steps = []
            for m, (kind, data) in enumerate(op):
                n += 1
                t = "r" if kind == "R" else "w" + data.hex()
                if (res is None and fault == (c, n)) or (res is not None and fpos == (c, k, m + 1)):
                    t += "!"
                steps.append(t)
            ops.append(",".join(steps))
        progs.append(";".join(ops) if ops else ".")
    return "%s %d %s %s %s" % ("s" if case["stack"] == "sync" else "a", 1 if case["lock"] else 0, PROMPT.hex(), "/".join(progs),
                               sched_str(sch) or ".")


def sched_str(sch):
    """digits = run that caller, letters a.. = cancel caller 0.. while it waits for the lock"""
    return "".join(str(e) if e < 10 else chr(97 + e - 10) for e in sch)


def parse_model(line):
    wire_s, res_s, lk, dn = line.split(" ")
    wire = []
    if wire_s != ".":
        for ev in wire_s.split(","):
            c, k, kind, w, d = ev.split(":")
            wire.append((int(c), int(k), kind[0], unhex(w) if kind[0] == "W" else unhex(d), kind.endswith("!")))
    results = []
    for cal in res_s.split("/"):
        results.append([] if cal == "." else [(int(x.split("=")[0]), x.split("=")[1].split(":")[0], unhex(x.split(":")[1])) for x in cal.split(";")])
    return wire, results, lk, dn


def compare(case, res, mline):
    """'' when the model's prediction equals the real run on the property-relevant observables"""
    mw, mres, lk, dn = parse_model(mline)
    rw = res.wire
    if [(e[0], e[1], e[2], e[4]) for e in rw] != [(e[0], e[1], e[2], e[4]) for e in mw]:
        return f"wire (caller, op, call, failed): impl={[(e[0], e[1], e[2], e[4]) for e in rw]} model={[(e[0], e[1], e[2], e[4]) for e in mw]}"
    if [e[3] for e in rw if e[2] == "W" and not e[4]] != [e[3] for e in mw if e[2] == "W" and not e[4]]:
        return "written bytes differ"
    if case["cut"] is None and [e[3] for e in rw if e[2] == "R" and not e[4]] != [e[3] for e in mw if e[2] == "R" and not e[4]]:
        return f"bytes returned by reads differ: impl={[e[3] for e in rw if e[2] == 'R']} model={[e[3] for e in mw if e[2] == 'R']}"
    for c in range(len(case["progs"])):
        real = []
        for k, out in enumerate(res.results[c]):
            if out[0] != "cancelled":       # an operation abandoned while waiting for the lock is in no log of the model either
                real.append((k, "ok" if out[0] == "ok" else "fail", op_reads(rw, (c, k))))
        if real != mres[c]:
            return f"caller {c}: outcomes/reads impl={real} model={mres[c]}"
    if (lk == "L-") != res.lock_free_at_end or (dn == "D1") != res.all_done:
        return f"end state: impl lock_free={res.lock_free_at_end} all_done={res.all_done} model={lk} {dn}"
    return ""


# ---------------------------------------------------------------- case generation
STEPS = {"sync": {"gp": 3, "si": 5, "sir": 5, "int1": 5, "int2": 9}, "async": {"gp": 2, "si": 3, "sir": 3, "int1": 3, "int2": 5}}


def gen_cases(ck, tier):
    rng = ck.rng
    cases = []
    cap = EXH_CAP_QUICK if tier == "quick" else EXH_CAP_THOROUGH

    def add(fam, stack, kinds, sched, lock=True, fault=None, cut=None, tops=0):
        cases.append({"fam": fam, "stack": stack, "lock": lock, "progs": [mk_prog(c, ks) for c, ks in enumerate(kinds)],
                      "kinds": [list(k) for k in kinds], "sched": list(sched), "fault": list(fault) if fault else None, "cut": cut, "tops": tops})

    one = ("gp", "si", "sir", "int1")
    for stack in ("sync", "async"):
        st = STEPS[stack]
        # A: two callers, one operation each, EVERY schedule up to the cap (then the fair tail)
        for x, y in itertools.product(one if tier == "quick" else one + ("int2",), repeat=2):
            L = min(st[x] + st[y], cap)
            if tier == "quick" and st[x] + st[y] > cap:
                L = cap - 1
            for sch in S.all_schedules(2, L):
                add("exh2", stack, [[x], [y]], sch)
        # A': with a transport fault at every call position of caller 0 / caller 1
        for x, y in (("si", "gp"), ("gp", "si"), ("si", "si"), ("int1", "sir")) if tier == "quick" else itertools.product(one, repeat=2):
            L = min(st[x] + st[y], 8 if tier == "thorough" else 5)
            nx = {"gp": 2, "si": 4, "sir": 4, "int1": 4}
            for who, cnt in ((0, nx[x]), (1, nx[y])):
                for k in range(1, cnt + 1):
                    for sch in S.all_schedules(2, L):
                        add("exh2-fault", stack, [[x], [y]], sch, fault=(who, k))
        # B: two callers, two or three operations each: bounded preemption + PRNG
        multi = [[["gp", "si"], ["si", "gp"]], [["si", "sir"], ["int2", "gp"]], [["int1", "gp", "si"], ["sir", "si"]]]
        for kinds in multi:
            for sch in S.bounded_preemption(2, 3, 4 if tier == "quick" else 7):
                add("bp2", stack, kinds, sch, cut=rng.choice([None, None, 1, 3, 7]))
            for _ in range(40 if tier == "quick" else 600):
                nact = sum(len(k) for k in kinds) * 5
                fault = (rng.randrange(2), rng.randint(1, 8)) if rng.random() < 0.4 else None
                add("rnd2", stack, kinds, S.random_schedule(rng, 2, rng.randint(1, nact)), fault=fault,
                    cut=None if fault else rng.choice([None, 1, 2, 5, 16]), tops=BIG_TIMEOUT if rng.random() < 0.15 else 0)
        # C: three and four callers: bounded preemption + PRNG, with and without a fault
        for n in (3, 4):
            pool = ("gp", "si", "sir", "int1", "int2")
            bp = list(S.bounded_preemption(n, 2, 3 if tier == "quick" else 5))
            if tier == "quick":
                bp = bp[:: max(1, len(bp) // 150)]
            for i, sch in enumerate(bp):
                kinds = [[pool[(i + c) % 5]] + ([pool[(i + 2 * c + 1) % 4]] if (i + c) % 3 == 0 else []) for c in range(n)]
                fault = (i % n, 1 + (i // n) % 6) if i % 4 == 3 else None
                add(f"bp{n}", stack, kinds, sch, fault=fault, cut=None if fault else (None, 1, 4)[i % 3])
            for _ in range(60 if tier == "quick" else 1500):
                kinds = [[rng.choice(pool) for _ in range(rng.randint(1, 2))] for _ in range(n)]
                fault = (rng.randrange(n), rng.randint(1, 9)) if rng.random() < 0.4 else None
                add(f"rnd{n}", stack, kinds, S.random_schedule(rng, n, rng.randint(1, 40), stick=rng.choice([0.2, 0.5, 0.8])),
                    fault=fault, cut=None if fault else rng.choice([None, 1, 3, 8]), tops=BIG_TIMEOUT if rng.random() < 0.1 else 0)
        # D: a task gives up (cancel / asyncio timeout) while it WAITS for the lock: cancel events in the schedule
        if stack == "async":
            L = 5 if tier == "quick" else 7
            for j, kinds in enumerate(([["si"], ["gp", "si"], ["sir"]], [["int1"], ["si"], ["gp"]])):
                for sch in itertools.product((0, 1, 2, 11), repeat=L - j if tier == "quick" else L):
                    if 11 in sch:
                        add("exh3-cancel", stack, kinds, sch)
            for sch in itertools.product((0, 1, 10, 11), repeat=L):
                if 10 in sch or 11 in sch:
                    add("exh2-cancel", stack, [["si", "gp"], ["gp", "si"]], sch)
            for n in (2, 3, 4):
                for _ in range(80 if tier == "quick" else 2000):
                    kinds = [[rng.choice(("gp", "si", "sir", "int1", "int2")) for _ in range(rng.randint(1, 3))] for _ in range(n)]
                    fault = (rng.randrange(n), rng.randint(1, 9)) if rng.random() < 0.3 else None
                    sch = S.with_cancels(rng, S.random_schedule(rng, n, rng.randint(2, 30), stick=rng.choice([0.2, 0.5, 0.8])), n, p=rng.choice([0.1, 0.3]))
                    add(f"rnd{n}-cancel", stack, kinds, sch, fault=fault, cut=None if fault else rng.choice([None, 1, 4]),
                        tops=BIG_TIMEOUT if rng.random() < 0.2 else 0)
        # U: channel_lock off (sanity of the rig + advisory correspondence)
        for x, y in (("si", "si"), ("gp", "si"), ("int1", "sir")):
            L = min(st[x] + st[y], cap if tier == "thorough" else 7)
            for sch in S.all_schedules(2, L):
                add("unlocked", stack, [[x], [y]], sch, lock=False)
    return cases


def case_tags(case, res):
    contended = any(k == "-blocked" for _, k in res.steps)
    return (case["fam"], case["stack"], f"callers={len(case['progs'])}", "fault" if case["fault"] else "no-fault",
            f"cut={case['cut']}", "contended" if contended else "uncontended", "cancel-while-waiting" if res.cancelled else "no-cancel", "timeout-decorator" if case["tops"] else "timeout-off",
            *{f"op={k}" for ks in case["kinds"] for k in ks})


def slim(case):
    return {k: case[k] for k in ("stack", "lock", "kinds", "sched", "fault", "cut", "tops")}


def load_case(c):
    c = dict(c)
    c.setdefault("fam", "corpus")
    c.setdefault("tops", 0)
    c.setdefault("cut", None)
    c.setdefault("fault", None)
    c["progs"] = [mk_prog(i, ks) for i, ks in enumerate(c["kinds"])]
    return c


def matcher(case):
    return None


# ---------------------------------------------------------------- the run
def execute(cases, with_serial):
    """run every case on the real code; returns list of (case, shapes, schedule, RunResult, serial RunResult|None)"""
    out = [None] * len(cases)
    rig_s = Rig("sync")
    for i, case in enumerate(cases):
        if case["stack"] != "sync":
            continue
        shapes, sch, res = run_sync_case(rig_s, case)
        ser = None
        if case["lock"] and with_serial(case, res):
            _, _, ser = run_sync_case(rig_s, case, schedule=serial_schedule(res, case["stack"], len(case["progs"])) + S.round_robin(len(case["progs"]), total_steps(shapes)))
        out[i] = (case, shapes, sch, res, ser)

    async def all_async():
        rig_a = Rig("async")
        for i, case in enumerate(cases):
            if case["stack"] != "async":
                continue
            shapes, sch, res = await run_async_case(rig_a, case)
            ser = None
            if case["lock"] and with_serial(case, res):
                _, _, ser = await run_async_case(rig_a, case, schedule=serial_schedule(res, case["stack"], len(case["progs"])) + S.round_robin(len(case["progs"]), total_steps(shapes)))
            out[i] = (case, shapes, sch, res, ser)

    asyncio.run(all_async())
    return out


def hammer(nthreads=4, nops=40):
    """smoke test only: plain threads, the real threading.Lock, no controller"""
    conn, t = make_conn("cisco_iosxe", device(), stack="sync", transport_cls=SimTransport, channel_lock=True)
    t.open()
    t.buf.clear()
    wrong = []

    def work(c):
        for k in range(nops):
            cmd = f"show c{c}o{k}"
            try:
                r = conn.channel.send_input(cmd)
                if r[1] != f"out<{cmd}>".encode():
                    wrong.append((c, k, r[1]))
            except BaseException as e:  # noqa: BLE001
                wrong.append((c, k, repr(e)))
                return

    ths = [threading.Thread(target=work, args=(c,), daemon=True) for c in range(nthreads)]
    for th in ths:
        th.start()
    for th in ths:
        th.join(60)
    return {"threads": nthreads, "ops_each": nops, "wrong": len(wrong), "sample": [str(w) for w in wrong[:3]], "alive": sum(th.is_alive() for th in ths)}


def async_hammer(seed, ntasks=4, nops=25):
    """the REAL asyncio.Lock contended for real (no controller, no stand-in): tasks queue in `asyncio.Lock.acquire()`, a
    canceller cancels random tasks — parked in the real acquire() or in the middle of an operation.  Deterministic in the seed
    (one event loop, seeded PRNG).  Checked: every operation's transport calls are contiguous, no RuntimeError / foreign
    exception, everybody ends, the lock is free."""
    import random
    from harness.simtransport import AsyncSimTransport, SimStall
    rng = random.Random(seed)
    cur = {}

    class T(AsyncSimTransport):
        calls = []

        def _tag(self):
            self.calls.append(cur.get(asyncio.current_task().get_name()))

        def write(self, channel_input):
            self._tag()
            AsyncSimTransport.write(self, channel_input)

        async def read(self):
            await asyncio.sleep(0)          # a real switch point inside the lock context
            self._tag()
            return await AsyncSimTransport.read(self)

    async def go():
        conn, t = make_conn("cisco_iosxe", device(), stack="async", transport_cls=T, channel_lock=True)
        await t.open()
        t.buf.clear()
        lock = conn.channel.channel_lock
        stats = {"ok": 0, "cancelled": 0, "stall": 0, "other": []}

        async def work(c):
            me = asyncio.current_task()
            for k in range(nops):
                cur[me.get_name()] = (c, k)
                try:
                    kind = (c + k) % 3
                    if kind == 0:
                        await conn.channel.get_prompt()
                    elif kind == 1:
                        await conn.channel.send_input(f"show c{c}o{k}")
                    else:
                        await conn.channel.send_inputs_interact([(f"show c{c}o{k}e0", PROMPT.decode()), (f"show c{c}o{k}e1", PROMPT.decode())])
                    stats["ok"] += 1
                except asyncio.CancelledError:
                    me.uncancel()
                    stats["cancelled"] += 1
                except SimStall:
                    stats["stall"] += 1
                except Exception as e:  # noqa: BLE001
                    stats["other"].append(f"{(c, k)}: {e!r}")

        tasks = []
        for c in range(ntasks):
            tk = asyncio.ensure_future(work(c))
            tk.set_name(f"w{c}")
            tasks.append(tk)

        async def canceller():
            while not all(x.done() for x in tasks):
                for _ in range(rng.randint(1, 6)):
                    await asyncio.sleep(0)
                live = [x for x in tasks if not x.done()]
                if live and rng.random() < 0.5:
                    rng.choice(live).cancel()

        await asyncio.wait_for(asyncio.gather(canceller(), *tasks), 120)
        order = [x for i, x in enumerate(T.calls) if i == 0 or T.calls[i - 1] != x]
        return {"tasks": ntasks, "ops_each": nops, **{k: v for k, v in stats.items() if k != "other"}, "other": stats["other"][:3],
                "n_other": len(stats["other"]), "interleaved_ops": len(order) - len(set(order)), "lock_locked": lock.locked()}

    return asyncio.run(go())


def timeout_scenario():
    """advisory (C07's business): a caller times out through the thread-pool mechanism while its worker is
    inside the lock context; what state is the lock in afterwards?"""
    from scrapli.exceptions import ScrapliTimeout
    dev = device()
    conn, t = make_conn("cisco_iosxe", dev, stack="sync", transport_cls=named(SimTransport, "SystemTransport"), channel_lock=True, on_empty="block", timeout_ops=0.3)
    t.open()
    t.buf.clear()
    t.silent = True     # the device never answers: the worker blocks in read() holding the lock
    t0 = time.time()
    try:
        conn.channel.send_input("show silent")
        first = "returned"
    except ScrapliTimeout:
        first = "ScrapliTimeout"
    except Exception as e:  # noqa: BLE001
        first = type(e).__name__
    dt = time.time() - t0
    locked = conn.channel.channel_lock.locked()
    try:
        conn.channel.get_prompt()
        second = "returned"
    except Exception as e:  # noqa: BLE001
        second = type(e).__name__
    return {"first_op": first, "seconds": round(dt, 2), "lock_held_after_timeout": locked, "transport_alive": t.isalive(), "next_op": second}


# ---------------------------------------------------------------- timed family: operations that END BY TIMEOUT
TIMED_HARD_LIMIT = 240         # a scenario process that is still there after this is killed (rig trouble, exit 2)
TIMED_SLACK = 8.0              # a caller still blocked timeout_ops + slack after the silent operation started counts as hung


def timed_scenarios(tier, rng):
    base = [
        {"tname": "SimTransport", "hung": ["si", "output"], "queued": [["gp"], ["si"]]},
        {"tname": "SystemTransport", "hung": ["gp", "output"], "queued": [["si"]], "queued_first": False},
        {"tname": "SimTransport", "hung": ["si", "echo"], "queued": [["si"], ["gp"]], "queued_first": True},
        {"tname": "SimTransport", "hung": ["int", "output"], "queued": [["sir"], ["gp"]]},
        {"tname": "TelnetTransport", "hung": ["sir", "output"], "queued": [["gp"]]},
        # a caller whose timeout expires while it WAITS for the lock (its pool worker is parked on it); the holder is slow, not dead
        {"waiter": True, "tname": "SimTransport", "hung": ["gp", "wait"], "queued": [["si"]], "a_timeout": 6.0, "a_delay": 2.0},
        {"waiter": True, "tname": "SystemTransport", "hung": ["si", "wait"], "queued": [], "a_timeout": 6.0, "a_delay": 2.0},
        # asyncio: the decorator's wait_for of a task expires while the task is parked in `async with self.channel_lock`
        {"waiter": True, "async_waiter": True, "tname": "AsyncSimTransport", "hung": ["gp", "wait"], "queued": [["si"]], "a_timeout": 6.0, "a_delay": 2.0},
    ]
    # Settings.NO_TERMINATE_ON_TIMEOUT on + a device that answers LATER than timeout_ops: nothing wakes the worker, its read
    # returns by itself; when the caller has its ScrapliTimeout the operation must be over (lock free, no worker, no further calls)
    base.append({"late": True, "no_terminate": True, "tname": "SimTransport", "hung": ["si", "late"], "queued": [], "a_delay": 1.5})
    base.append({"late": True, "no_terminate": True, "tname": "SystemTransport", "hung": ["int", "late"], "queued": [], "a_delay": 1.5})
    # the same on the asyncio stack (timeout_wrapper's asyncio branch), NO_TERMINATE_ON_TIMEOUT on and off: at the moment the caller
    # gets ScrapliTimeout the lock must be free and no task created by the operation pending; the next operation gets its own output
    base.append({"late": True, "async_late": True, "no_terminate": True, "tname": "AsyncSimTransport", "hung": ["si", "late"], "queued": [], "a_delay": 1.5})
    base.append({"late": True, "async_late": True, "no_terminate": False, "tname": "AsyncSimTransport", "hung": ["int", "late"], "queued": [], "a_delay": 1.5})
    if tier == "thorough":
        base.append({"late": True, "async_late": True, "no_terminate": True, "tname": "AsyncSimTransport", "hung": ["sir", "late"], "queued": [], "a_delay": 1.5})
        base.append({"late": True, "no_terminate": True, "tname": "TelnetTransport", "hung": ["sir", "late"], "queued": [], "a_delay": 1.5})
        base.append({"late": True, "no_terminate": False, "tname": "SimTransport", "hung": ["si", "late"], "queued": [], "a_delay": 1.5})
        base.append({"waiter": True, "async_waiter": True, "tname": "AsyncSimTransport", "hung": ["si", "wait"], "queued": [["gp"], ["sir"]],
                     "a_timeout": 6.0, "a_delay": 2.0})
    if tier == "thorough":
        for hk, when in itertools.product(("si", "sir", "gp", "int"), ("echo", "output")):
            for tn in ("SimTransport", "SystemTransport"):
                q = [[rng.choice(("gp", "si", "sir", "int"))] for _ in range(rng.randint(1, 3))]
                base.append({"tname": tn, "hung": [hk, when], "queued": q, "queued_first": rng.random() < 0.3})
    for sc in base:
        sc.setdefault("queued_first", False)
        sc["timeout_ops"] = 0.5        # the ONE caller that has to time out; callers queued behind it: +separation; all others 600 s
        sc["separation"] = 4.0
        sc["slack"] = TIMED_SLACK
    return base


def run_timed(scenarios):
    """every scenario in its own killable process, all at once; -> list of result dicts ({"rig_error": text} on rig trouble)"""
    script = str(VERIF / "tools" / "harness" / "c19_timed.py")
    procs = [subprocess.Popen([sys.executable, script, json.dumps(sc)], stdout=subprocess.PIPE, stderr=subprocess.PIPE, text=True,
                              env=dict(os.environ)) for sc in scenarios]
    out = []
    t_end = time.time() + TIMED_HARD_LIMIT
    for sc, p in zip(scenarios, procs):
        try:
            so, se = p.communicate(timeout=max(1.0, t_end - time.time()))
        except subprocess.TimeoutExpired:
            p.kill()
            p.communicate()
            out.append({"rig_error": f"process had to be killed after {TIMED_HARD_LIMIT}s (its main thread never blocks on scrapli)"})
            continue
        try:
            r = json.loads(so.strip().splitlines()[-1])
        except Exception:
            r = {"rig_error": f"process gave no result (rc={p.returncode}): {se[-1500:]}"}
        if "rig_error" not in r and sc.get("late") and (not r.get("late_answer_armed") or (r["hung"]["outcome"] or [""])[0] == "ok"):
            r = {"rig_error": f"late-answer scenario: the answer was not armed / came before the caller looked at its timer: {json.dumps(r)[:400]}"}
        if "rig_error" not in r and not r.get("lock_held_while_hung"):
            r = {"rig_error": f"the scenario did not get its first operation blocked inside the lock context: {json.dumps(r)[:600]}"}
        out.append(r)
    return out


def run_timed_robust(scenarios, attempts=3):
    """rig trouble (not a verdict about the code) is retried, then it is a harness error (exit 2), never a violation"""
    results = run_timed(scenarios)
    for _ in range(attempts - 1):
        again = [i for i, r in enumerate(results) if "rig_error" in r]
        if not again:
            break
        for i, r in zip(again, run_timed([scenarios[i] for i in again])):
            results[i] = r
    for sc, r in zip(scenarios, results):
        if "rig_error" in r:
            raise HarnessError(f"timed scenario {sc}: {r['rig_error']}")
    return results


def timed_expected(spec):
    e = expected(spec)
    return e if isinstance(e, str) else [x.decode("latin1") for x in e]


def late_oracle(sc, r):
    """NO_TERMINATE_ON_TIMEOUT + late answer: an operation that has ended for its caller must really be over.  All clauses are
    about recorded state / event order at the moment the caller got its exception, none about durations."""
    bad = []
    h, ax = r["hung"], r.get("at_exception") or {}
    if h["alive"]:
        bad.append("the operation whose device answered late never ended for its caller")
        return bad
    if h["outcome"][:2] != ["exc", "ScrapliTimeout"]:
        bad.append(f"the operation whose device answered after timeout_ops ended with {h['outcome']} instead of ScrapliTimeout")
    if ax.get("lock_locked"):
        bad.append("the caller has its ScrapliTimeout while the channel lock is still held by the operation that just ended for it")
    if ax.get("pool_threads_alive"):
        bad.append(f"the caller has its ScrapliTimeout while worker thread(s) of that call are still alive: {ax['pool_threads_alive']}")
    if r.get("ended_op_calls_after_exception"):
        bad.append(f"after its caller got ScrapliTimeout the ended operation's worker {r['ended_op_worker']} made {r['ended_op_calls_after_exception']} more transport call(s) (it consumed the late answer)")
    for q in r["queued"]:
        if q["alive"]:
            bad.append(f"the next operation {q['spec']} is still blocked")
        elif q["outcome"][0] != "ok" or q["outcome"][1] != timed_expected(q["spec"]):
            bad.append(f"the next operation {q['spec']} got {q['outcome']!r}, not the output of its own command")
    if r["lock_locked_after"]:
        bad.append("the channel lock is still held at the end")
    return bad


def timed_oracle(sc, r):
    """violated clauses of C19 for one timed scenario (real threads, real lock, real timeout decorator).  Which caller's timer
    fired first is taken from the RECORDED order of transport.close() calls (`closers`, the thread that ran `_handle_timeout`),
    not from wall-clock: that caller must get ScrapliTimeout; everybody else must end, with a scrapli error or its own result."""
    if sc.get("late"):
        return late_oracle(sc, r)
    bad = []
    lim = sc["timeout_ops"] + sc["slack"]
    h = r["hung"]
    role = "waited for the lock behind a slow operation" if sc.get("waiter") else "met a silent device"
    everybody = {x["name"]: x for x in [h] + r["queued"]}
    closers = r.get("closers", [])
    if h["alive"]:
        bad.append(f"the operation that {role} is still blocked {lim}s after it started (timeout_ops={sc['timeout_ops']}): it never timed out")
    elif not closers:
        bad.append(f"the operation that {role} ended with {h['outcome']} although nobody's timeout closed the transport")
    else:
        first = everybody.get(closers[0])
        if first is None:
            bad.append(f"the transport was closed by {closers[0]!r}, not by a caller's timeout")
        elif not first["alive"] and first["outcome"][:2] != ["exc", "ScrapliTimeout"]:
            bad.append(f"the timeout of caller {first['name']} fired first (it closed the transport) but its operation ended with {first['outcome']} instead of ScrapliTimeout")
        if h["outcome"][0] == "ok" or not h["outcome"][2]:
            bad.append(f"the operation that {role} ended with {h['outcome']}: neither ScrapliTimeout nor another scrapli error")
    for q in r["queued"]:
        if q["alive"]:
            bad.append(f"caller {q['name']} {q['spec']}, queued on the channel lock, is still blocked after {lim}s")
        elif q["outcome"][0] == "ok":
            if q["outcome"][1] != timed_expected(q["spec"]):
                bad.append(f"caller {q['name']} {q['spec']} got {q['outcome'][1]!r}, not the output of its own command")
        elif not q["outcome"][2]:
            bad.append(f"caller {q['name']} ended with a non-scrapli error {q['outcome']}")
    if r["lock_locked_after"]:
        bad.append("the channel lock is still held after the operation timed out")
    p2 = r.get("phase2")
    if p2 is not None:
        for q in p2["callers"]:
            if q["alive"]:
                bad.append(f"after re-opening: caller {q['name']} is blocked")
            elif q["outcome"][0] != "ok" or q["outcome"][1] != timed_expected(q["spec"]):
                bad.append(f"after re-opening: caller {q['name']} {q['spec']} got {q['outcome']!r}")
        if p2["lock_locked"]:
            bad.append("after re-opening: channel lock held at the end")
        if p2["owner_blocks"] != p2["owners"]:
            bad.append("after re-opening: transport calls of the two operations interleave")
    return bad


def waiter_model_line(sc):
    """the Lean model on the waiter scenario: the holder (caller 0) is parked before its last read; then the waiter's (caller 1)
    timeout expires at the lock — asyncio: `timeout 1` (cancel + close), threads: `close` (the worker stays queued and fails at
    its first call) — then everybody is run to the end"""
    def shape(kind, cmd):
        if kind == "gp":
            return ["w0a", "r"]
        return ["w" + cmd.encode().hex(), "r", "w0a", "r"]
    progs = [shape("si", "show silent"), shape(sc["hung"][0], "show c1o0")] + [shape(q[0], f"show c{i + 2}o0") for i, q in enumerate(sc["queued"])]
    n = len(progs)
    if sc.get("async_waiter"):
        sched = "00" + "B" + "".join(str(c) for c in range(n)) * 6
        mode = "a"
    else:
        sched = "0000" + "X" + "".join(str(c) for c in range(n)) * 6
        mode = "s"
    return f"{mode} 1 {PROMPT.hex()} {'/'.join(','.join(p) for p in progs)} {sched}"


def waiter_compare(sc, r, mline):
    """'' when model and real run agree on: transport closed, lock free, every operation that reached the transport failed,
    the holder's failing call is its pending read, the waiter's operation made no call (asyncio) / failed at its first (threads)"""
    parts = mline.split(" ")
    mw, mres, lk, dn = parse_model(" ".join(parts[:4]))
    closed = len(parts) > 4 and parts[4] == "C1"
    if not closed or lk != "L-" or dn != "D1":
        return f"model end state {parts[2:]}: expected closed, lock free, all done"
    if r["transport_alive_after"] or r["lock_locked_after"]:
        return f"impl: transport alive={r['transport_alive_after']} lock held={r['lock_locked_after']}, model: closed, free"
    model_cls = ["fail" if (mres[c] and mres[c][0][1] == "fail") else ("none" if not mres[c] else "ok") for c in range(len(mres))]
    real = {q["name"]: q for q in r["queued"]}
    real_cls = ["fail" if real["holder"]["outcome"][0] == "exc" else "ok"]
    real_cls.append("none" if sc.get("async_waiter") else "fail")      # the waiter itself raises ScrapliTimeout in both stacks
    real_cls += ["fail" if real[f"queued{i}"]["outcome"][0] == "exc" else "ok" for i in range(len(sc["queued"]))]
    if r["hung"]["outcome"][:2] != ["exc", "ScrapliTimeout"]:
        return f"impl: waiter ended with {r['hung']['outcome']}"
    if model_cls != real_cls:
        return f"operation outcomes impl={real_cls} model={model_cls}"
    holder_events = [e for e in mw if e[0] == 0]
    if not (holder_events and holder_events[-1][2] == "R" and holder_events[-1][4]):
        return "model: the holder's last event is not its failing read"
    return ""


def timed_family(ck, tier, closes_before_join, pool_joins=True):
    """runs the scenarios, oracle + comparison with the Lean protocol model (PoolTimeout); returns nothing"""
    scs = [c["timed"] for c in json.load(open(VERIF / "corpus" / "C19" / "corpus.json")) if "timed" in c]
    scs += [sc for sc in timed_scenarios(tier, ck.rng) if sc not in scs]
    results = run_timed_robust(scs)
    flipped = 0
    mout = None
    if closes_before_join is not None:
        try:
            # the sim transport's close() wakes a blocked read: closeWakes = 1; fair schedule: timeout, then (caller, worker) x 3
            def mline(sc):
                if sc.get("waiter"):
                    return waiter_model_line(sc)
                if sc.get("late"):
                    # caller thread alone, four steps: can ScrapliTimeout reach it while the worker still holds the lock?
                    return f"T2 {1 if closes_before_join else 0} {0 if sc.get('no_terminate') else 1} {1 if pool_joins else 0} 1 cccc"
                return f"T {1 if closes_before_join else 0} 1 ccwcwcw"
            mout = run_model("C19", [mline(sc) for sc in scs])
        except Exception as e:  # noqa: BLE001
            ck.proof_broken("model driver Drv/C19.lean (T)", repr(e))
    for i, (sc, r) in enumerate(zip(scs, results)):
        ck.case(("timed", json.dumps(sc, sort_keys=True)), nontrivial=True, sample={"timed": sc, "hung": r["hung"]},
                tags=("timed", "asyncio" if (sc.get("async_waiter") or sc.get("async_late")) else "threads", "waiter-times-out" if sc.get("waiter") else "late-answer-no-terminate" if sc.get("late") else "holder-times-out", f"transport={sc['tname']}", f"hung={sc['hung'][0]}/{sc['hung'][1]}", f"queued={len(sc['queued'])}"))
        for what in timed_oracle(sc, r)[:1]:
            ck.violation({"timed": sc, "observed": r}, what, matcher)
        if sc.get("late"):
            if mout is not None and not r["hung"]["alive"] and not sc.get("async_late"):     # PoolTimeout is the thread mechanism
                pc, lk, _cl = mout[i].split(" ")
                real = bool((r.get("at_exception") or {}).get("lock_locked"))
                model = pc == "raised" and lk == "1"
                if real != model:
                    ck.disagree("PoolTimeout model (join / late answer) vs thread-pool timeout", {"timed": sc},
                                f"ScrapliTimeout delivered while the lock is held: impl={real} model={model} (poolJoinsWorker={pool_joins})")
                else:
                    ck.traces_validated += 1
            continue
        modelled = (r.get("closers") or [None])[0] == ("waiter" if sc.get("waiter") else "hung") or r["hung"]["alive"]
        if not modelled:
            flipped += 1      # another caller's timer fired first (recorded): the models describe the other order; the oracle above still applies
        if mout is not None and sc.get("waiter") and modelled and not r["hung"]["alive"]:
            d = waiter_compare(sc, r, mout[i])
            if d:
                ck.disagree("Lock model (timeout at the lock closes the shared transport) vs real waiter timeout", {"timed": sc}, d)
            else:
                ck.traces_validated += 1
        if mout is not None and not sc.get("waiter") and modelled:
            pc, lk, _cl = mout[i].split(" ")
            real = ("raised" if (not r["hung"]["alive"] and r["hung"]["outcome"][:2] == ["exc", "ScrapliTimeout"]) else "blocked",
                    "1" if r["lock_locked_after"] else "0")
            model = ("raised" if pc == "raised" else "blocked", lk)
            if real != model:
                ck.disagree("PoolTimeout model vs thread-pool timeout", {"timed": sc}, f"impl={real} model={model} (closeBeforeJoin={closes_before_join})")
            else:
                ck.traces_validated += 1
    ck.extra["timed_scenarios"] = len(scs)
    ck.extra["timed_scenarios_where_another_timer_fired_first(recorded)"] = flipped


def run(tier, seed):
    ck = Check(PID, tier, seed, level="proof")
    ck.rule = ("cases = (stack sync|asyncio) x 2-4 callers x programs of 1-3 operations from {get_prompt, send_input, send_input_and_read, "
               "send_inputs_interact with 1-2 events} x optional transport fault (ScrapliConnectionError at the k-th transport call of one "
               "caller) x read size (whole buffer | <= k bytes) x schedule; schedules: EVERY list of caller ids up to the cap for 2 callers "
               f"with one operation each (cap {EXH_CAP_QUICK} quick / {EXH_CAP_THOROUGH} thorough entries, also with a fault at every call "
               "position up to 5 / 8 entries), bounded-preemption schedules (<= 3 preemptions for 2 callers, <= 2 for 3-4) and PRNG schedules, every schedule "
               "followed by totalSteps fair round-robin rounds (the bound of theorem `progress`). Each case runs the real Channel/AsyncChannel "
               "under the deterministic scheduler and the Lean model under the SAME schedule. Non-trivial = some caller was refused the lock "
               "while another held it; distinct by (stack, programs, schedule, fault, read size). Oracle = contiguity of every operation's "
               "transport calls, own output per caller, completion after a fault, equality with the one-at-a-time run in the same order. "
               "Timed family (real threads, real threading.Lock, real timeout decorator, timeout_ops=0.5 for the one caller that has to time out (callers queued behind it 4 s later, others 600 s, per thread), blocking sim transport, each scenario in "
               "its own killable process): one operation meets a device that goes silent (before the echo / after the return; get_prompt, "
               "send_input, send_input_and_read, interact) while 1-3 callers are queued on the lock; oracle: it ends by ScrapliTimeout, nobody is "
               "still blocked timeout_ops+8s later, lock free, queued callers end with their own result or a scrapli error, the re-opened "
               "connection serves two fresh callers; compared with the Lean PoolTimeout protocol model fed with the generated close/join order; "
               "also: a caller whose timeout expires while it WAITS for the lock behind a slow holder; and Settings.NO_TERMINATE_ON_TIMEOUT on with a "
               "device that answers 1.5 s after the return (timeout_ops 0.5): at the moment the caller gets ScrapliTimeout the lock must be free, no "
               "worker thread / task of that call alive, no later transport call by it, and the next operation gets its own output (threads and asyncio). "
               "In every scheduler run, the moment an operation returns/raises to its caller it must not hold the lock nor have anybody suspended at a "
               "yield point on its behalf. asyncio schedules additionally contain "
               "CANCEL events (task.cancel() ONLY while the task is parked at the lock; a real timeout there additionally closes the shared transport: timed scenario async_waiter): every list over "
               "{run 0,1,2, cancel 1} of 5 (7) entries for 3 tasks, over {run 0,1, cancel 0,1} of 5 (7) for 2 tasks, PRNG for 2-4 tasks; "
               "a cancelled operation must make no transport call and leave the lock alone.")
    ck.trusted = ["Lean 4.33.0 kernel; axioms of every theorem audited ⊆ {propext, Classical.choice, Quot.sound}",
                  "tools/gen/c19.py (AST walk: which transport-reaching calls are inside `with self._channel_lock()`; shape of _channel_lock)",
                  "tools/harness/sched.py deterministic scheduler + tools/harness/simdevice.py causal device + props/c19.py comparison"]
    ck.assumptions = ["partial: real OS thread / event-loop scheduling is replaced by the controlled scheduler (switches only at transport calls "
                      "and at the lock); CPython's threading.Lock / asyncio.Lock / contextlib are modelled as acquire / release-on-every-exit",
                      "the per-operation list of transport calls given to the model is taken from a solo run of that operation on the real code",
                      "interaction with the thread-pool timeout (a timed-out worker still inside the lock context) belongs to C07; one advisory scenario in thorough",
                      "channel primitives read/write/send_return and driver code using them directly (read_callback, on_close hooks) take no lock by design: outside the quantifier"]
    try:
        translate.translate(PID)
    except Exception as e:
        ck.proof_broken("translator gen/c19.py", repr(e))
    try:
        from gen import c19 as gen_c19
        closes_before_join, _closes, pool_joins = gen_c19.pool_timeout_order()
    except Exception:  # noqa: BLE001 — already reported by the translator step
        closes_before_join, pool_joins = None, True
    ck.prove("ScrapliProps.C19", lemma_files=["ScrapliProps/C19Lemmas.lean", "ScrapliModel/Lock.lean"])
    if tier == "thorough":
        ck.leanchecker("ScrapliProps.C19")

    corpus = [load_case(c) for c in json.load(open(VERIF / "corpus" / "C19" / "corpus.json")) if "timed" not in c]
    cases = corpus + gen_cases(ck, tier)
    counter = itertools.count()

    def with_serial(case, res):
        n = next(counter)
        return case["fam"] == "corpus" or n % (2 if case["fault"] else 4) == 0

    try:
        runs = execute(cases, with_serial)
    except S.HarnessStuck as e:
        raise HarnessError(f"scheduler stuck: {e}")
    lines = [model_line(case, shapes, sch, res) for case, shapes, sch, res, _ser in runs]
    try:
        mout = run_model("C19", lines)
    except Exception as e:
        ck.proof_broken("model driver Drv/C19.lean", repr(e))
        mout = None

    unlocked_total = unlocked_interleaved = unlocked_agree = 0
    serial_checked = 0
    for idx, (case, shapes, sch, res, ser) in enumerate(runs):
        harness = [o for outs in res.results for o in outs if o[0] == "harness"]
        if harness:
            raise HarnessError(f"caller thread died in the harness: {harness[0]} case={slim(case)}")
        rec = {**slim(case), "schedule_run": sched_str(sch)}
        if not case["lock"]:
            unlocked_total += 1
            unlocked_interleaved += bool(interleaved(res.wire))
            if mout is not None:
                mw = parse_model(mout[idx])[0]
                n = min(len(mw), len(res.wire))
                unlocked_agree += [(e[0], e[1], e[2]) for e in res.wire[:n]] == [(e[0], e[1], e[2]) for e in mw[:n]]
            continue
        contended = any(k == "-blocked" for _, k in res.steps)
        ck.case((case["stack"], json.dumps(case["kinds"]), tuple(sch), str(case["fault"]), case["cut"], case["tops"]),
                nontrivial=contended, sample={**slim(case), "wire": [f"{e[0]}.{e[1]}{e[2]}{'!' if e[4] else ''}" for e in res.wire][:24]},
                tags=case_tags(case, res))
        serial_checked += ser is not None
        for what in oracle(case, res, ser)[:1]:
            ck.violation({**rec, "wire": [(e[0], e[1], e[2], e[3].decode("latin1"), e[4]) for e in res.wire],
                          "results": [[list(map(str, o)) for o in outs] for outs in res.results]}, what, matcher)
        if mout is not None:
            d = compare(case, res, mout[idx])
            if d:
                ck.disagree(f"Lock model vs {case['stack']} channel", rec, d)
            else:
                ck.traces_validated += 1
    timed_family(ck, tier, closes_before_join, pool_joins)
    if unlocked_total and not unlocked_interleaved:
        raise HarnessError("with channel_lock off no schedule produced an interleaving: the rig cannot see what it is meant to exclude")
    ck.extra["unlocked_runs"] = unlocked_total
    ck.extra["unlocked_runs_interleaved"] = unlocked_interleaved
    ck.extra["unlocked_runs_model_agrees_on_prefix(advisory)"] = unlocked_agree
    ck.extra["serial_equivalence_reruns"] = serial_checked
    ck.extra["programs"] = len({json.dumps(c["kinds"]) + c["stack"] for c in cases})
    ck.exhaustive = True
    ck.extra["exhaustive_scope"] = (f"2 callers x one operation each from {{get_prompt, send_input, send_input_and_read, send_inputs_interact(1)}} x EVERY "
                                   f"list of caller ids of length min(steps, {EXH_CAP_QUICK if tier == 'quick' else EXH_CAP_THOROUGH}) + fair tail; sync and asyncio; "
                                   "also with a fault at every call position")
    # the REAL locks, contended for real (no stand-in, no controller)
    for hseed in range(3 if tier == "quick" else 20):
        try:
            hr = async_hammer(seed * 1000 + hseed)
        except asyncio.TimeoutError:
            raise HarnessError("asyncio hammer did not end within 120 s")
        ck.case(("async-hammer", seed, hseed), nontrivial=hr["cancelled"] > 0, sample={"async_hammer": hr}, tags=("hammer", "asyncio", "real-asyncio.Lock"))
        if hr["interleaved_ops"] or hr["n_other"] or hr["lock_locked"]:
            ck.violation({"async_hammer_seed": seed * 1000 + hseed, "observed": hr},
                         f"real asyncio.Lock, random cancels: interleaved operations={hr['interleaved_ops']}, unexpected exceptions={hr['other']}, lock held at the end={hr['lock_locked']}", matcher)
        ck.extra.setdefault("async_hammer", []).append(hr)
    th = hammer(nops=25 if tier == "quick" else 60)
    ck.case(("thread-hammer", seed), nontrivial=True, sample={"thread_hammer": th}, tags=("hammer", "threads", "real-threading.Lock"))
    if th["wrong"] or th["alive"]:
        ck.violation({"thread_hammer": th}, f"real threads on the real threading.Lock: {th['wrong']} operations did not get their own output / {th['alive']} threads stuck: {th['sample']}", matcher)
    ck.extra["real_thread_hammer"] = th
    if tier == "thorough":
        try:
            ck.extra["timeout_while_holding_lock(advisory, C07)"] = timeout_scenario()
        except Exception as e:  # noqa: BLE001
            ck.extra["timeout_while_holding_lock(advisory, C07)"] = {"error": repr(e)}
    return ck.finish()


def replay(path):
    r = json.load(open(path))
    v = (r.get("violation") or {}).get("case")
    if v is not None and "async_hammer_seed" in v:
        hr = async_hammer(v["async_hammer_seed"])
        print("async hammer", hr)
        return 1 if (hr["interleaved_ops"] or hr["n_other"] or hr["lock_locked"]) else 0
    if v is not None and "thread_hammer" in v:
        th = hammer()
        print("thread hammer (real threads: not deterministic)", th)
        return 1 if (th["wrong"] or th["alive"]) else 0
    if v is not None and "timed" in v:
        sc = v["timed"]
        res = run_timed_robust([sc])[0]
        print("scenario", sc)
        print("observed", json.dumps(res, indent=1))
        bad = timed_oracle(sc, res)
        for b in bad:
            print("VIOLATED:", b)
        return 1 if bad else 0
    if v is None:
        for b in r.get("no_longer_checks", []):
            if isinstance(b.get("case"), dict):
                v = b["case"]
                break
    if v is None:
        print("nothing to replay in", path)
        return 0
    case = load_case({k: v[k] for k in ("stack", "lock", "kinds", "sched", "fault", "cut", "tops") if k in v})
    if case["stack"] == "sync":
        shapes, sch, res = run_sync_case(Rig("sync"), case)
    else:
        async def go():
            return await run_async_case(Rig("async"), case)
        shapes, sch, res = asyncio.run(go())
    print("case    ", slim(case))
    print("schedule", sched_str(sch), "(digits: run caller; letters a..: cancel caller 0.. while it waits for the lock)")
    print("steps   ", " ".join(f"{c}{k[0] if not k.startswith('-') else k}" for c, k in res.steps if k != "-done"))
    for e in res.wire:
        print("  wire   caller %d op %d %s%s %r" % (e[0], e[1], e[2], " FAILED" if e[4] else "", e[3]))
    for c, outs in enumerate(res.results):
        print("  caller", c, outs)
    print("deadlock=%s all_done=%s lock_free=%s" % (res.deadlock, res.all_done, res.lock_free_at_end))
    bad = oracle(case, res) if case["lock"] else []
    for b in bad:
        print("VIOLATED:", b)
    try:
        m = run_model("C19", [model_line(case, shapes, sch, res)])[0]
        print("model   ", m)
        print("model-vs-impl:", compare(case, res, m) or "equal")
    except Exception as e:  # noqa: BLE001
        print("model unavailable:", e)
    return 1 if bad else 0
