"""C12 — scenarios of the dynamic validation: every operation (also failing ones) is run on the REAL scrapli
objects with canary secrets, everything observable at a sink is collected as an *exhibit*.
Used by props/c12.py (oracle + tie to the static flow graph)."""
import asyncio, base64, io, logging, os, random, string, sys, tempfile, traceback, urllib.parse
from pathlib import Path

from vlib.common import REPO
from harness.simdevice import CliDevice
import threading
from harness.simtransport import AsyncSimTransport, DRIVERS, FaultPlan, SimStall, SimTransport, named
from harness.simtransport import make_conn as _sim_make_conn
from harness.secretdevice import BadSecretDevice, DialogueDevice, LoginDevice
from harness import c12real as RR

OPS_TIMEOUT = 0.25      # seconds: operation timeout of the runs where the REAL timeout decorator has to fire
MECHS = ("signal", "threadname", "nonmain", "asyncio")


_BLOCKSIM = []


def _blocksim():
    """SimTransport whose blocking read polls with time.sleep and whose close() takes no lock.  The shared class waits on a
    threading.Event; the signal flavour of the timeout decorator runs transport.close() (-> Event.set()) INSIDE the signal
    handler, i.e. possibly while the interrupted main thread holds the Event's non-reentrant lock in Event.wait(): the
    process then deadlocks (seen once in a seeded run; rig race, not scrapli's)."""
    if _BLOCKSIM:
        return _BLOCKSIM[0]
    import time as _time
    from scrapli.decorators import timeout_wrapper
    from scrapli.exceptions import ScrapliConnectionError

    class BlockSim(SimTransport):
        def close(self):
            self.trace.append(("close",))
            self.opened = False

        @timeout_wrapper
        def read(self):
            self._pre_read()
            if not self.buf:
                if self.on_empty == "stall":
                    self.trace.append(("stall",))
                    raise SimStall()
                t0 = _time.monotonic()
                while not self.buf:
                    _time.sleep(0.003)
                    if not self.opened:
                        raise ScrapliConnectionError("transport closed while blocked in read")
                    if _time.monotonic() - t0 > RR.HARD_CAP:
                        raise RR.RigStall()
            return self._take()
    _BLOCKSIM.append(BlockSim)
    return BlockSim


def make_conn(platform, device, stack="sync", **kw):
    """simtransport.make_conn + the timeout mechanism of the current scenario (spec["mech"]): the device may go silent
    (fault action "silent"), reads block, timeout_ops is small and the REAL decorator ends the operation:
      signal     - Sim transport, main thread (SIGALRM / setitimer)
      threadname - the same transport under the class name SystemTransport (thread pool, selected by class name)
      nonmain    - Sim transport, the whole scenario runs in a worker thread (thread pool, selected by thread)
      asyncio    - asyncio stack (wait_for)"""
    spec = _CUR.get("spec") or {}
    mech = spec.get("mech")
    if mech:
        kw["on_empty"] = "block"
        kw["timeout_ops"] = spec.get("timeout_ops", OPS_TIMEOUT)
        kw.pop("transport_cls", None)
    if stack == "sync" and kw.get("on_empty") == "block" and not kw.get("transport_cls"):
        kw["transport_cls"] = named(_blocksim(), "SystemTransport") if mech == "threadname" else _blocksim()
    return _sim_make_conn(platform, device, stack, **kw)

SECRET_ROLES = ("PW", "PP", "SEC", "HID")          # auth_password, passphrase, auth_secondary, hidden interact input
PROBE_ROLES = ("USR", "NHI", "CMD", "UID")         # not secret: used to validate the extraction on flows that DO happen
META = ["", "%s", "%(x)s", "{0}", "{}", "\\", "$^.*", "'\"", "%", "}{", "\\x41", "%r%d", "[a-z]+", "(?i)", "|", "\\\\"]
PLATFORMS = ("cisco_iosxe", "cisco_nxos", "arista_eos", "juniper_junos", "cisco_iosxr")
ALNUM = string.ascii_letters + string.digits


class Canary:
    def __init__(self, role, rng, meta=None):
        self.role = role
        self.core = role + "q" + "".join(rng.choice(ALNUM) for _ in range(11))
        pre, post = (meta if meta is not None else (rng.choice(META), rng.choice(META)))
        self.meta = (pre, post)
        self.full = pre + self.core + post
        c = self.core.encode()
        self.forms = {self.core, c.hex(), base64.b64encode(c).decode().rstrip("="), urllib.parse.quote(self.full)}
        self.forms = {f for f in self.forms if len(f) >= 8}

    def found_in(self, text):
        return any(f in text for f in self.forms)


class Canaries(dict):
    def __init__(self, seed, key, meta=None):
        super().__init__()
        rng = random.Random(f"{seed}:{key}")
        for r in SECRET_ROLES + PROBE_ROLES:
            m = meta if (meta is not None and r in SECRET_ROLES) else (("", "") if r in PROBE_ROLES else None)
            self[r] = Canary(r, rng, m)


class Capture(logging.Handler):
    def __init__(self):
        super().__init__(level=logging.DEBUG)
        self.records = []

    def emit(self, record):
        self.records.append(record)


class Exhibit:
    """one observable text at a sink. kind: log | repr | str | exc | chanlog | file ; gating says whether the property
    speaks about it (third-party exception objects in a cause chain and Response reprs are advisory)"""

    def __init__(self, kind, text, site=None, gating=True, what="", func=""):
        self.kind, self.text, self.site, self.gating, self.what, self.func = kind, text, site, gating, what, func


def rel_site(filename, lineno):
    try:
        rel = str(Path(filename).resolve().relative_to(Path(REPO).resolve()))
    except ValueError:
        return None
    return (rel, lineno) if rel.startswith("scrapli/") else None


def record_exhibits(rec):
    texts = []
    try:
        texts.append(rec.getMessage())
    except Exception as e:  # formatting error: still look at the raw parts
        texts.append(f"<format error {e!r}>")
    texts.append(repr(rec.msg))
    texts.append(repr(rec.args))
    std = logging.LogRecord("x", 0, "", 0, "", (), None).__dict__
    for k, v in rec.__dict__.items():
        if k not in std or k in ("exc_text", "stack_info"):
            texts.append(f"{k}={v!r}")
    if rec.exc_info:
        texts.append("".join(traceback.format_exception(*rec.exc_info)))
    return Exhibit("log", "\n".join(texts), site=rel_site(rec.pathname, rec.lineno), what=f"{rec.name}:{rec.levelname}", func=rec.funcName)


def exception_exhibits(exc):
    out, seen, todo = [], set(), [(exc, "raised")]
    while todo:
        e, how = todo.pop()
        if e is None or id(e) in seen:
            continue
        seen.add(id(e))
        site = None
        tb = e.__traceback__
        while tb is not None:
            s = rel_site(tb.tb_frame.f_code.co_filename, tb.tb_lineno)
            if s is not None:
                site = s
            tb = tb.tb_next
        mod = type(e).__module__ or ""
        ours = mod.startswith("scrapli") or how == "raised"
        text = "\n".join([str(e), repr(e), repr(e.args), repr(getattr(e, "message", ""))])
        out.append(Exhibit("exc", text, site=site, gating=ours, what=f"{type(e).__name__} ({how})"))
        todo.append((e.__cause__, "cause"))
        todo.append((e.__context__, "context"))
    return out


class TaintTracker:
    """interior of the secret closure vs a real run: while a scenario runs, every call / return of a function of
    the package is inspected (sys.setprofile); each local variable (and each attribute of `self`) whose value holds
    a SECRET canary (str / bytes directly, containers and dataclasses through their repr) is recorded as
    (file, qualname, variable) resp. attribute name.  props/c12.py requires every one of them to be a node of the
    static closure `reach(sources)`: a tainted variable outside the closure is a missing edge of the extraction on a
    secret's own path."""

    def __init__(self):
        self.seen = {}      # ("v", rel, qual, name) | ("a", attr) -> (role, scenario key)
        self._tl = threading.local()
        self.can = None
        self.key = ""
        self._rel = {}
        self.frames = 0

    def start(self, can, key):
        self.can = [(r, c.core, c.core.encode()) for r, c in can.items() if r in SECRET_ROLES]
        self.key = key
        threading.setprofile(self._prof)     # worker threads of the thread-pool timeout started from now on
        sys.setprofile(self._prof)

    def stop(self):
        sys.setprofile(None)
        threading.setprofile(None)

    def _role(self, v, depth=0):
        import dataclasses
        try:
            if isinstance(v, str):
                for r, core, _ in self.can:
                    if core in v:
                        return r
                return None
            if isinstance(v, (bytes, bytearray)):
                for r, _, b in self.can:
                    if b in v:
                        return r
                return None
            if isinstance(v, (list, tuple, dict, set, frozenset)) or (dataclasses.is_dataclass(v) and not isinstance(v, type)):
                if isinstance(v, (list, tuple, dict, set, frozenset)) and len(v) > 200:
                    return None
                return self._role(repr(v), depth + 1) if depth < 2 else None
        except Exception:
            return None
        return None

    def _prof(self, frame, event, arg):
        if event not in ("call", "return") or getattr(self._tl, "busy", False):
            return
        code = frame.f_code
        fn = code.co_filename
        rel = self._rel.get(fn)
        if rel is None:
            s_ = rel_site(fn, 1) if "scrapli" in fn else None
            rel = self._rel[fn] = s_[0] if s_ else ""
        if not rel:
            return
        self._tl.busy = True
        try:
            self.frames += 1
            qual = code.co_qualname
            for suffix in (".<locals>.<genexpr>", ".<locals>.<listcomp>", ".<locals>.<dictcomp>", ".<locals>.<setcomp>", ".<locals>.<lambda>"):
                while qual.endswith(suffix):
                    qual = qual[: -len(suffix)]
            if qual.startswith("<"):
                return
            if ".<locals>." in qual:
                qual = f"{qual}#L{code.co_firstlineno}"
            for name, val in list(frame.f_locals.items()):
                if name.startswith("."):
                    continue
                r = self._role(val)
                if r:
                    self.seen.setdefault(("v", rel, qual, name), (r, self.key))
                if name == "self":
                    try:
                        items = list(vars(val).items())
                    except TypeError:
                        items = []
                    for a, av in items:
                        ra = self._role(av)
                        if ra:
                            self.seen.setdefault(("a", a), (ra, self.key))
        finally:
            self._tl.busy = False


TRACKER = TaintTracker()


class Runner:
    """runs a scenario body on the sync or the asyncio stack with the same code"""

    def __init__(self, stack):
        self.stack = stack
        self.loop = asyncio.new_event_loop() if stack == "async" else None

    hook = None

    def do(self, fn, *a, **k):
        try:
            r = fn(*a, **k)
            if self.loop is not None and asyncio.iscoroutine(r):
                return self.loop.run_until_complete(r)
            return r
        finally:
            if self.hook is not None:
                self.hook()     # look at the driver after EVERY operation, also a failed one

    def close(self):
        if self.loop is not None:
            self.loop.close()


class _FastAsyncio:
    """stand-in for the `asyncio` name inside scrapli.channel.async_channel: identical except that the fixed
    0.1 s pause of the asyncio login loops is skipped (the simulated device answers at once)"""

    def __getattr__(self, name):
        return getattr(asyncio, name)

    @staticmethod
    def sleep(delay, result=None):
        return asyncio.sleep(0, result)


class fast_login_loops:
    def __enter__(self):
        import scrapli.channel.async_channel as AC
        self.mod, self.old = AC, AC.asyncio
        AC.asyncio = _FastAsyncio()

    def __exit__(self, *a):
        self.mod.asyncio = self.old


class _TimeoutOnStallMixin:
    """a transport whose read raises ScrapliTimeout where the driver would wait forever (what the real
    timeout decorator does after timeout_transport seconds)"""


def _mk_timeout_transports():
    from scrapli.exceptions import ScrapliTimeout

    class TSim(SimTransport):
        def read(self):
            try:
                return SimTransport.read(self)
            except SimStall:
                raise ScrapliTimeout("timed out reading from transport") from None

    class ATSim(AsyncSimTransport):
        async def read(self):
            try:
                return await AsyncSimTransport.read(self)
            except SimStall:
                raise ScrapliTimeout("timed out reading from transport") from None
    return TSim, ATSim


class Result:
    def __init__(self, key, can):
        self.key, self.can = key, can
        self.exhibits = []
        self.outcome = "ok"
        self.echoed = set()      # roles whose token the device echoed back (legitimately visible in reads)
        self.nreads = self.nwrites = 0
        self.advisory = []
        self.conn = None
        self.line = None         # harness.c12real.Line of the scenarios over a REAL transport plugin
        self.user_args = {}      # mutable objects the "user" handed to scrapli: deep-scanned afterwards


def _conn_exhibits(res, conn, when):
    res.exhibits.append(Exhibit("repr", repr(conn), site=("repr", "__repr__"), what=f"repr(conn) {when}"))
    res.exhibits.append(Exhibit("str", str(conn), site=("repr", "__str__"), what=f"str(conn) {when}"))


def _object_exhibits(res, conn, when):
    """repr/str of the objects behind the driver: transport, channel, the args dataclasses.  The property speaks about
    the DRIVER's repr; `PluginTransportArgs` is a plain dataclass that carries the password by design, so these are
    advisory exhibits (scanned and counted), except transport / channel objects themselves, which have no business
    showing a secret: gating."""
    objs = [("transport", getattr(conn, "transport", None), True), ("channel", getattr(conn, "channel", None), True),
            ("_base_transport_args", getattr(conn, "_base_transport_args", None), False),
            ("_base_channel_args", getattr(conn, "_base_channel_args", None), True),
            ("plugin_transport_args", getattr(getattr(conn, "transport", None), "plugin_transport_args", None), False)]
    for name, o, gating in objs:
        if o is None:
            continue
        try:
            text = repr(o) + "\n" + str(o)
        except Exception as e:
            text = f"<repr failed {e!r}>"
        res.exhibits.append(Exhibit("objrepr", text, gating=gating, what=f"repr({name}) {when}"))


def force_debug_everywhere():
    """every logger under `scrapli` (also ones created meanwhile by name) hands its records on at DEBUG"""
    root = logging.getLogger("scrapli")
    root.setLevel(logging.DEBUG)
    root.disabled = False
    for name, lg in list(logging.root.manager.loggerDict.items()):
        if name.startswith("scrapli.") and isinstance(lg, logging.Logger):
            lg.setLevel(logging.NOTSET)
            lg.propagate = True
            lg.disabled = False


def run_scenario(key, spec, seed, cap, meta=None):
    """spec: dict(kind=…, stack=…, …).  Returns Result with every exhibit."""
    from scrapli.exceptions import ScrapliException
    can = Canaries(seed, key, meta)
    res = Result(key, can)
    R = Runner(spec["stack"])
    cap.records.clear()
    force_debug_everywhere()
    _CUR["res"] = res
    _CUR["spec"] = spec
    nmid = [0]

    def hook():
        if res.conn is not None and nmid[0] < 40:
            nmid[0] += 1
            _conn_exhibits(res, res.conn, f"after op {nmid[0]}")
    R.hook = hook
    try:
        try:
            if spec.get("mech") == "nonmain":
                _in_worker_thread(spec, can, res, R, key)
            else:
                TRACKER.start(can, key)
                try:
                    SCENARIOS[spec["kind"]](spec, can, res, R)
                finally:
                    TRACKER.stop()
        except SimStall:
            res.outcome = "stall"
        except RR.RigStall:
            res.outcome = "rigstall"
        except ScrapliException as e:
            res.outcome = type(e).__name__
            res.exhibits += exception_exhibits(e)
        except Exception as e:   # a non-scrapli exception: still scan it (advisory unless raised by scrapli code)
            res.outcome = "other:" + type(e).__name__
            res.exhibits += exception_exhibits(e)
        for name, obj in res.user_args.items():
            res.exhibits.append(Exhibit("userarg", repr(obj), gating=False, what=f"user supplied {name} afterwards"))
        if res.conn is not None:
            _conn_exhibits(res, res.conn, "after")
            _object_exhibits(res, res.conn, "after")
            cl = getattr(res.conn.channel, "channel_log", None) or res.conn._base_channel_args.channel_log
            if isinstance(cl, io.BytesIO) and not cl.closed:
                res.exhibits.append(Exhibit("chanlog", cl.getvalue().decode("utf-8", "replace"), what="channel log"))
            t = res.conn.transport
            res.nreads, res.nwrites = getattr(t, "nreads", 0), getattr(t, "nwrites", 0)
            # which tokens did the device send back?  (reads of the transport)
            src = res.line if res.line is not None else t
            if res.line is not None:
                res.nreads, res.nwrites = res.line.nreads, res.line.nwrites
            if hasattr(src, "reads"):
                back = b"".join(src.reads()).decode("utf-8", "replace")
                for r, c in can.items():
                    if c.core in back:
                        res.echoed.add(r)
    finally:
        R.close()
    for rec in cap.records:
        res.exhibits.append(record_exhibits(rec))
    return res


def _in_worker_thread(spec, can, res, R, key):
    """the whole scenario in a thread that is not the main thread (the timeout decorator must then use its thread pool)"""
    box = []

    def body():
        TRACKER.start(can, key)
        try:
            SCENARIOS[spec["kind"]](spec, can, res, R)
        except BaseException as e:      # handed to the caller's thread
            box.append(e)
        finally:
            sys.setprofile(None)
    th = threading.Thread(target=body, name="c12-nonmain", daemon=True)
    th.start()
    th.join(60)
    threading.setprofile(None)
    if th.is_alive():
        raise RR.RigStall()
    if box:
        raise box[0]


# ---------------------------------------------------------------- scenario bodies
_CUR = {"res": None, "spec": None}


def user_transport_options():
    """what a user may pass: sub-dictionaries / lists for every transport (all mutable, kept by reference)"""
    return {"asyncssh": {"keepalive_interval": 30, "login_timeout": 5}, "paramiko": {"banner_timeout": 5},
            "open_cmd": ["-o", "KexAlgorithms=+diffie-hellman-group1-sha1"], "ptyprocess": {"rows": 40, "cols": 200},
            "enable_rsa2": False}


def _common_kw(can, **kw):
    d = dict(auth_username=can["USR"].full, auth_password=can["PW"].full, auth_private_key_passphrase=can["PP"].full,
             channel_log=io.BytesIO(), logging_uid=can["UID"].full, transport_options=user_transport_options())
    d.update(kw)
    if _CUR["res"] is not None:
        _CUR["res"].user_args["transport_options"] = d["transport_options"]
    return d


def _faults(spec):
    f = spec.get("fault")
    if not f:
        return None
    from scrapli.exceptions import ScrapliTimeout
    where, k, action = f
    act = ScrapliTimeout("timed out reading from transport") if action == "timeout" else action
    return [FaultPlan(at_read=k if where == "read" else None, at_write=k if where == "write" else None, action=act)]


def _tcls(spec):
    if spec.get("timeout_on_stall"):
        TS, ATS = _mk_timeout_transports()
        return TS if spec["stack"] == "sync" else ATS
    return None


def sc_telnet(spec, can, res, R):
    good = spec.get("variant", "ok") == "ok"
    inner = CliDevice("generic", hostname="r1")
    dev = LoginDevice(inner, mode="telnet", username=can["USR"].full, password=can["PW"].full if good else "other-pw",
                      retry="password" if spec.get("variant") == "badrepass" else "default", max_tries=9)
    tname = "telnet" if spec["stack"] == "sync" else "asynctelnet"
    # (asyncio login loop polls with wait_for(read, timeout_ops / 20): it needs a non-zero timeout_ops)
    extra = dict(timeout_ops=5) if spec["stack"] == "async" else {}
    conn, t = make_conn("generic", dev, spec["stack"], faults=_faults(spec), transport_cls=_tcls(spec),
                        **_common_kw(can, transport=tname, auth_bypass=False, **extra))
    res.conn = conn
    _conn_exhibits(res, conn, "before")
    with fast_login_loops():
        if spec.get("ctx"):
            _with(conn, R)
            return
        R.do(conn.open)
        R.do(conn.send_command, "show " + can["CMD"].core)
        R.do(conn.close)


def _with(conn, R):
    if R.loop is None:
        with conn:
            conn.get_prompt()
    else:
        async def go():
            async with conn:
                await conn.get_prompt()
        R.loop.run_until_complete(go())


def sc_ssh(spec, can, res, R):
    v = spec.get("variant", "ok")
    inner = CliDevice("generic", hostname="r1")
    dev = LoginDevice(inner, mode="ssh", username=can["USR"].full, host="sim", max_tries=9,
                      deny_text="Access denied" if v == "badpwquiet" else "Permission denied, please try again.",
                      password=can["PW"].full if v not in ("badpw", "badpwquiet") else "other-pw",
                      passphrase=(can["PP"].full if v in ("phrase", "badpw") else "other-phrase" if v == "badphrase" else None))
    if spec["stack"] == "sync":
        conn, t = make_conn("generic", dev, "sync", faults=_faults(spec), transport_cls=_tcls(spec),
                            **_common_kw(can, transport="system", auth_bypass=False))
        res.conn = conn
        _conn_exhibits(res, conn, "before")
        if spec.get("ctx"):
            _with(conn, R)
            return
        conn.open()
        conn.send_command("show " + can["CMD"].core)
        conn.close()
    else:
        conn, t = make_conn("generic", dev, "async", faults=_faults(spec), transport_cls=_tcls(spec),
                            **_common_kw(can, timeout_ops=5))
        res.conn = conn
        _conn_exhibits(res, conn, "before")
        with fast_login_loops():
            R.do(t.open)
            conn.channel.open()
            R.do(conn.channel.channel_authenticate_ssh, auth_password=conn.auth_password,
                 auth_private_key_passphrase=conn.auth_private_key_passphrase)
            R.do(conn.send_command, "show " + can["CMD"].core)
            R.do(conn.close)


def sc_escalate(spec, can, res, R):
    plat, v = spec["platform"], spec.get("variant", "ok")
    # variant "nopass": the device asks for no password at all although the driver has an auth_secondary
    # variant "denied": the device gives one try; a wrong auth_secondary is answered with an error line and the PREVIOUS
    # prompt, so the read after the hidden input ends on an interaction-complete pattern (authenticated escalation FAILS)
    dcls = BadSecretDevice if v == "denied" else CliDevice
    dev = dcls(plat, hostname="r1", user="admin", login_mode="exec" if plat != "cisco_iosxr" else None,
               enable_password=None if v == "nopass" else can["SEC"].full if v in ("ok", "priverr") else "other-secret")
    conn, t = make_conn(plat, dev, spec["stack"], faults=_faults(spec), transport_cls=_tcls(spec),
                        **_common_kw(can, auth_secondary=can["SEC"].full))
    res.conn = conn
    _conn_exhibits(res, conn, "before")
    R.do(conn.open)
    if plat == "juniper_junos":
        R.do(conn.acquire_priv, "root_shell")
        R.do(conn.acquire_priv, "exec")
    elif plat == "cisco_iosxr":
        R.do(conn.acquire_priv, "configuration")
    R.do(conn.send_command, "show " + can["CMD"].core)
    if v == "priverr":
        R.do(conn.acquire_priv, "no-such-level")
    R.do(conn.close)


def sc_interactive(spec, can, res, R):
    """user-level send_interactive with a hidden input on a generic driver, then the response object is used"""
    h = spec.get("hidden", True)
    dev = DialogueDevice("r1>", ["Password: ", "r1#", "r1#", "r1#"], [False, True, False], echo_all=False)
    conn, t = make_conn("generic", dev, spec["stack"], faults=_faults(spec), transport_cls=_tcls(spec), **_common_kw(can))
    res.conn = conn
    R.do(conn.open)
    events = [("enable " + can["NHI"].core, "Password:", False), (can["HID"].full, "r1#", h)]
    fwc = ["% Invalid"]
    res.user_args["failed_when_contains"] = fwc
    resp = R.do(conn.send_interactive, events, failed_when_contains=fwc)
    resp.textfsm_platform = "cisco_ios"
    resp.genie_platform = "iosxe"
    try:
        resp.textfsm_parse_output()
    except Exception as e:   # optional extra missing / parser trouble: scan what was raised
        res.exhibits += exception_exhibits(e)
    try:
        resp.genie_parse_output()
    except Exception as e:
        res.exhibits += exception_exhibits(e)
    try:
        resp.ttp_parse_output(template=12345)  # invalid template: logs it
    except Exception as e:
        res.exhibits += exception_exhibits(e)
    res.exhibits.append(Exhibit("repr", repr(resp) + "\n" + str(resp) + "\n" + repr(resp.channel_input), gating=False, what="repr(response)"))
    R.do(conn.close)


def sc_interactive_early(spec, can, res, R):
    """a multi step interaction that ends early: the prompt the first event expects never comes, one of the
    interaction_complete_patterns matches instead, a hidden event is still pending (the device is then at an
    ordinary prompt, where it echoes what is typed)"""
    if spec.get("variant") == "denied":
        # the password prompt comes, the hidden input is typed there (no echo) and REJECTED: error line + the old prompt,
        # which is a completion pattern and not the response the hidden event expects
        dev = DialogueDevice("r1>", ["Password: ", "% Bad secret\nr1>", "r1>"], [False, True, False], echo_all=False)
        expect2 = "r1#"
    else:
        dev = DialogueDevice("r1>", ["r1>", "r1>", "r1>"], [False, False, False], echo_all=False)
        expect2 = "r1>"
    conn, t = make_conn("generic", dev, spec["stack"], faults=_faults(spec), transport_cls=_tcls(spec), **_common_kw(can))
    res.conn = conn
    R.do(conn.open)
    events = [("clear thing " + can["NHI"].core, "Password:", False), (can["HID"].full, expect2, True),
              ("y" + can["NHI"].core, "r1>", False)]
    resp = R.do(conn.send_interactive, events, interaction_complete_patterns=["r1>"])
    res.exhibits.append(Exhibit("repr", repr(resp) + "\n" + repr(resp.result) + repr(resp.raw_result), gating=False, what="response of the interaction"))
    R.do(conn.close)


def sc_net_interactive(spec, can, res, R):
    """send_interactive through a network driver (privilege handling on top), hidden input = the enable password"""
    plat = spec.get("platform", "cisco_iosxe")
    dev = CliDevice(plat, hostname="r1", enable_password=can["HID"].full)
    conn, t = make_conn(plat, dev, spec["stack"], faults=_faults(spec), transport_cls=_tcls(spec),
                        **_common_kw(can, auth_secondary=can["SEC"].full))
    res.conn = conn
    R.do(conn.open)
    R.do(conn.send_interactive, [("disable", "r1>", False)], privilege_level="privilege_exec")
    pat = conn.privilege_levels["privilege_exec"].pattern
    resp = R.do(conn.send_interactive, [("enable", "Password:", False), (can["HID"].full, pat, True)], privilege_level="exec")
    res.exhibits.append(Exhibit("repr", repr(resp), gating=False, what="repr(response)"))
    cfg = R.do(conn.send_configs, ["hostname " + can["CMD"].core])
    R.do(conn.close)


def sc_factory(spec, can, res, R):
    from scrapli import AsyncScrapli, Scrapli
    cls, tr = (Scrapli, "system") if spec["stack"] == "sync" else (AsyncScrapli, "asyncssh")
    conn = cls(platform=spec.get("platform", "cisco_iosxe"), host="sim", transport=tr, auth_username=can["USR"].full,
               auth_password=can["PW"].full, auth_private_key_passphrase=can["PP"].full, auth_secondary=can["SEC"].full,
               auth_strict_key=False, logging_uid=can["UID"].full, transport_options=res.user_args.setdefault("transport_options", user_transport_options()))
    _conn_exhibits(res, conn, "factory")
    try:
        cls(platform=12, host="sim", auth_password=can["PW"].full)
    except Exception as e:
        res.exhibits += exception_exhibits(e)
    try:
        cls(platform="cisco_iosxe", host="", transport=tr, auth_password=can["PW"].full, auth_secondary=can["SEC"].full)
    except Exception as e:
        res.exhibits += exception_exhibits(e)
    try:
        cls(platform="cisco_iosxe", host="sim", transport=tr, auth_password=can["PW"].full, auth_strict_key="not-a-bool")
    except Exception as e:
        res.exhibits += exception_exhibits(e)


# ---- library boundary: paramiko / asyncssh transports' own open() with fakes
class _FakeSock:
    def __init__(self, **kw):
        self.sock = object()
        self.alive = False

    def isalive(self):
        return self.alive

    def open(self):
        self.alive = True

    def close(self):
        self.alive = False


def sc_paramiko(spec, can, res, R):
    import scrapli.transport.plugins.paramiko.transport as PT
    from paramiko.ssh_exception import AuthenticationException
    from scrapli.driver import Driver
    v = spec.get("variant", "authfail")
    seen = {}

    class FakeSession:
        def __init__(self, sock):
            pass

        def start_client(self):
            if v == "handshake":
                raise OSError("handshake failed: connection reset by peer")

        def auth_password(self, username, password):
            seen["password"] = password
            raise AuthenticationException("Authentication failed.")

        def auth_publickey(self, username, key):
            raise AuthenticationException("Authentication failed.")

        def is_authenticated(self):
            return False

        def is_alive(self):
            return True
    keyfile = None
    kw = dict(host="sim", transport="paramiko", auth_username=can["USR"].full, auth_password=can["PW"].full,
              auth_private_key_passphrase=can["PP"].full, auth_strict_key=False, logging_uid=can["UID"].full, timeout_transport=0,
              transport_options=res.user_args.setdefault("transport_options", user_transport_options()))
    if v == "keyonly":
        fd, keyfile = tempfile.mkstemp(prefix="c12key")
        os.close(fd)
        kw.update(auth_private_key=keyfile, auth_username="")
    old = (PT._ParamikoTransport, PT.Socket)
    PT._ParamikoTransport, PT.Socket = FakeSession, _FakeSock
    try:
        conn = Driver(**kw)
        res.conn = conn
        _conn_exhibits(res, conn, "before")
        conn.open()
    finally:
        PT._ParamikoTransport, PT.Socket = old
        if keyfile:
            os.unlink(keyfile)
        res.advisory.append(("library saw password", seen.get("password") == can["PW"].full))


class _FakeStream:
    def write(self, data):
        return None

    def at_eof(self):
        return False

    async def read(self, n):
        return b"r1> "


class _FakeAsyncsshSession:
    _auth_complete = True
    _transport = None

    async def open_session(self, **kw):
        return _FakeStream(), _FakeStream(), _FakeStream()

    def get_server_host_key(self):
        return None

    def close(self):
        pass


class _FakePty:
    """stands in for PtyProcess: the 'ssh' child is the login device"""
    last = None

    def __init__(self, dev):
        self.dev, self.buf, self.alive = dev, bytearray(dev.connect()), True

    def read(self, n):
        if not self.buf:
            if getattr(self.dev, "state", "") == "dead":
                raise EOFError("End Of File (EOF)")
            raise SimStall()
        out = bytes(self.buf[:n])
        del self.buf[:n]
        return out

    def write(self, data):
        self.buf += self.dev.on_write(bytes(data))

    def close(self):
        self.alive = False

    def isalive(self):
        return self.alive

    def eof(self):
        return False


def sc_system(spec, can, res, R):
    """the real SystemTransport (open_cmd building and logging, user supplied open_cmd / ptyprocess options);
    only PtyProcess.spawn is replaced, the child it would start is the non-echoing login device"""
    import scrapli.transport.plugins.system.transport as ST
    from scrapli.driver import GenericDriver
    v = spec.get("variant", "ok")
    inner = CliDevice("generic", hostname="r1")
    dev = LoginDevice(inner, mode="ssh", username=can["USR"].full, host="sim", max_tries=2,
                      password=can["PW"].full if v == "ok" else "other-pw", passphrase=can["PP"].full)
    spawned = {}

    class FakePtyProcess:
        @staticmethod
        def spawn(cmd, echo=True, rows=80, cols=256):
            spawned["cmd"] = list(cmd)
            return _FakePty(dev)
    old = ST.PtyProcess
    ST.PtyProcess = FakePtyProcess
    try:
        conn = GenericDriver(host="sim", transport="system", auth_strict_key=False, timeout_ops=0, timeout_transport=0,
                             **_common_kw(can))
        res.conn = conn
        _conn_exhibits(res, conn, "before")
        R.do(conn.open)
        R.do(conn.send_command, "show " + can["CMD"].core)
        R.do(conn.close)
    finally:
        ST.PtyProcess = old
        res.exhibits.append(Exhibit("userarg", repr(spawned), gating=True, what="argv of the ssh child process"))


def sc_asyncssh(spec, can, res, R):
    import scrapli.transport.plugins.asyncssh.transport as AT
    from asyncssh.misc import PermissionDenied
    from scrapli.driver import AsyncDriver
    v = spec.get("variant", "authfail")
    seen = {}

    async def fake_connect(**kw):
        seen.update(kw)
        if v == "authfail":
            raise PermissionDenied("Permission denied for user %s on host %s" % (kw.get("username"), kw.get("host")))
        if v == "timeout":
            raise asyncio.TimeoutError()
        if v == "oserror":
            raise OSError(111, "Connect call failed ('sim', 22)")
        return _FakeAsyncsshSession() if v == "ok" else None
    old = AT.connect
    AT.connect = fake_connect
    try:
        conn = AsyncDriver(host="sim", transport="asyncssh", auth_username=can["USR"].full, auth_password=can["PW"].full,
                           auth_private_key_passphrase=can["PP"].full, auth_strict_key=False, logging_uid=can["UID"].full,
                           timeout_transport=0, timeout_ops=0,
                           transport_options=res.user_args.setdefault("transport_options", user_transport_options()))
        res.conn = conn
        _conn_exhibits(res, conn, "before")
        if spec.get("ctx"):
            async def go():
                async with conn:
                    pass
            R.loop.run_until_complete(go())
        else:
            R.do(conn.open)
            if v == "ok":
                conn.channel.write("show " + can["CMD"].core)
                R.do(conn.close)
    finally:
        AT.connect = old
        res.advisory.append(("library saw password", seen.get("password") == can["PW"].full))


def sc_real_timeout(spec, can, res, R):
    """the real timeout decorator (timeout_ops > 0): hidden input never answered"""
    dev = DialogueDevice("r1>", ["Password: ", ""], [False, True], echo_all=False)
    conn, t = make_conn("generic", dev, spec["stack"], on_empty="block", **_common_kw(can, timeout_ops=0.15))
    res.conn = conn
    R.do(conn.open)
    R.do(conn.send_interactive, [("enable " + can["NHI"].core, "Password:", False), (can["HID"].full, "never#", True)])

# ---- the REAL transport plugins over a scripted line (harness/c12real.py): faults at the library boundary
REAL_STACK = {"telnet": "sync", "system": "sync", "paramiko": "sync", "asynctelnet": "async", "asyncssh": "async"}


def sc_real(spec, can, res, R):
    """spec: transport (plugin name), work = login | interactive | escalate, platform, fault=(where, k, action).
    telnet / asynctelnet: in-channel login with user name + password; system: in-channel ssh login with key passphrase +
    password; paramiko / asyncssh: the library authenticates (fake accepts), the channel carries the later secrets.
    timeout_ops is small and real: telnet / system -> thread pool, paramiko -> signal, asyncio transports -> wait_for."""
    import scrapli.driver as D
    import scrapli.driver.core as C
    tr, work, plat = spec["transport"], spec["work"], spec.get("platform", "generic")
    stack = REAL_STACK[tr]
    if work == "escalate":
        inner = CliDevice(plat, hostname="r1", user="admin", login_mode="exec" if plat != "cisco_iosxr" else None,
                          enable_password=can["SEC"].full)
    elif work == "interactive":
        inner = DialogueDevice("r1>", ["Password: ", "r1#", "r1#", "r1#"], [False, True, False], echo_all=False)
    else:
        inner = CliDevice("generic", hostname="r1")
    if tr in ("telnet", "asynctelnet"):
        dev = LoginDevice(inner, mode="telnet", username=can["USR"].full, password=can["PW"].full, max_tries=9)
    elif tr == "system":
        dev = LoginDevice(inner, mode="ssh", username=can["USR"].full, host="sim", max_tries=2, password=can["PW"].full,
                          passphrase=can["PP"].full)
    else:
        dev = inner
    line = RR.Line(dev, spec.get("fault"))
    res.line = line
    seen, spawned, undo = {}, {}, []

    def patch(mod, name, value):
        undo.append((mod, name, getattr(mod, name)))
        setattr(mod, name, value)
    if tr == "telnet":
        import scrapli.transport.plugins.telnet.transport as M
        patch(M, "Socket", lambda **kw: RR.FakeSocket(line))
    elif tr == "asynctelnet":
        import scrapli.transport.plugins.asynctelnet.transport as M
        patch(M, "asyncio", RR.AsyncioWithLine(line))
    elif tr == "system":
        import scrapli.transport.plugins.system.transport as M
        patch(M, "PtyProcess", RR.fake_ptyprocess(line, spawned))
    elif tr == "paramiko":
        import scrapli.transport.plugins.paramiko.transport as M
        patch(M, "_ParamikoTransport", RR.fake_paramiko_session(line, seen))
        patch(M, "Socket", RR.PlainSocket)
    else:
        import scrapli.transport.plugins.asyncssh.transport as M
        patch(M, "connect", RR.fake_asyncssh_connect(line, seen))
    name = DRIVERS[plat][0 if stack == "sync" else 1]
    cls = getattr(C, name, None) or getattr(D, name)
    try:
        conn = cls(host="sim", transport=tr, auth_strict_key=False, timeout_ops=spec.get("timeout_ops", OPS_TIMEOUT),
                   timeout_transport=0, **_common_kw(can, **({"auth_secondary": can["SEC"].full} if plat != "generic" else {})))
        res.conn = conn
        _conn_exhibits(res, conn, "before")
        with fast_login_loops():
            R.do(conn.open)
            if work == "interactive":
                events = [("enable " + can["NHI"].core, "Password:", False), (can["HID"].full, "r1#", True)]
                resp = R.do(conn.send_interactive, events)
                res.exhibits.append(Exhibit("repr", repr(resp) + "\n" + str(resp) + "\n" + repr(resp.channel_input), gating=False,
                                            what="repr(response)"))
            elif work == "escalate":
                if plat == "juniper_junos":
                    R.do(conn.acquire_priv, "root_shell")
                    R.do(conn.acquire_priv, "exec")
                elif plat == "cisco_iosxr":
                    R.do(conn.acquire_priv, "configuration")
            resp = R.do(conn.send_command, "show " + can["CMD"].core)
            res.exhibits.append(Exhibit("repr", repr(resp) + "\n" + str(resp), gating=False, what="repr(response)"))
            R.do(conn.close)
    finally:
        for mod, name_, old in reversed(undo):
            setattr(mod, name_, old)
        if spawned:
            res.exhibits.append(Exhibit("userarg", repr(spawned), gating=True, what="argv of the ssh child process"))
        if seen:
            res.advisory.append(("library saw password", seen.get("password") == can["PW"].full))


SCENARIOS = {"real": sc_real, "telnet": sc_telnet, "ssh": sc_ssh, "escalate": sc_escalate, "interactive": sc_interactive,
             "net_interactive": sc_net_interactive, "factory": sc_factory, "paramiko": sc_paramiko, "asyncssh": sc_asyncssh,
             "real_timeout": sc_real_timeout, "system": sc_system, "interactive_early": sc_interactive_early}
