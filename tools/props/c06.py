"""C06 — sync and asyncio drivers behave identically.

Part 1 (proof): parity table of every public method / parameter / default of every sync-async class pair,
  generated from BOTH ASTs (tools/gen/c06.py) and decided in Lean (ScrapliProps/C06.lean, parity_table);
  tied to the live classes by an independent inspect.signature comparison.  Structural tie: the list of twin
  functions whose normalised bodies differ is pinned to the audited set (twin_diffs_audited).
Part 2 (translation validation): IDENTICAL scenarios run through BOTH real driver stacks over the simulated
  transports (harness/c06scen.py) and, for the Telnet pair, over real sockets (harness/c06telnet.py); oracle =
  pairwise equality of bytes written, results, exception types, privilege belief, device log.  The one code
  path written differently (in-channel Telnet login) is modelled in Lean (ScrapliModel/ParityRun.lean,
  auth_variants_agree) and the model is compared with both real login loops event by event."""
import asyncio, copy, importlib, inspect, itertools, json, os, time, warnings

from vlib.common import VERIF, Check, hexl, hexs, run_model
import translate

PID = "C06"
FINDINGS_FILE = VERIF / "findings" / "C06.json"
CORPUS = VERIF / "corpus" / "C06" / "corpus.json"


# =====================================================================================================
# part 1: parity of the live classes (oracle, independent of the AST path of the translator)
# =====================================================================================================
KINDS = {inspect.Parameter.POSITIONAL_ONLY: "posonly", inspect.Parameter.POSITIONAL_OR_KEYWORD: "pos",
         inspect.Parameter.VAR_POSITIONAL: "varargs", inspect.Parameter.KEYWORD_ONLY: "kwonly", inspect.Parameter.VAR_KEYWORD: "varkw"}


def _canon_default(d):
    if d is inspect.Parameter.empty:
        return None
    if inspect.isfunction(d) or inspect.isclass(d):
        return "fn:" + d.__name__
    return repr(d)


def _sig(obj):
    f = obj.__func__ if isinstance(obj, (staticmethod, classmethod)) else obj
    return [(p.name, KINDS[p.kind], _canon_default(p.default)) for p in inspect.signature(f).parameters.values()]


def live_mismatches():
    """compare the imported sync and async classes: -> (set of (class key, method, param, field), number of methods compared)"""
    from gen import c06 as G
    out, n = set(), 0
    for key, srel, arel, classes in G.PAIRS:
        sm = importlib.import_module(srel[:-3].replace("/", "."))
        am = importlib.import_module(arel[:-3].replace("/", "."))
        pairs = [(f"module:{key}", sm, am, None)]
        for sname, aname in classes:
            sc, ac = getattr(sm, sname), getattr(am, aname, None)
            if ac is None:
                out.add((f"{key}:{sname}", "", "", "class-missing"))
                continue
            sb = [G.CLASS_MAP.get(b.__name__, b.__name__) for b in sc.__bases__]
            ab = [G.CLASS_MAP.get(b.__name__, b.__name__) for b in ac.__bases__]
            if sb != ab:
                out.add((f"{key}:{sname}", "", "", "bases"))
            pairs.append((f"{key}:{sname}", sc, ac, sname))
        for ckey, so, ao, cname in pairs:
            sd = {k: v for k, v in vars(so).items() if G.is_public(k) and (inspect.isfunction(v) or isinstance(v, (staticmethod, classmethod)))
                  and (cname is not None or getattr(v, "__module__", None) == so.__name__)}
            ad = {G.DUNDER_MAP.get(k, k): v for k, v in vars(ao).items()}
            for m, sv in sd.items():
                n += 1
                av = ad.get(m)
                if av is None or not (inspect.isfunction(av) or isinstance(av, (staticmethod, classmethod))):
                    out.add((ckey, m, "", "method-missing"))
                    continue
                ps, pa = _sig(sv), _sig(av)
                for p, q_ in zip(ps, pa):
                    if p[0] != q_[0]:
                        out.add((ckey, m, p[0], "name"))
                        continue
                    if p[1] != q_[1]:
                        out.add((ckey, m, p[0], "kind"))
                    if p[2] != q_[2]:
                        out.add((ckey, m, p[0], "default"))
                if len(ps) != len(pa):
                    out.add((ckey, m, "", "arity"))
    return out, n


def live_coroutine_mismatches():
    """imported classes: no public sync method is a coroutine function; a public method of an async class is one iff it is not in the
    audited plain list -> (set of (class key, method, what), set of live plain (class key, method))"""
    from gen import c06 as G
    plain = set(G.plain_async_methods())
    out, live_plain = set(), set()
    for key, srel, arel, classes in G.PAIRS:
        sm = importlib.import_module(srel[:-3].replace("/", "."))
        am = importlib.import_module(arel[:-3].replace("/", "."))
        objs = [(f"module:{key}", sm, am, True)] + [(f"{key}:{sn}", getattr(sm, sn), getattr(am, an, None), False) for sn, an in classes]
        for ckey, so, ao, is_mod in objs:
            if ao is None:
                continue
            for side, o in (("sync", so), ("async", ao)):
                for k, v in vars(o).items():
                    f = v.__func__ if isinstance(v, (staticmethod, classmethod)) else v
                    if not (G.is_public(k) and inspect.isfunction(f)) or (is_mod and getattr(f, "__module__", None) != o.__name__):
                        continue
                    src_file = (so if is_mod else importlib.import_module(o.__module__)).__file__ if side == "sync" else \
                        (ao if is_mod else importlib.import_module(o.__module__)).__file__
                    if inspect.unwrap(f).__code__.co_filename != src_file:      # generated by @dataclass (__init__, __repr__ ...): not in the source
                        continue
                    name = G.DUNDER_MAP.get(k, k)
                    co = inspect.iscoroutinefunction(f)
                    if side == "sync" and co:
                        out.add((ckey, name, "coroutine function in a sync class"))
                    if side == "async":
                        if not co:
                            live_plain.add((ckey, name))
                        if co == ((ckey, name) in plain):
                            out.add((ckey, name, "coroutine but audited as plain" if co else "plain function but not audited as plain"))
    return out, live_plain


# =====================================================================================================
# part 2a: in-channel Telnet login — real loops vs Lean machines
# =====================================================================================================
TOKENS = [b"login: ", b"Login:", b"Username: ", b"username:", b"Password: ", b"password:", b"\n", b"\r\n", b"r1#", b"r1>", b"sw-1.lab(config)#",
          b"Last login: Mon Jan 1\n", b"Welcome\n", b"Login incorrect\n", b"admin@host's password: ", b"$", b" ", b"\t", b"x", b"#",
          b"a" * 33 + b"#", b"a" * 32 + b">", b"admin", b"User Access Verification\n", b"login:  ", b"password:x", b"r1# ", b"R1#"]
DIALOGUES = [
    [b"\r\nUser Access Verification\r\n\r\nlogin: ", b"admin\r\nPassword: ", b"\r\nWelcome\r\nr1#"],
    [b"Username: ", b"admin\nPassword: ", b"\nLogin incorrect\nUsername: ", b"admin\nPassword: ", b"\nr1>"],
    [b"login: ", b"admin\nPassword: ", b"\nLogin incorrect\nlogin: ", b"admin\nPassword: ", b"\nLogin incorrect\nlogin: ", b"x\n"],
    [b"Password: ", b"\nPassword: ", b"\nPassword: ", b"\n"],
    [b"\nLast login: Tue\nr1#"],
    [b"Welcome\nlogin: ", b"admin\n", b"password:", b"\nsw-1.lab(config)#"],
]


def gen_auth_case(rng):
    """-> (sync tape, async tape, user, password, interval)"""
    interval = rng.choice([1, 5, 100])
    if rng.random() < 0.6:
        stream = b"".join(rng.choice(DIALOGUES))
        extra = rng.random()
        if extra < 0.3:
            stream += rng.choice(TOKENS)
    else:
        stream = b"".join(rng.choice(TOKENS) for _ in range(rng.randint(1, 8)))
    n = len(stream)
    k = rng.choice([0, 0, 1, 2, 3, 5, n - 1]) if n > 1 else 0
    cuts = sorted(rng.sample(range(1, n), min(k, n - 1))) if n > 1 else []
    pts = [0, *cuts, n]
    chunks = [stream[a:b] for a, b in zip(pts, pts[1:])]
    mode = rng.random()
    late = mode < 0.15            # clock may pass the return interval
    with_eof = 0.15 <= mode < 0.3
    tS, now = [], 0
    for c in chunks:
        now += rng.choice([0, 0, 1]) if not late else rng.choice([0, 1, interval, 3 * interval])
        now = now if late else min(now, interval)
        if rng.random() < 0.12:
            tS.append(("d", b"", now))          # a read that returns nothing
        if with_eof and rng.random() < 0.25:
            tS.append(("e",))
        tS.append(("d", c, now))
    tA = []
    for ev in tS:
        while rng.random() < 0.3:
            t = ev[-1] if ev[0] != "e" else 0
            tA.append(("p", min(t, interval) if not late else t + rng.choice([0, interval + 1])))
        tA.append(ev)
    # clocks must be monotone within the async tape for the scripted clock to make sense; repair
    fixA, last = [], 0
    for ev in tA:
        if ev[0] == "e":
            fixA.append(ev)
            continue
        t = max(last, ev[-1])
        last = t
        fixA.append((ev[0], t) if ev[0] == "p" else ("d", ev[1], t))
    if not late:
        fixA = [e if e[0] == "e" else ((e[0], min(e[-1], interval)) if e[0] == "p" else ("d", e[1], min(e[2], interval))) for e in fixA]
    user = rng.choice(["admin", "", "root"])
    pw = rng.choice(["pw", "S3cr3t!", ""])
    return tS, fixA, user, pw, interval


SSH_TOKENS = [b"Password: ", b"password:", b"admin@10.0.0.1's password: ", b"Enter passphrase for key '/home/u/.ssh/id_rsa': ", b"\n", b"r1#", b"r1>",
              b"Warning: Permanently added '10.0.0.1' (RSA) to the list of known hosts.\n", b"Last login: Mon\n", b" ", b"x"]
SSH_ERRORS = [b"Host key verification failed.\n", b"ssh: connect to host 10.0.0.1 port 22: Operation timed out\n", b"no matching cipher found. Their offer: aes128-cbc\n",
              b"ssh: Could not resolve hostname r1: Name or service not known\n", b"Permission denied, please try again.\n"]
# substrings BaseChannel._ssh_message_handler reacts to (sync only; the audited difference)
SSH_TRIGGERS = [b"host key verification failed", b"operation timed out", b"connection timed out", b"no route to host", b"no matching host key",
                b"no matching key exchange", b"no matching cipher", b"bad configuration", b"unprotected private key file", b"could not resolve hostname",
                b"permission denied"]


def gen_ssh_case(rng):
    """-> (sync tape, async tape, has an ssh error message) for channel_authenticate_ssh"""
    toks = [rng.choice(SSH_TOKENS) for _ in range(rng.randint(1, 7))]
    err = rng.random() < 0.15
    if err:
        toks.insert(rng.randrange(len(toks) + 1), rng.choice(SSH_ERRORS))
    stream = b"".join(toks)
    err = any(t in stream.lower() for t in SSH_TRIGGERS)
    n = len(stream)
    k = rng.choice([0, 0, 1, 2, 4]) if n > 1 else 0
    pts = [0, *sorted(rng.sample(range(1, n), min(k, n - 1))), n] if n > 1 else [0, n]
    tS = [("d", stream[a:b], 0) for a, b in zip(pts, pts[1:])]
    tA = []
    for ev in tS:
        while rng.random() < 0.25:
            tA.append(("p", 0))
        tA.append(ev)
    return tS, tA, err


def enc_tape(t):
    out = []
    for e in t:
        if e[0] == "e":
            out.append("e")
        elif e[0] == "p":
            out.append(f"d:-:{e[1]}")
        else:
            out.append(f"d:{hexs(e[1].replace(b'\r', b''))}:{e[2]}")     # Channel.read() drops CR
    return ",".join(out) if out else "."


def tape_json(t):
    return [[e[0]] + [x.decode("latin-1") if isinstance(x, bytes) else x for x in e[1:]] for e in t]


def tape_from_json(t):
    return [tuple([e[0]] + [x.encode("latin-1") if isinstance(x, str) else x for x in e[1:]]) for e in t]


def no_eof(t):
    return all(e[0] != "e" for e in t)


def no_kick(t, interval):
    return all(e[0] == "e" or e[-1] <= interval for e in t)


def strip_tape(t):
    return [(e[1].replace(b"\r", b"")) for e in t if e[0] == "d" and e[1].replace(b"\r", b"")] + ["e" for e in t if e[0] == "e"]


def pat_strings(rng, tier):
    alpha = [b"login:", b"username:", b"password:", b" ", b"\n", b"x", b"#", b">", b"\t", b"r1", b"@", b"$"]
    out = [b""]
    for n in range(1, 4 if tier == "quick" else 5):
        for tup in itertools.product(alpha, repeat=n):
            out.append(b"".join(tup))
    for _ in range(600 if tier == "quick" else 6000):
        out.append(b"".join(rng.choice(TOKENS + [b"\x0b", b"\x0c", b"(", b")", b"/", b":", b".", b"-", b"_", b"A", b"0"]) for _ in range(rng.randint(1, 7))))
    return out


# =====================================================================================================
# part 2b: paired scenarios over the simulated transports
# =====================================================================================================
PLATS = ["generic", "network", "cisco_iosxe", "cisco_iosxr", "cisco_nxos", "arista_eos", "juniper_junos"]
DEVPLAT = {"generic": "cisco_iosxe", "network": "cisco_iosxe"}
HAS_EXEC = {"cisco_iosxe", "cisco_nxos", "arista_eos", "network"}
CFG_LEVELS = {"cisco_iosxr": ["configuration_exclusive"], "juniper_junos": ["configuration_exclusive", "configuration_private"]}
PAIR_OF_PLAT = {"generic": "driver_generic", "network": "driver_network"}
CMDS = ["show ansi", "show version", "show run", "show clock", "show ambiguous", "show custom-bad", "show blank", "bogus", "echo a b  c", "echo r1# inside",
        "echo 100% [ok] (x) $HOME", "", "show version | i Software", "echo üß", "echo " + "y" * 300]
CFGS = ["interface lo0", "description x", "bad line", "no shutdown", "hostname r1", "echo in-config", ""]
CONFIRMS = {"clear logging": ["Clear logging buffer [confirm]", False], "copy run start": ["Destination filename [startup-config]? ", False],
            "set secret": ["Enter secret: ", True]}


def _prompt_of(plat, mode=None, hostname="r1"):
    from harness.c06scen import Dev
    d = Dev(platform=DEVPLAT.get(plat, plat), hostname=hostname)
    return d.prompt(mode or d.mode).decode().split("\n")[-1]


CB_NAMED = [0.5]         # probability that a read_callback uses the scenario's named (persistent) callbacks list
PER_CALL = [0.12]        # probability of a per-call timeout_ops on operations that accept one (raised by the command / config families)

# scenario families: which operations / device behaviours reach which twin function (used to aim the directed search)
FAMILY_POOLS = {
    "priv": ["acquire_priv", "acquire_priv", "acquire_priv", "send_config", "send_configs", "send_command", "set_gdm", "send_interactive", "get_prompt"],
    "config": ["send_configs", "send_configs", "send_config", "send_configs_from_file", "register_configuration_session", "acquire_priv", "send_command"],
    "command": ["send_command", "send_command", "send_commands", "send_commands", "send_commands_from_file", "channel_send_input", "get_prompt"],
    "interactive": ["send_interactive", "send_interactive", "send_interactive", "send_command", "acquire_priv"],
    "send_and_read": ["send_and_read", "send_and_read", "send_command", "get_prompt"],
    "callback": ["read_callback", "read_callback", "send_command"],
    "lifecycle": ["get_prompt", "send_command", "send_configs", "acquire_priv"],
    "telnet": ["get_prompt", "send_command", "send_configs"],
}
ALL_FAMILIES = sorted(FAMILY_POOLS)
FAMILY_OF = {
    "_escalate": ["priv"], "_deescalate": ["priv"], "acquire_priv": ["priv"], "_acquire_appropriate_privilege_level": ["priv", "command", "config", "interactive"],
    "send_configs": ["config"], "send_config": ["config"], "send_configs_from_file": ["config"], "_abort_config": ["config"],
    "register_configuration_session": ["config"],
    "send_command": ["command"], "send_commands": ["command", "config"], "_send_command": ["command", "config"], "send_commands_from_file": ["command"],
    "send_interactive": ["interactive", "priv"], "send_inputs_interact": ["interactive", "priv"], "_read_until_explicit_prompt": ["interactive", "priv"],
    "send_and_read": ["send_and_read"], "send_input_and_read": ["send_and_read"], "_read_until_prompt_or_time": ["send_and_read"],
    "read_callback": ["callback"], "channel_authenticate_telnet": ["telnet"], "channel_authenticate_ssh": [],
    "open": ["lifecycle", "telnet"], "close": ["lifecycle"], "__enter__": ["lifecycle"], "__exit__": ["lifecycle"], "commandeer": ["lifecycle"],
    "__init__": ["lifecycle", "priv"],
}


def families_for(unaudited):
    """scenario families that reach the changed twin functions; [] = no aim (everything)"""
    fams = []
    for d in unaudited:
        fn = d[2]
        if fn.endswith("_on_open") or fn.endswith("_on_close"):
            fams += ["lifecycle"]
        else:
            fams += FAMILY_OF.get(fn, ALL_FAMILIES)      # get_prompt, read, send_input, _read_until_* ...: reached by everything
    return sorted(set(fams))


def gen_op(rng, plat, hostname, pool=None):
    net = plat != "generic"
    if pool is not None:
        pool = [x for x in pool if net or x not in ("send_config", "send_configs", "send_configs_from_file", "acquire_priv", "set_gdm", "register_configuration_session")]
        pool = [x for x in pool if x != "register_configuration_session" or plat in ("arista_eos", "cisco_nxos")] or ["send_command"]
        return _gen_op(rng, plat, hostname, rng.choice(pool))
    pool = ["get_prompt", "send_command", "send_command", "send_commands", "send_interactive", "send_and_read", "read_callback",
            "send_commands_from_file", "channel_send_input"]
    if net:
        pool += ["send_config", "send_configs", "send_configs", "acquire_priv", "send_configs_from_file", "set_gdm"]
        if plat in ("arista_eos", "cisco_nxos"):
            pool += ["register_configuration_session"]
    return _gen_op(rng, plat, hostname, rng.choice(pool))


def _gen_op(rng, plat, hostname, name):
    net = plat != "generic"
    kw = {}
    if name == "get_prompt":
        return ["get_prompt"]
    if name == "send_command":
        if rng.random() < 0.3:
            kw["strip_prompt"] = False
        if rng.random() < 0.25:
            kw["failed_when_contains"] = rng.choice(["BADWORD", ["BADWORD", "uptime"], []])
        if rng.random() < 0.1:
            kw["eager_input"] = True
        if rng.random() < 0.1:
            kw["timeout_ops"] = rng.choice([500, 0])
        return ["send_command", rng.choice(CMDS), kw]
    if name in ("send_commands", "send_commands_from_file"):
        cmds = [rng.choice(CMDS) for _ in range(rng.choice([0, 1, 2, 2, 3, 3, 4]))]
        if name.endswith("file"):
            cmds = [c for c in cmds if c.strip()] or ["show clock"]
        if rng.random() < 0.4:
            kw["stop_on_failed"] = True
        if rng.random() < 0.2:
            kw["strip_prompt"] = False
        if rng.random() < 0.2:
            kw["failed_when_contains"] = "BADWORD"
        if rng.random() < 0.1:
            kw["eager"] = True
        if rng.random() < PER_CALL[0]:
            kw["timeout_ops"] = rng.choice([500, 7, 0])          # per-call override, must govern EVERY command of the batch
        return [name, cmds, kw]
    if name in ("send_configs", "send_configs_from_file", "send_config"):
        cfgs = [rng.choice(CFGS) for _ in range(rng.randint(1, 4))]
        if name.endswith("file"):
            cfgs = [c for c in cfgs if c.strip()] or ["interface lo0"]
        if rng.random() < 0.4:
            kw["stop_on_failed"] = True
        if rng.random() < 0.2:
            kw["failed_when_contains"] = ["BADWORD"]
        lv = CFG_LEVELS.get(plat)
        if lv and rng.random() < 0.4:
            kw["privilege_level"] = rng.choice(lv)
        if plat in ("arista_eos", "cisco_nxos") and rng.random() < 0.3:
            kw["privilege_level"] = "sess1"          # gen_scenario registers it first (most of the time)
        if rng.random() < 0.05:
            kw["privilege_level"] = "nonexistent"
        if rng.random() < PER_CALL[0]:
            kw["timeout_ops"] = rng.choice([500, 7, 0])
        if name == "send_config":
            return ["send_config", "\n".join(cfgs), kw]
        return [name, cfgs, kw]
    if name == "acquire_priv":
        levels = {"network": ["exec", "privilege_exec", "configuration"], "cisco_iosxe": ["exec", "privilege_exec", "configuration", "tclsh"],
                  "cisco_iosxr": ["privilege_exec", "configuration", "configuration_exclusive"],
                  "cisco_nxos": ["exec", "privilege_exec", "configuration", "tclsh"], "arista_eos": ["exec", "privilege_exec", "configuration"],
                  "juniper_junos": ["exec", "configuration", "configuration_exclusive", "configuration_private", "shell"]}[plat]
        return ["acquire_priv", rng.choice(levels + ["bogus_level"])]
    if name == "register_configuration_session":
        return ["register_configuration_session", rng.choice(["sess1", "sess1", "configuration"])]
    if name == "set_gdm":
        return ["set", "_generic_driver_mode", rng.random() < 0.7]
    if name == "channel_send_input":
        return ["channel_send_input", rng.choice(CMDS[:6]), {"strip_prompt": rng.random() < 0.5}]
    final = _prompt_of(plat, None, hostname)
    if rng.random() < 0.5:
        final = r"^.*[#>%]\s*$"                      # whatever mode the device is in (prompts starting with ^ and ending with $ are regexes)
    if name == "send_interactive":
        cmd = rng.choice(list(CONFIRMS))
        q, hidden = CONFIRMS[cmd]
        ev = [[cmd, q.strip(), False], [rng.choice(["y", "", "s3cr3t"]), final, hidden]]
        if rng.random() < 0.15:
            ev[1][1] = "never-printed>"         # completes only through interaction_complete_patterns (or stalls)
            kw["interaction_complete_patterns"] = [final] if rng.random() < 0.6 else []
        if net and rng.random() < 0.1:
            kw["privilege_level"] = "bogus_level"
        if rng.random() < 0.2:
            kw["failed_when_contains"] = ["answered"]
        if rng.random() < PER_CALL[0]:
            kw["timeout_ops"] = rng.choice([500, 7, 0])
        return ["send_interactive", ev, kw]
    if name == "send_and_read":
        cmd = rng.choice(["show version", "show clock", "clear logging", "show run", "show run", "show ansi"])
        m = rng.random()
        if m < 0.3:
            kw = {"read_duration": 1e-9}                                  # returns after exactly one read
        elif m < 0.75:
            # literal expected outputs: at the very start / early / in the middle / near the end of a long output / never printed
            exp = rng.sample(["UTC", "uptime", "[confirm]", "GigabitEthernet0/3", "interface GigabitEthernet0/0", "GigabitEthernet0/20",
                              "description link 39", "never printed", "Version 16"], rng.choice([1, 1, 2]))
            kw = {"expected_outputs": exp, "read_duration": 3600}
        else:
            kw = {"read_duration": 3600}                                   # until the prompt
        if rng.random() < PER_CALL[0]:
            kw["timeout_ops"] = rng.choice([500, 7])
        return ["send_and_read", cmd, kw]
    # read_callback
    if rng.random() < CB_NAMED[0]:
        return ["read_callback", "A", {"initial_input": rng.choice(["show version", "show clock", "show clock", None])}]      # the scenario's named list
    cbs = [{"contains_re": r"[#>%]\s*$", "send": "show clock", "name": "c1", "only_once": True} if final.startswith("^") else
           {"contains": final, "send": "show clock", "name": "c1", "only_once": True},
           {"contains": "UTC", "complete": True, "name": "c2"}]
    if rng.random() < 0.3:
        cbs = [{"contains_re": r"uptime is \d+", "complete": True, "name": "c3", "send": None}]
    if rng.random() < 0.2:
        cbs[0]["coro"] = False               # a plain function as callback on the asyncio side too
    return ["read_callback", cbs, {"initial_input": rng.choice(["show version", "show clock"])}]


def gen_cbset(rng):
    """a callbacks list for read_callback: trigger kinds (contains / contains_re / not_contains, case sensitivity), flags (only_once,
    reset_output, complete), actions (send a line / nothing), callbacks that RAISE on their 1st / 2nd run, plain functions on asyncio"""
    trig = [{"contains_re": r"[#>%]\s*$"}, {"contains": "#"}, {"contains": "UTC"}, {"contains": "utc", "case_insensitive": False},
            {"contains": "UTC", "case_insensitive": False}, {"contains_re": r"uptime is \d+"}, {"contains": "Software", "not_contains": "UTC"},
            {"contains_re": r"^\*\d\d:", "multiline": rng.random() < 0.5}, {"contains": "never printed"}]
    out = []
    for i in range(rng.choice([1, 2, 2, 3])):
        c = dict(rng.choice(trig), name=f"c{i + 1}")
        c["only_once"] = rng.random() < 0.5
        c["reset_output"] = rng.random() < 0.7
        c["complete"] = rng.random() < (0.25 if i == 0 else 0.5)
        c["send"] = rng.choice(["show clock", "show version", "", None, None])
        if rng.random() < 0.35:
            c["raise_on"] = rng.choice([[1], [1], [2], [1, 2]])
            c["raise_exc"] = rng.choice(["ValueError", "ScrapliTimeout", "OSError"])
        if rng.random() < 0.25:
            c["coro"] = False
        out.append(c)
    return out


def gen_scenario(rng, plat=None, family=None):
    CB_NAMED[0] = 0.8 if family == "callback" else 0.5
    PER_CALL[0] = 0.5 if family in ("command", "config", "interactive") else 0.12
    if family == "priv" and plat is None:
        plat = rng.choice(["network", "cisco_iosxe", "cisco_nxos", "arista_eos", "cisco_iosxe", "juniper_junos", "cisco_iosxr"])
    if family in ("config", "priv") and plat == "generic":
        plat = None
    plat = plat or rng.choice(PLATS if family not in ("config", "priv") else PLATS[1:])
    dplat = DEVPLAT.get(plat, plat)
    hostname = rng.choice(["r1", "r1", "core-sw1.lab", "a"])
    dev = {"platform": dplat, "hostname": hostname, "confirms": CONFIRMS}
    conn = {}
    if plat in HAS_EXEC and rng.random() < (0.85 if family == "priv" else 0.5):
        dev["login_mode"] = "exec"
        if rng.random() < 0.7:
            dev["enable_password"] = "en"
            # right / wrong / absent secret; a device that rejects it either asks again (and the session stalls) or gives up and
            # re-displays the prompt of the level the session is still in
            conn["auth_secondary"] = rng.choice(["en", "en", "en", "wrong", "wrong", ""])
            dev["pw_attempts"] = rng.choice([1, 1, 3])
            if rng.random() < 0.3:
                dev["reject_text"] = rng.choice(["% Access denied", "% Bad passwords", ""])
    elif plat != "generic" and rng.random() < 0.15:
        dev["login_mode"] = "configuration"
    if rng.random() < 0.5:
        dev["fail_lines"] = rng.sample(["bogus", "bad line", "show clock"], rng.randint(1, 2))
    if plat != "generic" and rng.random() < 0.07:
        dev["refuse"] = [["privilege_exec" if dplat != "juniper_junos" else "exec", "configure terminal" if dplat != "juniper_junos" else "configure"]]
    if rng.random() < 0.15:
        dev["nl"] = "\r\n"
    if rng.random() < 0.1:
        dev["banner"] = "*** authorised use only ***\n"
    if rng.random() < 0.08:
        conn["comms_return_char"] = "\r\n"
    if rng.random() < 0.1:
        conn["channel_lock"] = True
    if plat not in ("generic",) and rng.random() < 0.1:
        conn["failed_when_contains"] = ["BADWORD", "% Invalid"]
    if plat in ("cisco_iosxe", "cisco_nxos", "arista_eos") and rng.random() < 0.08:
        conn["default_desired_privilege_level"] = "exec"
    if plat != "generic" and rng.random() < 0.06:
        conn["genie_platform"] = "custom_genie"
        conn["textfsm_platform"] = "custom_fsm"
    scn = {"platform": plat, "dev": dev, "conn": conn}
    c = rng.random()
    # read segmentation: whole / 1-byte / small PRNG chunks / bulk bursts (one read = tens to thousands of bytes) / an explicit first burst
    if family == "send_and_read":
        c = 0.55 + 0.45 * c
    if c < 0.35:
        scn["cuts"] = "whole"
    elif c < 0.48:
        scn["cuts"] = "one"
    elif c < 0.78:
        scn["cuts"] = ["rng", rng.randrange(1 << 30), rng.choice([3, 7, 40])]
    elif c < 0.94:
        lo, hi = rng.choice([(20, 120), (60, 400), (200, 1500), (900, 2600)])
        scn["cuts"] = ["bulk", rng.randrange(1 << 30), lo, hi]
    else:
        scn["cuts"] = ["list", [rng.choice([1, 5, 30]) for _ in range(rng.randint(0, 6))] + [rng.choice([80, 300, 1200, 2000])] * rng.randint(1, 30)]
    # the tail window the channel searches for prompts / expected outputs: default 1000, or small so that short streams go beyond it
    if rng.random() < (0.6 if family == "send_and_read" else 0.15):
        scn["_search_depth"] = rng.choice([40, 64, 200, 999])
    if rng.random() < (0.6 if family == "lifecycle" else 0.25):
        act = rng.choice(["eof", "eof", "exc:ScrapliConnectionError", "exc:OSError", "exc:ScrapliTimeout", "silent", "exc:ValueError"])
        if rng.random() < 0.65:
            scn["faults"] = [{"at_read": rng.choice([1, 2, 3, 5, 8, 13, 21, 34, 55, rng.randint(1, 200)]), "action": act}]
        else:
            scn["faults"] = [{"at_write": rng.choice([1, 2, 3, 4, 6, 9, 14, rng.randint(1, 40)]), "action": act}]
    if rng.random() < (0.9 if family == "telnet" else 0.15):
        tel = {"user": "admin", "password": "pw"}
        r = rng.random()
        if r < 0.2:
            tel["password"] = "nope"
        elif r < 0.3:
            tel["user"] = ""
        tel["dev"] = {"uprompt": rng.choice(["login: ", "Username: ", "router login: "]), "pprompt": rng.choice(["Password: ", "password:"])}
        scn["telnet"] = tel
    ops = []
    if rng.random() < 0.05:
        ops.append(gen_op(rng, plat, hostname))           # an operation before open
    commandeer = plat != "generic" and not scn.get("telnet") and rng.random() < (0.25 if family == "lifecycle" else 0.06)
    if commandeer:
        scn["commandeer"] = True
        ops += [["donor_open"], ["commandeer", {"execute_on_open": rng.random() < 0.8}]]
    else:
        ops.append(["enter"] if rng.random() < (0.5 if family == "lifecycle" else 0.2) else ["open"])
    for _ in range(rng.choice([1, 1, 2, 3, 4, 6])):
        op = gen_op(rng, plat, hostname, pool=FAMILY_POOLS[family] if family and rng.random() < 0.85 else None)
        if isinstance(op[-1], dict) and op[-1].get("privilege_level") == "sess1" and rng.random() < 0.75 \
                and ["register_configuration_session", "sess1"] not in ops:
            ops.append(["register_configuration_session", "sess1"])
        ops.append(op)
    if rng.random() < 0.85:
        ops.append(["exit"] if ops[0] == ["enter"] or rng.random() < 0.1 else ["close"])
        if rng.random() < 0.1:
            ops.append(rng.choice([["close"], ["get_prompt"], ["open"]]))
    if any(o[0] == "read_callback" and isinstance(o[1], str) for o in ops):
        scn["cbsets"] = {"A": gen_cbset(rng)}
        # history: the SAME callbacks list used again on the same connection (after whatever the first call ended with)
        i = max(k for k, o in enumerate(ops) if o[0] == "read_callback" and isinstance(o[1], str))
        for _ in range(rng.choice([0, 1, 1, 2])):
            ops.insert(i + 1, ["read_callback", "A", {"initial_input": rng.choice(["show clock", "show version", None])}])
    scn["ops"] = ops
    return scn


def enumerated_scenarios():
    """small scope, complete: every platform x every single operation of a fixed list x {whole, 1-byte} reads"""
    import random
    out = []
    for plat in PLATS:
        r = random.Random(1234)
        ops = [["get_prompt"], ["send_command", "show version", {}], ["send_command", "bogus", {"strip_prompt": False}],
               ["send_commands", ["show clock", "bogus", "show run"], {"stop_on_failed": True}],
               ["send_interactive", [["clear logging", "[confirm]", False], ["y", _prompt_of(plat), False]], {}],
               ["send_interactive", [["set secret", "Enter secret:", False], ["s3cr3t", _prompt_of(plat), True]], {}],
               ["send_and_read", "show version", {"read_duration": 1e-9}],
               ["send_and_read", "show clock", {"expected_outputs": ["UTC"], "read_duration": 3600}],
               ["read_callback", [{"contains": _prompt_of(plat), "send": "show clock", "name": "c1", "only_once": True}, {"contains": "UTC", "complete": True, "name": "c2"}],
                {"initial_input": "show version"}]]
        if plat != "generic":
            ops += [["send_config", "interface lo0\ndescription x", {}], ["send_configs", ["interface lo0", "bad line", "no shutdown"], {"stop_on_failed": True}],
                    ["send_configs", ["interface lo0", "bad line", "no shutdown"], {}], ["acquire_priv", "configuration"]]
            for lv in CFG_LEVELS.get(plat, []):
                ops.append(["send_configs", ["interface lo0", "bad line"], {"privilege_level": lv, "stop_on_failed": True}])
        if plat in HAS_EXEC:
            # enable secret right / rejected (device asks once, then re-displays the old prompt) / rejected (device keeps asking) / not needed
            for sec, att, devpw in (("en", 3, "en"), ("wrong", 1, "en"), ("", 1, "en"), ("wrong", 3, "en"), ("", 3, None)):
                for cuts in ("whole", "one"):
                    dev = {"platform": DEVPLAT.get(plat, plat), "login_mode": "exec", "pw_attempts": att}
                    if devpw:
                        dev["enable_password"] = devpw
                    out.append({"platform": plat, "dev": dev, "conn": {"auth_secondary": sec}, "cuts": cuts,
                                "ops": [["open"], ["send_command", "show clock", {}], ["acquire_priv", "configuration"], ["close"]]})
        # read_callback histories: one callbacks list used on two calls; the first callback raises on its 1st / 2nd / no run, only_once on/off,
        # coroutine / plain function on asyncio, output reset on/off
        if plat in ("generic", "cisco_iosxe", "juniper_junos"):
            for raise_on in ([], [1], [2]):
                for once in (True, False):
                    for coro in (True, False):
                        for reset in (True, False):
                            cbs = [{"contains_re": r"[#>%]\s*$", "name": "c1", "only_once": once, "reset_output": reset, "send": "show clock", "raise_on": raise_on, "coro": coro},
                                   {"contains": "UTC", "name": "c2", "complete": True, "coro": coro}]
                            out.append({"platform": plat, "dev": {"platform": DEVPLAT.get(plat, plat)}, "conn": {}, "cuts": "whole", "cbsets": {"A": cbs},
                                        "ops": [["open"], ["read_callback", "A", {"initial_input": "show version"}], ["read_callback", "A", {"initial_input": "show version"}],
                                                ["read_callback", "A", {}], ["close"]]})
        # per-call timeout_ops on a batch: it must be in effect for every command, the last one included
        batch = [["send_commands", ["show clock", "show version", "show clock"], {"timeout_ops": 500}],
                 ["send_commands_from_file", ["show clock", "show version"], {"timeout_ops": 7}]]
        if plat != "generic":
            batch += [["send_configs", ["interface lo0", "no shutdown"], {"timeout_ops": 500}], ["send_config", "interface lo0\ndescription x", {"timeout_ops": 7}]]
        for op in batch:
            out.append({"platform": plat, "dev": {"platform": DEVPLAT.get(plat, plat)}, "conn": {}, "cuts": "whole", "ops": [["open"], op, ["close"]]})
        # send_and_read: a literal expected output early in a long output, reads that carry it together with more bytes than the search window
        for depth in (64, None):
            for cuts in (["list", [300] * 40], ["list", [1200] * 8], ["list", [2000] * 4], ["list", [1, 1, 1] + [700] * 10]):
                for exp in (["GigabitEthernet0/3"], ["interface GigabitEthernet0/0"], ["description link 39"]):
                    scn = {"platform": plat, "dev": {"platform": DEVPLAT.get(plat, plat)}, "conn": {}, "cuts": cuts,
                           "ops": [["open"], ["send_and_read", "show run", {"expected_outputs": exp, "read_duration": 3600}], ["get_prompt"], ["close"]]}
                    if depth:
                        scn["_search_depth"] = depth
                    out.append(scn)
        for op in ops:
            for cuts in ("whole", "one"):
                dev = {"platform": DEVPLAT.get(plat, plat), "confirms": CONFIRMS, "fail_lines": ["bogus", "bad line"]}
                pre = []
                if plat in ("arista_eos", "cisco_nxos") and op[0] == "send_configs" and not op[2].get("stop_on_failed"):
                    pre = [["register_configuration_session", "sess1"]]
                    op = ["send_configs", op[1], {"privilege_level": "sess1"}]
                out.append({"platform": plat, "dev": dev, "conn": {}, "cuts": cuts, "ops": [["open"], *pre, op, ["close"]]})
    return out


def run_pairs(scns, bound_s=None):
    """run every scenario on both stacks (one event loop for all asyncio runs); -> list of (scn, sync obs, async obs)"""
    from harness import c06scen as S
    from harness.c06auth import patched
    res = []
    t0 = time.time()

    async def all_async(done):
        out = []
        for scn in done:
            out.append(await S.run_async(scn))
        return out
    done, sres = [], []
    for scn in scns:
        if bound_s is not None and time.time() - t0 > bound_s / 2:
            break
        sres.append(S.run_sync(scn))
        done.append(scn)
    with patched(clock=None, shim="sleep"):
        ares = asyncio.run(all_async(done))
    for scn, s, a in zip(done, sres, ares):
        res.append((scn, s, a))
    return res


def split_known(scn, diffs):
    """-> (new diffs, finding id or None): remove exactly the differences an open finding's narrow predicate describes"""
    fid = None
    rest = []
    for d in diffs:
        if scn.get("platform") == "juniper_junos" and "genie_platform" not in (scn.get("conn") or {}) \
                and d[1] == "genie_platform" and d[2] == "junos" and d[3] == "":
            fid = "C06-F1"
            continue
        rest.append(d)
    if scn.get("telnet") and (scn.get("conn") or {}).get("timeout_ops", 600) == 0 and rest:
        return [], "C06-F2"
    return rest, fid


def minimise(scn, still_fails, budget=40):
    best = copy.deepcopy(scn)
    tried = 0
    changed = True
    while changed and tried < budget:
        changed = False
        for i in range(len(best["ops"]) - 1, 0, -1):
            cand = copy.deepcopy(best)
            del cand["ops"][i]
            tried += 1
            if still_fails(cand):
                best, changed = cand, True
                break
            if tried >= budget:
                break
    for key, val in (("cuts", "whole"), ("faults", None)):
        if best.get(key) not in (None, val):
            cand = copy.deepcopy(best)
            if val is None:
                cand.pop(key, None)
            else:
                cand[key] = val
            if still_fails(cand):
                best = cand
    return best


def pair_fails(scn):
    from harness import c06scen as S
    from harness.c06auth import patched
    s = S.run_sync(scn)
    with patched(clock=None, shim="sleep"):
        a = asyncio.run(S.run_async(scn))
    rest, _ = split_known(scn, S.compare(s, a))
    return bool(rest)


def tags_of(scn, s):
    t = [f"plat={scn['platform']}", f"cuts={scn.get('cuts', 'whole') if isinstance(scn.get('cuts', 'whole'), str) else scn['cuts'][0]}", "depth=" + str(scn.get("_search_depth", "default")),
         "fault=" + (scn["faults"][0]["action"] if scn.get("faults") else "none"), "telnet" if scn.get("telnet") else "no-telnet"]
    for o in s["ops"]:
        t.append("op=" + o["op"])
        if o.get("exc"):
            t.append("exc=" + o["exc"])
    return tuple(dict.fromkeys(t))


# =====================================================================================================
# known-finding witnesses (replayed on the real code on every run)
# =====================================================================================================
def witness_f1():
    from harness import c06scen as S
    scn = {"platform": "juniper_junos", "dev": {"platform": "juniper_junos"}, "ops": [["open"], ["send_command", "show version"], ["close"]]}
    s, a = S.run_sync(scn), asyncio.run(S.run_async(scn))
    d = S.compare(s, a)
    return any(x[1] == "genie_platform" and x[2] == "junos" and x[3] == "" for x in d)


def witness_f2():
    """timeout_ops=0 + in-channel telnet login: sync logs in, asyncio never reads (bounded run, real asyncio, no shim)"""
    from harness import c06scen as S
    scn = {"platform": "cisco_iosxe", "dev": {"platform": "cisco_iosxe"}, "telnet": {"user": "admin", "password": "pw"},
           "conn": {"timeout_ops": 0}, "ops": [["open"]]}
    s = S.run_sync(scn)
    sync_ok = s["ops"] and not s["ops"][0].get("exc")

    async def go():
        conn, t, dev, _ = S.build(scn, "async")
        try:
            await asyncio.wait_for(conn.open(), 0.6)
            return "ok", t
        except asyncio.TimeoutError:
            return "spinning", t
        except BaseException as e:      # noqa
            return type(e).__name__, t
    r, t = asyncio.run(go())
    nreads = len([x for x in t.trace if x[0] in ("R", "stall")])
    return bool(sync_ok and r == "spinning" and nreads == 0)


def witness_f3(modes=("refused",)):
    from harness import c06telnet as T
    out = {}
    for m in modes:
        out[m] = T.open_failure(m)
    return out


def witness_f4():
    from harness import c06telnet as T
    s, a, wall = T.kick_pair(2.0)
    return s[0] == "ScrapliTimeout" and a[0] == "ok", (s, a, wall)


def witness_f5():
    from harness import c06telnet as T
    scn = {"platform": "cisco_iosxe", "dev": {"platform": "cisco_iosxe"}, "telnet": {"user": "admin", "password": "bad"},
           "conn": {"timeout_socket": 0.4, "timeout_ops": 1.2, "timeout_transport": 3}, "ops": [["open"], ["get_prompt"]]}
    s, a = T.run_pair(scn)
    es, ea = [o.get("exc") for o in s["ops"]], [o.get("exc") for o in a["ops"]]
    return es[:1] == ea[:1] and es[1:] in (["TimeoutError"], ["ScrapliConnectionError"]) and ea[1:] == ["ScrapliTimeout"], (es, ea)


# real sockets: read boundaries are not under the harness' control, so the devices print nothing after the prompt
# (a trailing blank arriving in a later segment is C02's subject, not a sync/async difference)
REAL_TELNET_SCNS = [
    {"platform": "cisco_iosxe", "dev": {"platform": "cisco_iosxe", "trailing": "", "login_mode": "exec", "enable_password": "en", "fail_lines": ["bad line"]},
     "conn": {"auth_secondary": "en"}, "telnet": {"user": "admin", "password": "pw"},
     "ops": [["open"], ["get_prompt"], ["send_command", "show version"], ["send_configs", ["interface lo0", "bad line", "description x"], {"stop_on_failed": True}], ["close"]]},
    {"platform": "generic", "dev": {"platform": "cisco_iosxe", "trailing": "", "nl": "\r\n", "confirms": CONFIRMS}, "telnet": {"user": "admin", "password": "pw", "dev": {"uprompt": "Username: "}},
     "ops": [["open"], ["send_command", "show run"], ["send_interactive", [["clear logging", "[confirm]", False], ["y", "r1#", False]]], ["close"]]},
    {"platform": "juniper_junos", "dev": {"platform": "juniper_junos", "trailing": ""}, "conn": {"genie_platform": "junos"}, "telnet": {"user": "admin", "password": "pw"},
     "ops": [["open"], ["send_command", "show version"], ["send_configs", ["set x"]], ["close"]]},
    {"platform": "arista_eos", "dev": {"platform": "arista_eos", "trailing": ""}, "telnet": {"user": "admin", "password": "pw"},
     "ops": [["open"], ["register_configuration_session", "sess1"], ["send_configs", ["vlan 3"], {"privilege_level": "sess1"}], ["close"]]},
    {"platform": "cisco_nxos", "dev": {"platform": "cisco_nxos", "trailing": ""}, "telnet": {"user": "admin", "password": "pw"},
     "ops": [["open"], ["send_commands", ["show clock", "show version"]], ["close"]]},
    {"platform": "cisco_iosxr", "dev": {"platform": "cisco_iosxr", "trailing": "", "fail_lines": ["bad line"]}, "telnet": {"user": "admin", "password": "pw"},
     "ops": [["open"], ["send_configs", ["interface lo0", "bad line"], {"stop_on_failed": True, "privilege_level": "configuration_exclusive"}], ["close"]]},
]


# =====================================================================================================
def load_my_findings(ck):
    have = {f["id"] for f in ck.findings}
    if FINDINGS_FILE.exists():
        for f in json.load(open(FINDINGS_FILE)):
            if f["id"] not in have:
                ck.findings.append(f)


def matcher(case):
    return case.get("finding")


def run(tier, seed):
    from harness import c06auth as A
    from harness import c06scen as S
    from harness import c06telnet as T
    from gen import c06 as G
    warnings.filterwarnings("ignore", category=UserWarning, module=r"scrapli\..*")
    ck = Check(PID, tier, seed, level="translation_validation")
    load_my_findings(ck)
    open_ids = {f["id"] for f in ck.findings if f.get("status") == "open"}
    ck.rule = ("(a) parity: every (class pair, public method) of the 11 twin module pairs is one case; compared by inspect.signature on the imported "
               "classes (oracle) and by the Lean table comparison on the AST-generated tables (model). (b) login variants: dialogue streams built from "
               "6 canned login dialogues and 28 prompt-like tokens, cut at PRNG positions, with empty reads, connection errors and (asyncio) timed-out "
               "polls inserted and a scripted clock; each case runs the real Channel and AsyncChannel login loops and both Lean machines. (c) paired "
               "scenarios: platform (generic, network with a custom privilege table, 5 core platforms) x operation sequence (open/enter with the default "
               "on_open hooks, get_prompt, send_command(s)[_from_file], send_config(s)[_from_file], send_interactive incl. hidden input, acquire_priv, "
               "register_configuration_session, send_and_read, read_callback, commandeer, close/exit) x device behaviour (outputs, failing lines, enable "
               "password right/wrong/absent, refusals, CRLF, banner) x read cuts (whole, 1-byte, PRNG) x one fault (eof / exception / silence at read k or "
               "write k) x optional in-channel telnet login; corpus first, then a complete small scope (every platform x 9-14 single operations x "
               "{whole,1-byte}), then PRNG scenarios. Each scenario is executed on the real sync and the real asyncio stack. Non-trivial = at least 3 "
               "operations executed and at least 3 transport writes on the sync stack; distinct by scenario JSON. (d) real Telnet transports over loopback.")
    ck.trusted = ["Lean 4.33.0 kernel; axioms of every theorem audited (subset of propext, Classical.choice, Quot.sound)",
                  "tools/gen/c06.py (AST extraction of signatures; normalisation rules of the twin comparison)",
                  "tools/harness/c06scen.py, simdevice.py, simtransport.py (one scenario interpreter, two trampolines; causal simulated device)",
                  "tools/harness/c06auth.py (scripted clock / scripted poll time-outs injected into scrapli.channel.* module globals)",
                  "corpus/C06/audited_twin_diffs.json (human audit of the twin functions / module shells that differ after normalisation), audited_plain_async_methods.json",
                  "tools/gen/c06.py await discipline: the receiver-based resolution of coroutine callees (self/super()/conn/.channel/.transport + 5 listed externals)"]
    ck.assumptions = ["behavioural equality is shown on the executed scenarios and, for the login loop, on the modelled variants; not for arbitrary future "
                      "divergence inside twin methods (mitigated by pinning the set of differing twin functions)",
                      "asyncio.sleep inside the asyncio login loop is replaced by a zero-length sleep in simulated runs (waiting is not an observable of C06)",
                      "timing (which stack times out when) is outside C06 except for the listed findings; see C07"]
    # ---------------------------------------------------------------- 1 translate
    phases, tp = {}, time.time()
    try:
        translate.translate(PID)
    except Exception as e:      # noqa
        ck.proof_broken("translator gen/c06.py", repr(e))
    # ---------------------------------------------------------------- 2 prove
    proved = ck.prove("ScrapliProps.C06", lemma_files=["ScrapliProps/C06Lemmas.lean", "ScrapliModel/Parity.lean", "ScrapliModel/ParityRun.lean"])
    if tier == "thorough":
        ck.leanchecker("ScrapliProps.C06")
    phases['translate+prove'], tp = round(time.time() - tp, 1), time.time()
    # ---------------------------------------------------------------- 3 requests for the model (one call)
    lines = ["parity", "asynconly"]
    pats = pat_strings(ck.rng, tier)
    for b in pats:
        for w in ("login", "password", "prompt"):
            lines.append(f"pat {w} {hexs(b)}")
    auth_cases = []
    try:
        for c in json.load(open(CORPUS)).get("auth", []):
            auth_cases.append((tape_from_json(c["sync"]), tape_from_json(c["async"]), c["user"], c["password"], c["interval"]))
    except FileNotFoundError:
        pass
    for _ in range(1000 if tier == "quick" else 20000):
        auth_cases.append(gen_auth_case(ck.rng))
    for tS, tA, u, p, iv in auth_cases:
        lines.append(f"auth sync {iv} {hexs(u.encode())} {hexs(p.encode())} 0a {enc_tape(tS)}")
        lines.append(f"auth async {iv} {hexs(u.encode())} {hexs(p.encode())} 0a {enc_tape(tA)}")
    try:
        mout = run_model("C06", lines)
    except Exception as e:      # noqa
        ck.proof_broken("model driver Drv/C06.lean", repr(e))
        mout = None
    phases['model-driver'], tp = round(time.time() - tp, 1), time.time()
    # ---------------------------------------------------------------- 4 parity: oracle + correspondence
    unaudited = []
    try:
        live, nmeth = live_mismatches()
        st, _at = G.extract_tables()
        for key, _real, _bases, meths in st:
            for m in meths:
                ck.case(("parity", key, m[0]), nontrivial=len(m[2]) > 1, sample={"parity": [key, m[0], [p[0] for p in m[2]][:6]]}, tags=("parity",))
        ck.extra["parity_methods_compared_live"] = nmeth
        for mm in sorted(live):
            fid = next((f["id"] for f in ck.findings if f.get("parity_entry") and
                        (f["parity_entry"]["class"], f["parity_entry"]["method"], f["parity_entry"]["param"], f["parity_entry"]["field"]) == mm), None)
            ck.violation({"parity": list(mm), "finding": fid}, f"public interface differs between sync and asyncio class: {mm}", matcher)
        if mout is not None:
            model = set() if mout[0] == "-" else {tuple(x.split("|")) for x in mout[0].split(";")}
            if model != live:
                ck.disagree("parity table (AST, Lean) vs inspect.signature on the live classes", {"model_only": sorted(model - live), "live_only": sorted(live - model)})
            else:
                ck.traces_validated += nmeth
            ck.extra["async_only_methods"] = [] if mout[1] == "-" else mout[1].split(";")
        # coroutine-ness of the live classes (oracle) vs the AST flags of the generated table (model side: theorem coroutine_table)
        co_bad, live_plain = live_coroutine_mismatches()
        _st2, at2 = G.extract_tables()
        ast_plain = {(k, m[0]) for k, _r, _b, ms in at2 for m in ms if not m[3]}
        ck.extra["plain_methods_of_async_classes"] = sorted(map(list, live_plain))
        if ast_plain != live_plain:
            ck.disagree("isAsync flags (AST) vs inspect.iscoroutinefunction on the live classes", {"ast_only": sorted(ast_plain - live_plain), "live_only": sorted(live_plain - ast_plain)})
        else:
            ck.traces_validated += len(live_plain)
        for x in sorted(co_bad):
            ck.violation({"coroutine": list(x), "finding": None}, f"def / async def differs from the twin's contract: {x}", matcher)
        # await discipline (what the pin's normaliser erases); the theorem await_discipline fails on the same list
        aw = G.await_mismatches()
        ck.extra["await_mismatches"] = [list(x) for x in aw]
        ck.extra["awaits_seen"] = G.awaits_seen()
        if aw:
            ck.broken.append(("correspondence", "await discipline: a coroutine call is not awaited / something else is (async twin files)", {"mismatches": [list(x) for x in aw[:10]]}))
        # structural tie
        aud = set(G.audited())
        cur = G.twin_diffs()
        unaudited = [d for d in cur if d not in aud]
        ck.extra["twin_functions_differing"] = len(cur)
        ck.extra["twin_functions_unaudited"] = [list(d) for d in unaudited]
        ck.obligations += 1
        if unaudited:
            det = []
            for d in unaudited[:4]:
                ss, sa = G.twin_sources(d[0], d[1], d[2]) if d[1] != "module" else G.shell_sources(d[0])
                det.append({"entry": list(d), "sync": (ss or "")[-1500:], "async": (sa or "")[-1500:]})
            ck.broken.append(("correspondence", "twin function pair differs and is not in the audited set (corpus/C06/audited_twin_diffs.json)", {"unaudited": det}))
        else:
            ck.discharged += 1
    except Exception as e:      # noqa
        ck.proof_broken("parity oracle / twin comparison", repr(e))
    phases['parity+twins'], tp = round(time.time() - tp, 1), time.time()
    # ---------------------------------------------------------------- 5 pattern predicates + login variants
    if mout is not None:
        try:
            rp = A.real_patterns()
            i = 2
            bad = 0
            for b in pats:
                for w in ("login", "password", "prompt"):
                    want = "1" if rp[w].search(b) else "0"
                    if mout[i] != want:
                        bad += 1
                        ck.disagree(f"Lean predicate {w}Pat vs re.search with the channel's compiled pattern", {"pattern": w, "string": b.decode("latin-1")}, f"re={want} model={mout[i]}")
                    i += 1
            if not bad:
                ck.traces_validated += len(pats) * 3
            ck.extra["pattern_strings_compared"] = len(pats) * 3

            async def all_async():
                return [await A.run_async(tA, u, p, iv) for _tS, tA, u, p, iv in auth_cases]
            ares = asyncio.run(all_async())
            div_eof = div_kick = 0
            for k, (tS, tA, u, p, iv) in enumerate(auth_cases):
                so, sw = A.run_sync(tS, u, p, iv)
                ao, aw = ares[k]
                case = {"auth": {"sync": tape_json(tS), "async": tape_json(tA), "user": u, "password": p, "interval": iv}}
                indom = no_eof(tS) and no_kick(tS, iv) and no_kick(tA, iv)
                ck.case(("auth", enc_tape(tS), enc_tape(tA), u, p, iv), nontrivial=len(tS) >= 2 and len(tA) > len(tS),
                        sample=case, tags=("auth", "auth-in-domain" if indom else ("auth-eof" if not no_eof(tS) else "auth-kick"), f"auth-out={so}"))
                for nm, got, ml in (("sync", (so, sw), mout[i]), ("async", (ao, aw), mout[i + 1])):
                    g = f"{got[0]} {hexl(got[1])}"
                    if g != ml:
                        ck.disagree(f"Lean authTelnet{nm.capitalize()} vs real {'Channel' if nm == 'sync' else 'AsyncChannel'}.channel_authenticate_telnet", case, f"impl={g} model={ml}")
                    else:
                        ck.traces_validated += 1
                i += 2
                if indom:
                    if (so, sw) != (ao, aw):       # the property itself, on the real loops
                        ck.violation({**case, "finding": None, "got_sync": [so, [w.decode("latin-1") for w in sw]], "got_async": [ao, [w.decode("latin-1") for w in aw]]},
                                     "in-channel telnet login: sync and asyncio loops differ on a dialogue without connection error and without an elapsed return interval", matcher)
                elif (so, sw) != (ao, aw):
                    if not no_eof(tS):
                        div_eof += 1
                    else:
                        div_kick += 1
            ck.extra["advisory_login_variant_divergences_with_connection_error_on_tape"] = div_eof
            ck.extra["advisory_login_variant_divergences_with_elapsed_return_interval"] = div_kick
        except Exception as e:      # noqa
            import traceback
            ck.proof_broken("login-variant correspondence harness", traceback.format_exc()[-1500:])
    phases['login-variants'], tp = round(time.time() - tp, 1), time.time()
    # in-channel ssh authentication, channel level (pairwise oracle on the real methods; no model)
    try:
        ssh_cases = [gen_ssh_case(ck.rng) for _ in range(300 if tier == "quick" else 5000)]

        async def all_ssh():
            return [await A.run_ssh_async(tA, "pw", "phrase") for _tS, tA, _e in ssh_cases]
        sres = asyncio.run(all_ssh())
        ssh_adv = 0
        for (tS, tA, err), ar in zip(ssh_cases, sres):
            sr = A.run_ssh_sync(tS, "pw", "phrase")
            ck.case(("ssh-auth", enc_tape(tS), enc_tape(tA)), nontrivial=len(tA) > len(tS) or len(tS) > 1,
                    sample={"ssh_auth": {"sync": tape_json(tS), "async": tape_json(tA)}}, tags=("ssh-auth", "ssh-error-message" if err else "ssh-dialogue", f"ssh-out={sr[0]}"))
            ck.extra["programs"] = ck.extra.get("programs", 0) + 2
            if sr == ar:
                ck.traces_validated += 1
            elif err:
                ssh_adv += 1          # audited: the async method has no _ssh_message_handler (no asyncio driver calls it)
            else:
                ck.violation({"ssh_auth": {"sync": tape_json(tS), "async": tape_json(tA)}, "got_sync": [sr[0], [w.decode("latin-1") for w in sr[1]]],
                              "got_async": [ar[0], [w.decode("latin-1") for w in ar[1]]], "finding": None},
                             "in-channel ssh authentication: Channel and AsyncChannel differ on a dialogue without ssh error message", matcher)
        ck.extra["advisory_ssh_auth_divergences_on_ssh_error_messages"] = ssh_adv
    except Exception as e:      # noqa
        ck.proof_broken("ssh-auth channel harness", repr(e))
    # ---------------------------------------------------------------- 6 paired scenarios (simulated transports)
    scns = []
    try:
        scns += json.load(open(CORPUS)).get("scenarios", [])
    except FileNotFoundError:
        pass
    ncorpus = len(scns)
    scns += enumerated_scenarios()
    nenum = len(scns) - ncorpus
    ngen = 2500 if tier == "quick" else 30000
    for _ in range(ngen):
        scns.append(gen_scenario(ck.rng))
    for i in range(0, len(scns), 500):          # batches: observations are compared and dropped
        handle_pairs(ck, run_pairs(scns[i:i + 500]), S)
    ck.extra["scenarios_corpus"], ck.extra["scenarios_enumerated_small_scope"], ck.extra["scenarios_generated"] = ncorpus, nenum, ngen
    phases['paired-scenarios'], tp = round(time.time() - tp, 1), time.time()
    # ---------------------------------------------------------------- 7a the two real Telnet transports over scripted recv()/read() results
    try:
        telnet_pair_cases(ck, T, 1500 if tier == "quick" else 30000)
    except Exception as e:      # noqa
        ck.proof_broken("scripted Telnet pair rig", repr(e))
    # ---------------------------------------------------------------- 7 real Telnet transports over loopback
    rig_trouble = []
    real = REAL_TELNET_SCNS if tier == "thorough" else REAL_TELNET_SCNS[:3]
    real = real + [dict(REAL_TELNET_SCNS[0], server={"nego": 4}, dev=dict(REAL_TELNET_SCNS[0]["dev"], nl="\r\x00\n"))]     # option 0, NUL-padded CR
    for scn in real:
        try:
            s, a = T.run_pair(scn)
        except Exception as e:      # noqa
            rig_trouble.append(repr(e))
            continue
        benign = lambda e: (not e) or "reset" in e.lower() or "broken pipe" in e.lower()      # the client hung up first
        if s["server_alive"] or a["server_alive"] or not benign(s["server_err"]) or not benign(a["server_err"]):
            rig_trouble.append(f"loopback server: {s['server_err']} / {a['server_err']}")
        d = T.compare_pair(s, a)
        ck.case(("real-telnet", json.dumps(scn, sort_keys=True)), nontrivial=True, sample={"real_telnet": scn["platform"], "ops": [o[0] for o in scn["ops"]]},
                tags=("real-telnet", f"plat={scn['platform']}"))
        ck.extra["programs"] = ck.extra.get("programs", 0) + 2
        if d:
            ck.violation({"rig": "real-telnet", "scenario": scn, "diffs": [list(map(str, x)) for x in d[:6]], "finding": None},
                         "real Telnet transports over loopback: sync and asyncio stacks differ", matcher)
        else:
            ck.traces_validated += 1
    if rig_trouble:
        ck.extra["advisory_rig_trouble"] = rig_trouble[:5]
    phases['real-telnet'], tp = round(time.time() - tp, 1), time.time()
    # ---------------------------------------------------------------- 8 known findings: replay the stored witnesses
    what = {f["id"]: f["what"] for f in ck.findings}
    try:
        if "C06-F1" in open_ids and witness_f1():
            ck.known_finding("C06-F1", what["C06-F1"])
        ck.case(("telnet-timeout-zero",), nontrivial=True, tags=("rig=telnet-timeout-zero",))       # never generated (a defect here spins): bounded rig on every tree
        if witness_f2():
            ck.violation({"rig": "telnet-timeout-zero", "scenario": {"platform": "cisco_iosxe", "dev": {"platform": "cisco_iosxe"}, "telnet": {"user": "admin", "password": "pw"},
                                                                      "conn": {"timeout_ops": 0}, "ops": [["open"]]}, "finding": "C06-F2"},
                         "in-channel telnet login with timeout_ops=0: the sync stack logs in, the asyncio stack never reads and keeps writing returns (bounded run)", matcher)
            if "C06-F2" in open_ids:
                ck.known_finding("C06-F2", what["C06-F2"])
        modes = ("refused", "unresolvable", "timeout") if tier == "thorough" else ("refused", "timeout")
        f3 = witness_f3(modes)
        ck.extra["telnet_open_failure_exception_types"] = {k: list(v) for k, v in f3.items()}
        for m, (es, ea) in f3.items():
            ck.case(("telnet-open", m), nontrivial=True, tags=("rig=telnet-open",))
            if es != ea:
                ck.violation({"rig": "telnet-open", "mode": m, "sync": es, "async": ea, "finding": "C06-F3" if "ok" not in (es, ea) else None},
                             f"Telnet transports raise different exception types when the connection cannot be established ({m}): {es} vs {ea}", matcher)
        if "C06-F3" in open_ids and any(es != ea for es, ea in f3.values()):
            ck.known_finding("C06-F3", what["C06-F3"])
        # the three timing / loss rigs run on every tree (regression cases once their finding is fixed); a difference is attributed
        # to the finding only while it is open and only in the recorded shape
        ok, det = witness_f4()
        ck.extra["telnet_kick_rig"] = str(det)
        ck.case(("telnet-kick",), nontrivial=True, tags=("rig=telnet-kick",))
        if det[0][0] != det[1][0]:
            ck.violation({"rig": "telnet-kick", "sync": det[0][0], "async": det[1][0], "finding": "C06-F4" if ok else None},
                         f"console silent until it gets a return: sync {det[0][0]} vs asyncio {det[1][0]}", matcher)
            if ok and "C06-F4" in open_ids:
                ck.known_finding("C06-F4", what["C06-F4"])
        ok, det = witness_f5()
        ck.extra["telnet_silent_rig"] = str(det)
        ck.case(("telnet-silent",), nontrivial=True, tags=("rig=telnet-silent",))
        if det[0] != det[1]:
            ck.violation({"rig": "telnet-silent", "sync": det[0], "async": det[1], "finding": "C06-F5" if ok else None},
                         f"real Telnet transports, device falls silent: exception types differ: {det[0]} vs {det[1]}", matcher)
            if ok and "C06-F5" in open_ids:
                ck.known_finding("C06-F5", what["C06-F5"])
        es, ea, trouble = T.drop_pair_subprocess(20)
        ck.extra["telnet_drop_rig"] = str((es, ea, trouble))
        if trouble is None:
            ck.case(("telnet-drop", 20), nontrivial=True, tags=("rig=telnet-drop",))
            if es != ea:
                known = all(x == y or (x == "ScrapliConnectionNotOpened" and y == "ScrapliConnectionError") for x, y in zip(es, ea)) and len(es) == len(ea)
                ck.violation({"rig": "telnet-drop", "drop_after": 20, "sync": es, "async": ea, "finding": "C06-F6" if known else None},
                             f"real Telnet transports, peer closes the session: exception types differ: {es} vs {ea}", matcher)
                if known and "C06-F6" in open_ids:
                    ck.known_finding("C06-F6", what["C06-F6"])
    except Exception as e:      # noqa
        ck.extra["advisory_witness_replay_trouble"] = repr(e)
    phases['finding-witnesses'], tp = round(time.time() - tp, 1), time.time()
    # ---------------------------------------------------------------- 9 something no longer checks: widen the search for a failing input
    if ck.broken and not ck.violations:
        aim = list(unaudited) + [(x[0], "", x[1], "await", "") for x in (ck.extra.get("await_mismatches") or [])]
        directed_search(ck, tier, aim, S, T, A)
    phases["widened-search"] = round(time.time() - tp, 1)
    ck.extra["phase_seconds"] = phases
    ck.extra["programs"] = ck.extra.get("programs", 0) + 2 * len(auth_cases)
    ck.notes.append("translation_validation: identical scenarios executed on the real sync and asyncio stacks and compared pairwise (programs = scenario x stack); "
                    "proof obligations inside the same evidence: the parity table and the twin-diff pin decided by the Lean kernel on regenerated data, "
                    "login-variant agreement proved for all tapes")
    return ck.finish()


TELNET_CORPUS = [
    # option 0 (TRANSMIT-BINARY) in both directions, NUL-padded carriage returns, NUL right behind / inside a command
    [bytes([255, 251, 1, 255, 251, 3]) + b"\r\x00\nUser Access Verification\r\x00\n", bytes([255, 253, 0, 255, 251, 0, 255, 253, 24]) + b"\r\x00\nUsername: "],
    [bytes([255, 253]), bytes([0]) + b"login: "],
    [bytes([255]), bytes([251]), bytes([0, 0]) + b"x"],
    [b"a\x00b" + bytes([255, 254, 0]) + b"\x00", bytes([255, 252, 255, 0, 255, 253, 3])],
]


def telnet_pair_cases(ck, T, n, max_cmds=10):
    """same recv()/read() results into the real TelnetTransport and AsynctelnetTransport; oracle: equal data and equal replies"""
    cases = list(TELNET_CORPUS) + [T.gen_stream(ck.rng, max_cmds) for _ in range(n)]
    for chunks in cases:
        s, a = T.scripted_pair(chunks)
        ncmd = b"".join(chunks).count(b"\xff")
        ck.case(("telnet-pair", tuple(chunks)), nontrivial=ncmd > 0 and len(chunks) > 1, sample={"telnet_pair": [hexs(c) for c in chunks][:10]},
                tags=("telnet-pair", "telnet-pair-nul" if b"\x00" in b"".join(chunks) else "telnet-pair-no-nul"))
        ck.extra["programs"] = ck.extra.get("programs", 0) + 2
        if s != a:
            ck.violation({"telnet_pair": [hexs(c) for c in chunks], "sync": [str(s[0]), hexs(s[1])], "async": [str(a[0]), hexs(a[1])], "finding": None},
                         f"Telnet transports differ on the same received bytes: sync data/replies={s[0]!r}/{s[1].hex()} async={a[0]!r}/{a[1].hex()}", matcher)
        else:
            ck.traces_validated += 1


def directed_search(ck, tier, unaudited, S, T, A):
    """a proof obligation / correspondence no longer checks and no failing input is known yet: aim the generators at what changed.
    For every un-audited twin function (pair, class K, method M) the static map FAMILY_OF names the scenario families that reach K.M;
    platform drivers and hooks additionally pin the platform.  Several PRNG streams, bounded time."""
    t0 = time.time()
    budget = 150 if tier == "quick" else 400
    fams = families_for(unaudited)
    focus = sorted({p for d in unaudited for p in PLATS if PAIR_OF_PLAT.get(p, p) == d[0]})
    ck.extra["directed_search"] = {"families": fams, "platforms": focus, "functions": [f"{d[1]}.{d[2]}" for d in unaudited]}
    n = 0
    if any(d[0].startswith("transport") for d in unaudited) or not unaudited:
        # a Telnet transport twin changed: scripted pair rig at volume, then every loopback scenario x negotiation variant
        telnet_pair_cases(ck, T, 20000)
        n += 20000
        for scn in REAL_TELNET_SCNS:
            for nv in range(len(T.NEGO_VARIANTS)):
                if ck.violations:
                    break
                sc2 = dict(scn, server={"nego": nv})
                try:
                    s, a = T.run_pair(sc2)
                except Exception:      # noqa
                    continue
                d = T.compare_pair(s, a)
                ck.extra["programs"] = ck.extra.get("programs", 0) + 2
                if d:
                    ck.violation({"rig": "real-telnet", "scenario": sc2, "diffs": [list(map(str, x)) for x in d[:6]], "finding": None},
                                 "real Telnet transports over loopback: sync and asyncio stacks differ", matcher)
    if "telnet" in fams and not ck.violations:
        # the login loops themselves: many more tapes through both real loops (pairwise oracle inside the theorem's domain)
        import random
        rng = random.Random(ck.seed + 77)

        async def many(cases):
            return [await A.run_async(tA, u, p, iv) for _tS, tA, u, p, iv in cases]
        cases = [gen_auth_case(rng) for _ in range(5000)]
        ares = asyncio.run(many(cases))
        for (tS, tA, u, p, iv), ar in zip(cases, ares):
            if no_eof(tS) and no_kick(tS, iv) and no_kick(tA, iv):
                sr = A.run_sync(tS, u, p, iv)
                if sr != ar:
                    ck.violation({"auth": {"sync": tape_json(tS), "async": tape_json(tA), "user": u, "password": p, "interval": iv}, "finding": None},
                                 "in-channel telnet login: sync and asyncio loops differ on a dialogue without connection error and without an elapsed return interval", matcher)
                    break
        n += 5000
    stream = 0
    while time.time() - t0 < budget and not ck.violations:
        import random
        stream += 1
        rng = random.Random((ck.seed + 1) * 1000003 + stream)          # several independent PRNG streams
        batch = []
        for _ in range(300):
            fam = rng.choice(fams) if fams and rng.random() < 0.85 else None
            plat = rng.choice(focus) if focus and rng.random() < 0.8 else None
            batch.append(gen_scenario(rng, plat=plat, family=fam))
        handle_pairs(ck, run_pairs(batch), S)
        n += len(batch)
    ck.extra["widened_search_scenarios"] = n


def handle_pairs(ck, results, S):
    new = 0
    for scn, s, a in results:
        diffs = S.compare(s, a)
        rest, fid = split_known(scn, diffs)
        key = json.dumps(scn, sort_keys=True, default=str)
        nontriv = len(s["ops"]) >= 3 and len(s["writes"]) >= 3
        ck.case(("scn", key), nontrivial=nontriv, sample={"scenario": scn, "sync_ops": [(o["op"], o.get("exc")) for o in s["ops"]]}, tags=tags_of(scn, s))
        ck.extra["programs"] = ck.extra.get("programs", 0) + 2
        if fid and not rest:
            ck.violation({"scenario": scn, "finding": fid}, "known difference", matcher)
        if rest:
            small = scn
            try:
                if len(ck.violations) >= 2:          # only the first reports are minimised (time)
                    raise StopIteration
                small = minimise(scn, pair_fails)
                s2 = S.run_sync(small)
                from harness.c06auth import patched
                with patched(clock=None, shim="sleep"):
                    a2 = asyncio.run(S.run_async(small))
                rest2, _ = split_known(small, S.compare(s2, a2))
                rest = rest2 or rest
            except Exception:      # noqa
                small = scn
            if ck.violation({"scenario": small, "diffs": [[str(y)[:300] for y in x] for x in rest[:8]], "finding": None},
                            f"sync and asyncio stacks differ: {rest[0][0]} {rest[0][1]}: sync={str(rest[0][2])[:120]!r} async={str(rest[0][3])[:120]!r}", matcher):
                new += 1
        elif not diffs or fid:
            ck.traces_validated += 1
    return new


def replay(path):
    from harness import c06auth as A
    from harness import c06scen as S
    from harness import c06telnet as T
    r = json.load(open(path))
    if r.get("kind") == "no-failing-input-found":
        print(json.dumps(r.get("no_longer_checks"), indent=1)[:4000])
        return 1
    case = r.get("violation", {}).get("case") or {}
    if case.get("rig") == "telnet-timeout-zero":
        r = witness_f2()
        print("sync logs in, asyncio spins without reading:", r)
        return 1 if r else 0
    if "scenario" in case and case.get("rig") == "real-telnet":
        s, a = T.run_pair(case["scenario"])
        d = T.compare_pair(s, a)
        print("diffs:", d)
        return 1 if d else 0
    if "scenario" in case:
        s = S.run_sync(case["scenario"])
        with A.patched(clock=None, shim="sleep"):
            a = asyncio.run(S.run_async(case["scenario"]))
        rest, fid = split_known(case["scenario"], S.compare(s, a))
        print("scenario:", json.dumps(case["scenario"])[:2000])
        print("sync :", [(o["op"], o.get("exc"), o.get("priv")) for o in s["ops"]], s["writes"][-6:])
        print("async:", [(o["op"], o.get("exc"), o.get("priv")) for o in a["ops"]], a["writes"][-6:])
        print("diffs:", rest, "known:", fid)
        return 1 if rest else 0
    if "coroutine" in case:
        bad, _ = live_coroutine_mismatches()
        print(sorted(bad))
        return 1 if tuple(case["coroutine"]) in bad else 0
    if "parity" in case:
        live, _ = live_mismatches()
        print("live mismatches:", sorted(live))
        return 1 if tuple(case["parity"]) in live else 0
    if "telnet_pair" in case:
        from vlib.common import unhex
        s, a = T.scripted_pair([unhex(x) for x in case["telnet_pair"]])
        print("sync ", s, "\nasync", a)
        return 1 if s != a else 0
    if "ssh_auth" in case:
        c = case["ssh_auth"]
        s = A.run_ssh_sync(tape_from_json(c["sync"]), "pw", "phrase")
        a = asyncio.run(A.run_ssh_async(tape_from_json(c["async"]), "pw", "phrase"))
        print("sync ", s, "\nasync", a)
        return 1 if s != a else 0
    if "auth" in case:
        c = case["auth"]
        tS, tA = tape_from_json(c["sync"]), tape_from_json(c["async"])
        s = A.run_sync(tS, c["user"], c["password"], c["interval"])
        a = asyncio.run(A.run_async(tA, c["user"], c["password"], c["interval"]))
        print("sync ", s, "\nasync", a)
        return 1 if s != a else 0
    if case.get("rig") == "telnet-silent":
        ok, det = witness_f5()
        print(det)
        return 1 if det[0] != det[1] else 0
    if case.get("rig") == "telnet-kick":
        ok, det = witness_f4()
        print(det)
        return 1 if det[0][0] != det[1][0] else 0
    if case.get("rig") == "telnet-drop":
        es, ea, trouble = T.drop_pair_subprocess(case.get("drop_after", 20))
        print(es, ea, trouble)
        return 2 if trouble else (1 if es != ea else 0)
    if case.get("rig") == "telnet-open":
        es, ea = T.open_failure(case["mode"])
        print(es, ea)
        return 1 if es != ea else 0
    print("nothing to replay in", path)
    return 2
