"""C02 — results do not depend on how device output is chunked or decorated.
Lean: ScrapliProps/C02.lean (+ C01Lemmas).  Real code: every base scenario is run through the real drivers
under many segmentations (whole, 1-byte, PRNG, every single cut, every double cut for short streams) and
decorations (CR insertion, complete escape sequences, rough-mode junk in the echo); oracle = results,
device-side log and completion identical across all variants of one scenario; every variant is also replayed
on the Lean channel model (same recorded read sizes)."""
import copy
import itertools
import json
import random
import re

import translate
from harness.chanscen import Scenario, model_request, real_reply, run_real
from props import c01
from vlib.common import VERIF, Check, hexs, run_model

PID = "C02"
# rough mode commands: mixed case since fix f3f6abb (before it an input with an upper-case letter never matched its own echo)
LOWER_CMDS = ["SHOW Version", "show run | include IOS", "show vlan 100", "terminal width 511", "show process cpu history aa", "show version", "show run | include lo0", "show ip route  ", "ping 10.0.0.1 repeat 2", "show  two   blanks", "s", "show log | i x"]


def observables(sc, res):
    """what the property says must not depend on segmentation/decoration"""
    ops = []
    for op, got in zip(sc.ops, res.op_results):
        if op[0] == "get_prompt":
            ops.append(got)
        elif op[0] == "send_command":
            ops.append((got[0], got[2]))
        elif op[0] == "send_commands":
            ops.append([(g[0], g[2]) for g in got])
        else:
            ops.append((got[0], got[2]))
    return {"completed": not res.stalled and res.error is None, "error": (res.error or "").split(":")[0], "ops": ops,
            "writes": b"".join(res.writes), "exec_log": list(res.device.exec_log)}


def raw_core(sc, res):
    """raw results up to leading/trailing blanks (the statement: equal up to the trailing-blank split)"""
    out = []
    for op, got in zip(sc.ops, res.op_results):
        if op[0] in ("send_command", "send_interactive"):
            out.append(got[1].strip(b" \t"))
        elif op[0] == "send_commands":
            out.append([g[1].strip(b" \t") for g in got])
    return out


def gen_base(rng, tier):
    """short scenarios (streams small enough to enumerate cuts) from the C01 grammar"""
    sc = c01.gen_scenario(rng, tier)
    sc.cuts = []
    sc.depth = rng.choice([None, 100])
    sc.hostname = sc.hostname[:rng.choice([1, 3, 8, 20])]
    for k in list(sc.outputs):
        o = sc.outputs[k]
        if len(o) > 160:
            sc.outputs[k] = o[:rng.choice([0, 10, 60, 99, 100, 101, 160])].rstrip("\\")
    sc.ops = sc.ops[:3]
    # an abandoned operation (C01 grammar): its cut point must stay inside the (possibly shortened) output, and an operation must follow
    fixed = []
    for i, op in enumerate(sc.ops):
        if op[0] == "abandon":
            n = len(sc.outputs[op[1].strip()].encode())
            if n < 4 or i + 1 >= len(sc.ops):
                continue
            op = ("abandon", op[1], min(op[2], n - 1), *op[3:])
        fixed.append(op)
    sc.ops = fixed
    if sc.echo_junk and any(op[0] == "send_interactive" for op in sc.ops):
        sc.echo_junk = None      # the interactive result keeps the raw echo by design; backspace junk would show in it
    return sc


BANNER_TAILS = [" <noc@example.net>", " r1#", " see rtr-9>", " <name>ge-0/0/0</name>", " cost 5$", " [ok]", " node:", " user@host>", " sw1(config)#"]


def gen_banner(rng, depth):
    """a login banner / MOTD longer than the prompt search window, waiting unread when the first operation runs.  No line is a
    prompt and no PREFIX of a line is one (every line starts with 'word ' and prompt patterns admit no blank before the
    terminator), but many lines END in text that, taken alone, is prompt-like: only a search that starts in the middle of a line
    can be fooled, and where a bounded window starts depends on the segmentation."""
    lines = []
    while sum(len(x) + 1 for x in lines) < depth * rng.choice([2, 3, 5]):
        words = " ".join(rng.choice(["notice", "access", "is", "logged", "contact", "the", "noc", "at", "unit", "42"]) for _ in range(rng.randint(1, 6)))
        lines.append("motd " + words + (rng.choice(BANNER_TAILS) if rng.random() < 0.6 else ""))
    return ("\n".join(lines) + "\n").encode()


def variants(rng, base, tier, stream_len, decorator_spans=None):
    """list of (tag, scenario)"""
    out = []

    def mk(tag, **kw):
        v = copy.deepcopy(base)
        for k, val in kw.items():
            setattr(v, k, val)
        out.append((tag, v))

    mk("1byte", cuts=[1] * 30000)
    for i in range(2 if tier == "quick" else 6):
        r = random.Random(rng.random())
        mk("rand", cuts=[r.choice([1, 1, 2, 3, 5, 8, 13, 40]) for _ in range(8000)])
    mk("fixed", cuts=[rng.choice([2, 3, 7])] * 20000)
    allowed = list(range(1, stream_len))     # every position, also inside an inserted escape sequence (covered since the hold-back fix)
    n1 = len(allowed) if tier == "thorough" else min(len(allowed), 40)
    for k in (allowed if n1 == len(allowed) else rng.sample(allowed, n1)):
        mk("cut1", cut_at=[k])
    pairs = list(itertools.combinations(allowed, 2))
    n2 = min(len(pairs), 30 if tier == "quick" else 1500)
    for a, b in (pairs if n2 == len(pairs) else rng.sample(pairs, n2)):
        mk("cut2", cut_at=[a, b])
    return out


def matcher(case):
    k = case.get("known")
    return k if k in ("F9", "F10", "F23") else None


DECOR_PAIRS = []
CR_BYTE = b"\r"      # the harness device ends its lines with CR NL: the theorems' `LineDev` text is that output without the CRs


def compare(ck, base, bres, tag, v, vres, modelq):
    ob, ov = observables(base, bres), observables(v, vres)
    case = {"base": base.describe(), "variant": v.describe(), "tag": tag}
    if ob != ov:
        known = None
        # F23: differs only by leading blanks of an interactive result (unread residue of the previous op)
        if ob["completed"] and ov["completed"] and ob["writes"] == ov["writes"] and ob["exec_log"] == ov["exec_log"]:
            def norm(o):
                return [(x[0].lstrip(" \t"), x[1]) if isinstance(x, tuple) else x for x in o["ops"]]
            inter = [i for i, op in enumerate(base.ops) if op[0] == "send_interactive"]
            if inter and norm(ob) == norm(ov) and all(ob["ops"][i] == ov["ops"][i] for i in range(len(base.ops)) if i not in inter):
                known = "F23"
        diff = next((f"{k}: {str(ob[k])[:160]} != {str(ov[k])[:160]}" for k in ob if ob[k] != ov[k]), "")
        ck.violation({**case, "known": known, "diff": diff}, f"[{tag}] observables differ between whole-read run and variant: {diff}", matcher)
    elif raw_core(base, bres) != raw_core(v, vres):
        ck.violation({**case, "diff": "raw_result differs beyond leading/trailing blanks"}, f"[{tag}] raw results differ beyond the trailing-blank split", matcher)
    req = model_request(v, vres)
    if req is not None:
        modelq.append((req, real_reply(vres), v.describe()))
    if v.decor and not v.echo_junk and len(bres.dev_outputs) == len(vres.dev_outputs):
        # the hypothesis `Decorates` of the decorated-session theorems, on the bursts this run really put on the wire
        DECOR_PAIRS.extend((p, d) for p, d in zip([bres.init_avail, *bres.dev_outputs], [vres.init_avail, *vres.dev_outputs]) if d != p)


def run(tier, seed):
    ck = Check(PID, tier, seed, level="proof")
    ck.rule = ("base scenario (C01 grammar, short streams) x variants: whole reads (reference), 1-byte reads, PRNG cuts, fixed k, every single cut "
               "position and sampled/all double cut positions of the global output stream; decorations: CR insertion, complete escape "
               "sequences (CSI/SGR/OSC-title/ESC 7,8,M,E) at character boundaries, read cuts anywhere (also inside a sequence), rough mode with junk "
               "interleaved in the echo; the timed read loop (send_and_read) with the line going quiet for a whole transport timeout at any point, also inside a sequence. Non-trivial = variant differs from the reference in segmentation or decoration; distinct by (base, variant). "
               "Oracle: results, failed flags, bytes written, device exec log and completion identical to the reference run; raw results equal up to "
               "leading/trailing blanks. Each variant is replayed on the Lean model with the recorded read sizes.")
    ck.trusted = ["Lean 4.33.0 kernel; axioms audited", "tools/gen/c01.py", "tools/rx2lean.py + Rx.lean (regex fragment model)", "harness: simdevice/simtransport/chanscen (causal device, Decorator)"]
    ck.assumptions = ["causal device; sequences are ESC-introduced, contain no further introducer byte and are at most 256 bytes long (read boundaries may fall anywhere, also inside a sequence)",
                      "rough mode: junk bytes precede echoed bytes and are not input bytes",
                      "login (channel_authenticate_*): segmentation independence of outcome and bytes written is checked here on short dialogues (auth_family); what a login must do, and long / adversarial dialogues, are the C09 check's"]
    try:
        translate.translate("C01")
    except Exception as e:
        ck.proof_broken("translator gen/c01.py", repr(e))
    ck.prove("ScrapliProps.C02", lemma_files=["ScrapliProps/C01Lemmas.lean", "ScrapliProps/C01Interact.lean", "ScrapliProps/C01.lean", "ScrapliModel/Channel/Chan.lean", "ScrapliModel/Channel/Basic.lean", "ScrapliModel/Channel/Ansi.lean"])
    # whole sessions over a decorating device (decorated_session_exact, decoration_invisible) and the validated check of their hypothesis
    ck.prove("ScrapliProps.C02Sessions", lemma_files=["ScrapliProps/C02Decor.lean", "ScrapliProps/C02Timed.lean"])
    ck.prove("ScrapliProps.C02DecorCheck")
    if tier == "thorough":
        ck.leanchecker("ScrapliProps.C02")
        ck.leanchecker("ScrapliProps.C02Sessions")
    # known findings: replay stored witnesses
    for f in ck.findings:
        w = f.get("witness")
        if not w:
            continue
        b, v = Scenario.from_dict(w["base"]), Scenario.from_dict(w["variant"])
        br, vr = run_real(b), run_real(v)
        ck.case(("witness", f["id"]), nontrivial=True, tags=("finding-witness",))
        if observables(b, br) != observables(v, vr):
            if f.get("status") == "open":
                ck.known_finding(f["id"], f["what"])
            else:
                # a repaired finding is a regression case: it suppresses nothing
                ck.violation({"base": b.describe(), "variant": v.describe(), "tag": "witness-" + f["id"]},
                             f"the stored witness of the repaired finding {f['id']} differs between segmentations again")
    modelq = []
    nbase = 42 if tier == "quick" else 110
    for bi in range(nbase):
        rng = random.Random(f"{seed}-{bi}")
        base = gen_base(rng, tier)
        mode = ["plain", "plain", "cr", "ansi", "ansi+cr", "rough"][bi % 6]
        if mode in ("cr", "ansi", "ansi+cr"):
            base.decor = {"kind": mode, "seed": rng.randrange(10**6), "p": rng.choice([0.05, 0.15, 0.3])}
        if mode == "rough":
            base.rough = True
            base.echo_junk = {"seed": rng.randrange(10**6), "alphabet": rng.choice(["\x08 ", "~^", " \t", "QJ"])}
            # junk precedes echoed bytes; it must not follow the last visible byte, so no trailing blanks in rough-mode inputs
            cmds = [c.strip() for c in rng.sample(LOWER_CMDS, 2)]
            base.outputs = {c.strip(): c01.gen_output(rng, 60, cap=120) for c in cmds}
            base.ops = [("send_command", rng.choice(cmds), True, False) for _ in range(rng.randint(1, 3))]
        if mode == "plain" and bi % 4 == 1 and base.platform != "juniper_junos":
            # a long unread banner in front of the first get_prompt (library transports log in outside the channel)
            base.depth = rng.choice([100, 200])
            base.banner = gen_banner(rng, base.depth)
            base.ops = [("get_prompt",)] + [op for op in base.ops if op[0] not in ("send_interactive", "abandon", "reopen")][:2]
            mode = "banner"
        # reference: undecorated, whole reads
        ref = copy.deepcopy(base)
        ref.decor, ref.echo_junk = None, None
        rres = run_real(ref)
        ck.case(("ref", json.dumps(ref.describe(), sort_keys=True, default=str)), nontrivial=False, tags=("reference",))
        probs = c01.oracle(ref, rres) if not ref.rough else []
        if [p for p in probs if p != "F23"]:
            ck.violation({"base": ref.describe(), "problems": probs[:3]}, "reference run itself violates framing: " + probs[0])
            continue
        bres = run_real(base)
        stream_len = len(bres.init_avail) + sum(len(x) for x in bres.dev_outputs)
        spans = bres.decorator.spans if bres.decorator else None
        allv = [("decorated-whole", base)] if (base.decor or base.echo_junk) else []
        allv += variants(rng, base, tier, stream_len, spans)
        for tag, v in allv:
            vres = bres if v is base else run_real(v)
            inside = bool(vres.decorator and _cut_inside(vres))
            ck.case((bi, tag, str(v.cuts[:50]), str(v.cut_at)), nontrivial=True,
                    sample={"base": base.describe(), "tag": tag, "cut_at": v.cut_at} if tag in ("cut2", "rand") else None,
                    tags=(tag, "mode=" + mode, base.platform, base.stack))
            if inside:
                # a read boundary strictly inside an escape sequence: covered by ansi_any_chunk since fix 'strip ansi across reads'
                # (the channel holds the beginning of a cut sequence back); F9 was the finding that it was not removed
                ck.extra["variants_with_a_cut_inside_an_escape_sequence"] = ck.extra.get("variants_with_a_cut_inside_an_escape_sequence", 0) + 1
                if observables(ref, rres) != observables(v, vres):
                    ck.violation({"base": ref.describe(), "variant": v.describe(), "tag": tag, "known": "F9"}, "escape sequence split across reads is not removed", matcher)
                    continue
            compare(ck, ref, rres, tag, v, vres, modelq)
    # generic-driver prompts with a pattern-matching proper prefix (F10): attributed to the finding only under its predicate
    for bi in range(3 if tier == "quick" else 12):
        rng = random.Random(f"{seed}-f10-{bi}")
        host = rng.choice(["user@host:~", "a@b", "root@srv:/etc", "x:y", "[srv]", "me~home"])
        b = Scenario(platform="generic", stack=rng.choice(["sync", "async"]), hostname=host, trailing=rng.choice(["", " "]),
                     outputs={"show version": "v1"}, ops=[("get_prompt",), ("send_command", "show version", True, False)])
        br = run_real(b)
        for cuts in ([1] * 3000, [2] * 3000, [rng.choice([1, 2, 3, 5]) for _ in range(3000)]):
            v = copy.deepcopy(b)
            v.cuts = cuts
            vr = run_real(v)
            ck.case(("f10", host, str(cuts[:20])), nontrivial=True, tags=("f10-stream",))
            if observables(b, br) != observables(v, vr):
                ck.violation({"base": b.describe(), "variant": v.describe(), "known": "F10", "tag": "f10"}, "generic prompt prefix matched early", matcher)
    timed_family(ck, tier, seed, modelq)
    timed_model_family(ck, tier, seed, modelq)
    auth_family(ck, tier, seed)
    ansi_differential(ck, tier)
    try:
        outs = run_model("C01", [q[0] for q in modelq], native=True) if modelq else []
    except Exception as e:
        ck.proof_broken("model driver Drv/C01.lean", repr(e))
        outs = []
    # every decorated burst of the runs above against the validated Lean check of the theorems' hypothesis (advisory: a burst outside
    # the hypothesis is outside the THEOREM, the oracle and the model replay judged the run all the same)
    pairs = list(dict.fromkeys(DECOR_PAIRS))[: (400 if tier == "quick" else 6000)]
    DECOR_PAIRS.clear()
    try:
        douts = run_model("C01", [f"decor {hexs(p.replace(CR_BYTE, b''))} {hexs(d)}" for p, d in pairs], native=True) if pairs else []
    except Exception as e:
        ck.proof_broken("model driver Drv/C01.lean (decor)", repr(e))
        douts = []
    ck.extra["decorated_bursts_checked_against_Decorates"] = len(douts)
    ck.extra["decorated_bursts_inside_hypothesis"] = sum(1 for o in douts if o == "1")
    ck.extra["decorated_bursts_outside_hypothesis_sample"] = [(hexs(p), hexs(d)) for (p, d), o in zip(pairs, douts) if o != "1"][:3]
    ck.extra["model_replays_with_driver_level_send_commands"] = sum(1 for q in modelq if re.search(r"(^|;| )sc:", q[0]))
    ck.extra["model_replays_with_timed_op"] = sum(1 for q in modelq if "sar:" in q[0])
    ck.extra["model_replays_with_pauses_in_timed_op"] = sum(1 for q in modelq if re.search(r"sar:[^;]*:[01]*1[01]*(;|$)", q[0]))
    for (req, want, desc), out in zip(modelq, outs):
        if "stall" in want or "stall" in out or "exc:" in want:
            out, want = out.split(" W=")[0], want.split(" W=")[0]
        if out == want:
            ck.traces_validated += 1
        else:
            ck.disagree("channel model vs real channel (variant replay)", desc, f"model={out[:300]} real={want[:300]}")
    return ck.finish()


def auth_family(ck, tier, seed):
    """`authenticate` is in the quantifier of C02: the in-channel login loops (channel_authenticate_telnet / _ssh, sync and asyncio)
    against short causal login dialogues with valid credentials, a key passphrase, decorated prompts and a fatal ssh client message,
    whole reads (reference) vs 1-byte reads, single and double cuts of the output stream.  Outcome, the bytes written to the device and
    the device's final state must not depend on the segmentation.  (Rig and device: the C09 harness; what the login must do is C09's,
    here only independence of the segmentation is judged.)"""
    from props import c09
    try:
        import gen.c09 as G9
        divisor = G9.return_divisor()
    except Exception:
        divisor = 10
    rng = random.Random(f"{seed}-auth")
    shorts = []
    for stack in ("sync", "async"):
        shorts.append(c09.base_case("telnet", stack, user_prompt="login: ", pass_prompt="Password: ", banner="hi\n", shell_prompt="r1#"))
        shorts.append(c09.base_case("telnet", stack, user_prompt="Username:", pass_prompt="password:", nl="\r\n", shell_prompt="r1>"))
        shorts.append(c09.base_case("telnet", stack, user_prompt="\x1b[0mlogin: ", pass_prompt="Password: ", banner="\x1b[1;32mhi\x1b[0m\n", shell_prompt="\x1b[32mr1#\x1b[0m"))
        shorts.append(c09.base_case("ssh", stack, pass_prompt="a@r1's password: ", banner="ok\n", shell_prompt="r1#"))
        shorts.append(c09.base_case("ssh", stack, passphrase="keypass", phrase_prompt="Enter passphrase for key '/k': ", shell_prompt="r1#"))
        shorts.append(c09.base_case("ssh", stack, fatal="a@r1: Permission denied (publickey).\n", pre="Warning: x\n"))
        shorts.append(c09.base_case("ssh", stack, fatal="Host key verification failed.\n", pre="@@@ WARNING @@@\n"))
    cases, owner = [], []
    for bi, c in enumerate(shorts):
        n = c09.stream_len_estimate(c) + 2
        singles = list(range(1, n)) if tier == "thorough" else rng.sample(range(1, n), min(n - 1, 14))
        doubles = [sorted(rng.sample(range(1, n), 2)) for _ in range(4 if tier == "quick" else 120)]
        for cuts in [["all"], ["one"]] + [["at", [i]] for i in singles] + [["at", d] for d in doubles]:
            cases.append(c09.with_cuts(dict(c, build="driver" if (len(cases) % 2) else "args"), cuts))
            owner.append(bi)
    res = c09.run_cases(cases, divisor)

    def obs(r):
        return {"outcome": r["outcome"], "written": b"".join(w for _, w in r["writes"]).hex(), "accepted": r["accepted"], "closed": r["closed"]}
    ref = {}
    for c, bi, r in zip(cases, owner, res):
        if c["cuts"] == ["all"]:
            ref[bi] = (c, obs(r))
    for c, bi, r in zip(cases, owner, res):
        if c["cuts"] == ["all"]:
            ck.case(("auth-ref", bi), nontrivial=False, tags=("authenticate", "reference"))
            continue
        ck.case(("auth", bi, json.dumps(c["cuts"])), nontrivial=len(r["tape"]) > 1, tags=("authenticate", c["flavour"], c["stack"], "cuts=" + c["cuts"][0]))
        if obs(r) != ref[bi][1]:
            diff = next(f"{k}: {ref[bi][1][k]!r} != {obs(r)[k]!r}" for k in ref[bi][1] if ref[bi][1][k] != obs(r)[k])
            ck.violation({"tag": "authenticate", "login_case": c, "reference": ref[bi][1], "variant": obs(r), "diff": diff},
                         f"[authenticate] outcome / bytes written of the in-channel login depend on the segmentation: {diff}")


def timed_family(ck, tier, seed, modelq):
    """the timed read loop (`send_and_read` -> `_read_until_prompt_or_time`): a transport read that times out is swallowed there, so
    the line may go quiet for a whole transport timeout ANYWHERE in the response -- also in the middle of an escape sequence -- and
    the read before it ends at that point.  Neither the segmentation nor the pauses may show in the result or in what follows."""
    for bi in range(8 if tier == "quick" else 60):
        rng = random.Random(f"{seed}-timed-{bi}")
        base = gen_base(rng, tier)
        cmds = [c for c in base.outputs if base.outputs[c]]
        if not cmds or base.echo_junk or base.rough:
            continue
        c1, c2 = rng.choice(cmds), rng.choice(cmds)
        base.ops = [("send_and_read", c1, ["NEVER-SEEN-TEXT"], rng.random() < 0.7), ("send_command", c2, True, False)]
        base.questions, base.commandeer, base.banner = {}, False, b""
        kind = ["ansi", "ansi+cr", "ansi", None][bi % 4]
        base.decor = {"kind": kind, "seed": rng.randrange(10**6), "p": rng.choice([0.15, 0.3, 0.5])} if kind else None
        ref = copy.deepcopy(base)
        ref.decor = None
        rres = run_real(ref)
        ck.case(("timed-ref", json.dumps(ref.describe(), sort_keys=True, default=str)), nontrivial=False, tags=("reference", "timed"))
        probs = c01.oracle(ref, rres)
        if probs:
            ck.violation({"base": ref.describe(), "problems": probs[:3], "tag": "timed-ref"}, "reference run (send_and_read) itself violates framing: " + probs[0])
            continue
        bres = run_real(base)
        # the part of the output stream that the timed loop reads: the response to the return that follows the input of the first op
        wi = next((i for i, w in enumerate(bres.writes) if i >= bres.writes_before[0] and w == c1.encode()), None)
        if wi is None or wi + 1 >= len(bres.dev_outputs):
            continue
        start = len(bres.init_avail) + sum(len(x) for x in bres.dev_outputs[:wi + 1])
        # the line may go quiet anywhere BEFORE the prompt line has begun to arrive (a pause later than that could fall after the
        # operation has returned, into a read of the next operation, where a transport timeout is an error by design)
        end = start + bres.dev_outputs[wi + 1].rfind(b"\n") + 2
        inner = list(range(start + 1, end))
        if not inner:
            continue
        inside = [k for k in inner if bres.decorator and bres.decorator.inside_span(k)]
        picks = set(rng.sample(inner, min(len(inner), 6 if tier == "quick" else 40)))
        picks |= set(rng.sample(inside, min(len(inside), 10 if tier == "quick" else 80)))
        vs = []
        for k in sorted(picks):
            v = copy.deepcopy(base)
            v.cut_at, v.pauses = [k], [k]
            vs.append((f"pause@{k}", v))
        for _ in range(2 if tier == "quick" else 8):
            v = copy.deepcopy(base)
            v.cuts = [rng.choice([1, 1, 2, 3, 5, 8]) for _ in range(20000)]
            v.pauses = sorted(rng.sample(inner, min(len(inner), rng.randint(1, 5))))
            vs.append(("pauses+rand", v))
        for tag, v in vs:
            vres = run_real(v)
            fired = sum(1 for x in vres.conn.transport.trace if x[0] == "pause")
            ck.case(("timed", bi, tag, str(v.pauses), str(v.cuts[:30])), nontrivial=fired > 0,
                    tags=("timed", tag.split("@")[0], "pause-inside-sequence" if any(k in inside for k in v.pauses) else "pause-in-text", base.platform, base.stack))
            compare(ck, ref, rres, "timed-" + tag, v, vres, modelq)


def timed_model_family(ck, tier, seed, modelq):
    """model-vs-code only (no oracle): `send_and_read` as the LAST operation with every kind of expected output -- none at all (the
    compiled pattern is then the empty one and the loop ends with its first iteration: `timed_no_outputs_first_read`), one that
    occurs in the response (the loop ends at the first read boundary behind it), one that never occurs, several -- under random
    segmentations and quiet intervals.  What the call returns then legitimately depends on the segmentation; the Lean
    `sendInputAndRead` must return the same raw/processed result and leave the same bytes unread and held back."""
    n = 0
    for bi in range(10 if tier == "quick" else 120):
        rng = random.Random(f"{seed}-timedmodel-{bi}")
        base = gen_base(rng, tier)
        cmds = [c for c in base.outputs if base.outputs[c]]
        if not cmds or base.echo_junk or base.rough:
            continue
        c1 = rng.choice(cmds)
        out = base.outputs[c1]
        words = [w for w in re.findall(r"[A-Za-z0-9]{2,}", out)]
        seen = rng.choice(words) if words else None
        kinds = [[], ["NEVER-SEEN-TEXT"], ["NEVER-SEEN-TEXT", "other never"]]
        if seen:
            kinds += [[seen], [seen.swapcase()], ["NEVER-SEEN-TEXT", seen]]
        # a literal piece of the output with whatever characters it has: as a regex (`_join_and_compile`) it may mean something else
        # than as a literal (`channel_output in search_buf`) -- both tests are in the loop and in the model
        metas = [m.start() for m in re.finditer(r"[.+*?|$^]", out)]
        if metas:
            i = max(0, rng.choice(metas) - rng.randint(0, 3))
            piece = out[i:i + rng.randint(2, 8)].split("\n")[0]
            try:
                re.compile(("(" + piece + ")").encode())
                if piece.strip():
                    kinds += [[piece], [piece]]
                    seen = seen or piece
            except re.error:
                pass
        outs = kinds[bi % len(kinds)]
        base.ops = [("send_command", rng.choice(cmds), True, False), ("send_and_read", c1, outs, rng.random() < 0.5)]
        base.questions, base.commandeer, base.banner = {}, False, b""
        kind = [None, "ansi", "ansi+cr"][bi % 3]
        base.decor = {"kind": kind, "seed": rng.randrange(10**6), "p": rng.choice([0.15, 0.3])} if kind else None
        for vi in range(3 if tier == "quick" else 6):
            v = copy.deepcopy(base)
            v.cuts = [rng.choice([1, 2, 3, 5, 8, 13, 40]) for _ in range(20000)] if vi else []
            vres0 = run_real(copy.deepcopy(v)) if vi else None
            if vi and vres0 is not None:
                total = len(vres0.init_avail) + sum(len(x) for x in vres0.dev_outputs)
                lo = len(vres0.init_avail) + sum(len(x) for x in vres0.dev_outputs[:-1])
                inner = list(range(lo + 1, total))
                v.pauses = sorted(rng.sample(inner, min(len(inner), rng.randint(1, 4)))) if inner and vi > 1 else None
            clock = None
            if vi and rng.random() < 0.5:
                # the duration runs out after a few iterations (the channel module's clock is replaced for this one call): the call
                # returns what it has read so far, the rest stays unread -- model: `clock = some k`
                clock = rng.choice([0, 1, 2, 3, 5, 8])
                v.ops = [*v.ops[:-1], (*v.ops[-1][:4], clock)]
            vres = run_real(v)
            if vres.error or vres.stalled:
                continue          # a pause that fell outside the timed loop (a transport timeout there is an error by design)
            req = model_request(v, vres)
            if clock is not None:
                ck.extra["timed_model_cases_with_clock"] = ck.extra.get("timed_model_cases_with_clock", 0) + 1
            ck.case(("timed-model", bi, vi, str(outs), clock), nontrivial=True,
                    tags=("timed-model", "outs=none" if not outs else ("outs=seen" if seen and seen.lower() in " ".join(outs).lower() else "outs=never"),
                          "pauses" if v.pauses else "no-pauses"))
            if req is not None:
                modelq.append((req, real_reply(vres), v.describe()))
                n += 1
    ck.extra["timed_model_cases"] = n


def ansi_differential(ck, tier):
    """the cleaning function of one read (`Channel.read` after the transport read: CR removal, hold-back, strip) on the real class
    vs the Lean `chanReadH`, chained over random chunkings of ESC-rich random streams AND of well-formed decorated text.
    Also the stream-level fact the theorem states: for well-formed streams every chunking returns the plain text."""
    import types
    from scrapli.channel.base_channel import BaseChannel
    rng = random.Random(f"{ck.seed}-ansi")
    alpha = [b"\x1b", b"\x1b", b"\x1b[", b"\x1b]", b"\x9b", b"\x9d", b"[", b"]", b"0", b"1", b"3", b";", b"m", b"K", b"\x07", b"\n", b" ", b"\t", b"a", b"Z", b"7", b"8", b"M", b"E", b"?", b"\r", b"h", b"~"]
    n = 150 if tier == "quick" else 3000
    reqs, wants, metas = [], [], []

    def fresh():
        o = types.SimpleNamespace(_ansi_held=b"")
        o._strip_ansi = BaseChannel._strip_ansi
        fn = getattr(BaseChannel, "_strip_ansi_read", None)
        if fn is None:      # code before the fix: per-read stripping
            return lambda chunk: (BaseChannel._strip_ansi(chunk) if b"\x1b" in chunk else chunk, b"")
        return lambda chunk: (fn(o, chunk), o._ansi_held)

    for i in range(n):
        if i % 2 == 0:
            stream = b"".join(rng.choice(alpha) for _ in range(rng.randint(1, 40)))
            plain = None
        else:
            parts, plain = [], b""
            for _ in range(rng.randint(1, 8)):
                if rng.random() < 0.5:
                    t = bytes(rng.choice(b"abc xyz\n#>01") for _ in range(rng.randint(0, 6)))
                    if rng.random() < 0.3:
                        # UTF-8 text with the bytes 0x9B / 0x9D followed by what used to complete an 8-bit "sequence" (fix 3f4e39f)
                        t += rng.choice(["✛Eth1", "❝Mgmt", "ě7", "魛[0m", "✛ 8"]).encode()
                    parts.append(t)
                    plain += t
                else:
                    parts.append(rng.choice(SEQS_TAME))
            stream = b"".join(parts)
        cuts, off = [], 0
        while off < len(stream):
            k = rng.choice([1, 1, 2, 3, 5, 8, 40])
            cuts.append(stream[off:off + k])
            off += k
        read = fresh()
        held, outs = b"", []
        for c in cuts:
            c2 = c.replace(b"\r", b"")
            out, nheld = read(c2)
            reqs.append(f"ansih {hexs(held)} {hexs(c)}")
            wants.append(f"{hexs(out)} {hexs(nheld)}")
            metas.append({"stream": stream.hex(), "chunk": c.hex(), "held_before": held.hex()})
            held = nheld
            outs.append(out)
        ck.case(("ansi-stream", stream.hex(), str([len(c) for c in cuts])), nontrivial=len(cuts) > 1 and b"\x1b" in stream, tags=("ansi-differential",))
        if plain is not None and (b"".join(outs) != plain.replace(b"\r", b"") or held):
            ck.violation({"stream": stream.hex(), "cuts": [len(c) for c in cuts], "returned": b"".join(outs).hex(), "held": held.hex(), "want": plain.hex(), "tag": "ansi-stream"},
                         "a well-formed decorated stream does not clean to its text under this segmentation (escape sequence cut by a read boundary)")
    try:
        outs = run_model("C01", reqs, native=True) if reqs else []
    except Exception as e:
        ck.proof_broken("model driver Drv/C01.lean (ansih)", repr(e))
        return
    for q, w, o, m in zip(reqs, wants, outs, metas):
        if o.strip() == w:
            ck.traces_validated += 1
        else:
            ck.disagree("chanReadH (Lean) vs BaseChannel._strip_ansi_read (one read)", m, f"model={o.strip()} real={w}")


SEQS_TAME = [b"\x1b[0m", b"\x1b[1;31m", b"\x1b[K", b"\x1b[2J", b"\x1b[?25h", b"\x1b7", b"\x1b8", b"\x1bM", b"\x1bE", b"\x1b]0;r1 title\x07", b"\x1b[1C",
             b"\x1b[38;5;196m", b"\x1b]2;x\x07", b"\x1b[" + b"1;" * 100 + b"m"]


def _cut_inside(vres):
    off = 0
    for r in vres.reads[:-1]:
        off += len(r)
        if vres.decorator.inside_span(off):
            return True
    return False


def replay(path):
    r = json.load(open(path))
    c = r.get("violation", {}).get("case", {})
    if c.get("tag") == "authenticate":
        from props import c09
        try:
            import gen.c09 as G9
            divisor = G9.return_divisor()
        except Exception:
            divisor = 10
        lc = c["login_case"]
        rr, rv = c09.run_cases([c09.with_cuts(lc, ["all"]), lc], divisor)
        o = lambda x: (x["outcome"], b"".join(w for _, w in x["writes"]), x["accepted"], x["closed"])
        print("reference:", o(rr), "\nvariant:  ", o(rv))
        return 0 if o(rr) == o(rv) else 1
    if "base" not in c:
        print("replay file carries no scenario")
        return 1
    b, v = Scenario.from_dict(c["base"]), Scenario.from_dict(c["variant"])
    ob, ov = observables(b, run_real(b)), observables(v, run_real(v))
    for k in ob:
        if ob[k] != ov[k]:
            print(k, "\n  reference:", str(ob[k])[:400], "\n  variant:  ", str(ov[k])[:400])
    return 0 if ob == ov else 1
