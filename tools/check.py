#!/usr/bin/env python3
"""usage: check.py Cxx [--tier quick|thorough] [--replay path]
exit 0: property held on everything explored; exit 1 + VIOLATION line; exit 2: harness failure/timeouts."""
import argparse, importlib, os, sys, traceback
from pathlib import Path

sys.path.insert(0, str(Path(__file__).resolve().parent))


def main():
    ap = argparse.ArgumentParser()
    ap.add_argument("pid")
    ap.add_argument("--tier", default=os.environ.get("VERIF_TIER", "quick"))
    ap.add_argument("--replay", default=None)
    a = ap.parse_args()
    seed = int(os.environ.get("VERIF_SEED", "0") or 0)
    tier = a.tier if a.tier in ("quick", "thorough") else "quick"
    from vlib import common
    common.use_repo()
    # every temporary file of this run (and of its subprocesses) lives in one directory that is removed at exit
    import shutil, tempfile
    run_tmp = tempfile.mkdtemp(prefix=f"verif-{a.pid}-")
    os.environ["TMPDIR"] = run_tmp
    tempfile.tempdir = run_tmp
    mod = importlib.import_module(f"props.{a.pid.lower()}")
    try:
        with common.RepoLock(a.pid):
            if a.replay:
                rc = mod.replay(a.replay)
            else:
                rc = mod.run(tier, seed)
    except common.ModelError as e:
        print(f"HARNESS-ERROR {a.pid}: {e}", file=sys.stderr)
        rc = 2
    except Exception:
        traceback.print_exc()
        rc = 2
    finally:
        shutil.rmtree(run_tmp, ignore_errors=True)
    sys.exit(rc)


if __name__ == "__main__":
    main()
