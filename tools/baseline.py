#!/usr/bin/env python3
"""Run the pinned baseline suite (guard off) and compare with /root/.vp/BASELINE.json stable_pass.

usage: baseline.py [repo_dir]     exit 0 iff every stable_pass test still passes
"""
import json, os, subprocess, sys, tempfile
import xml.etree.ElementTree as ET

repo = sys.argv[1] if len(sys.argv) > 1 else "/repo"
base = json.load(open("/root/.vp/BASELINE.json"))
out = tempfile.mktemp(suffix=".junit.xml")
env = dict(os.environ)
env.pop("SCRAPLI_VERIF", None)
cmd = ["/venv/bin/python", "-m", "pytest", "-ra", "-q", "-p", "no:cacheprovider", "--timeout=900",
       "--continue-on-collection-errors", f"--junitxml={out}"]
if repo != "/repo":
    env["PYTHONPATH"] = repo
import fcntl
# the integration tests start a mock ssh server on a fixed port: serialise concurrent baseline runs
with open("/tmp/scrapli-baseline.lock", "w") as _lk:
    fcntl.flock(_lk, fcntl.LOCK_EX)
    subprocess.run(cmd, cwd=repo, env=env, stdout=subprocess.DEVNULL, stderr=subprocess.DEVNULL)
passed = set()
for tc in ET.parse(out).getroot().iter("testcase"):
    if not any(ch.tag in ("failure", "error", "skipped") for ch in tc):
        passed.add(f"{tc.get('classname')}::{tc.get('name')}")
os.unlink(out)
missing = [t for t in base["stable_pass"] if t not in passed]
print(f"stable_pass={len(base['stable_pass'])} passed_now={len(passed)} missing={len(missing)}")
for m in missing[:40]:
    print("  MISSING", m)
sys.exit(1 if missing else 0)
