#!/usr/bin/env python3
"""writes MANIFEST.json from the table below (kept here so the file is always schema-valid)"""
import json, sys
from pathlib import Path
V = Path(__file__).resolve().parents[1]
PY = "/venv/bin/python"

TB = ("Lean 4.33.0 kernel; axioms per theorem audited each run (#print axioms ⊆ propext, Classical.choice, Quot.sound); "
      "no sorry/admit/native_decide/own axioms; tools/translate.py (data copied from source); the correspondence harness.")

CHECKS = {}
READY = set((V / "tools" / "manifest" / "READY").read_text().split())     # accepted by the lead after running on clean /repo
for _f in sorted((V / "tools" / "manifest").glob("C*.json")):
    if _f.stem not in READY:
        continue
    _d = json.load(open(_f))
    _d["note"] = TB + " " + _d.get("note", "")
    CHECKS[_f.stem] = _d

REASON_WIP = "check not built yet in this revision (see DESIGN.md §9 build order); no claim is made"
ALL = [f"C{i:02d}" for i in range(1, 21)]

def main():
    checks = []
    for pid in ALL:
        c = CHECKS.get(pid)
        if not c:
            continue
        checks.append({
            "property_id": pid,
            "quick_cmd": f"{PY} tools/check.py {pid} --tier quick",
            "thorough_cmd": f"{PY} tools/check.py {pid} --tier thorough",
            "evidence_file": f"/verif/evidence/{pid}.json",
            "replay_cmd_template": f"{PY} tools/check.py {pid} --replay {{path}}",
            "engine": "lean4-model+correspondence",
            "level_claimed": {"category": c.get("category", "proof"), "text": c["text"], "design_ref": c["design"]},
            "level_note": c["note"],
            "technique": c["technique"],
        })
    m = {
        "version": 1,
        "setup_cmd": "python3 tools/setup.py",
        "hooks": {"guard": "SCRAPLI_VERIF", "enable": "no source hooks: harness objects are injected from outside (attribute assignment, sys.modules); checks set SCRAPLI_VERIF=1 for form only",
                  "baseline_off_cmd": "cd /repo && /venv/bin/python -m pytest -ra -q -p no:cacheprovider --timeout=900 --continue-on-collection-errors",
                  "source_commits": [], "add_only": True},
        "engines": [{"name": "lean4-model+correspondence", "path": "lean/ tools/", "serves_properties": sorted(CHECKS),
                     "kind_free_text": "Lean 4 models + theorems (lake), translator from /repo source, differential correspondence harness against the real scrapli objects"}],
        "checks": checks,
        "not_applicable": [{"property_id": p, "reason": NA.get(p, REASON_WIP)} for p in ALL if p not in CHECKS],
        "notes": "fix commits in /repo: see known_findings.json (status=fixed).",
    }
    (V / "MANIFEST.json").write_text(json.dumps(m, indent=1) + "\n")

NA = json.load(open(V / "tools" / "manifest" / "not_applicable.json"))
if __name__ == "__main__":
    main()
