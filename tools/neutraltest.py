#!/usr/bin/env python3
"""Evaluate a behaviour-preserving change (a refactor under which every property still holds):
usage neutraltest.py <patch.diff> <id e.g. N1-2> [--checks C01,C02] [--baseline] [--jobs 5]
Applies the patch in a scratch worktree of /repo HEAD (never in /repo), optionally runs the pinned baseline there, runs the quick
tier of every registered check (or the named ones) with SCRAPLI_REPO=<worktree> and records the outcome in /verif/neutral/<id>/meta.json.
Any rc != 0 here is a false alarm of the machinery (or evidence that the change was not neutral after all)."""
import json, shutil, subprocess, sys, time
from concurrent.futures import ThreadPoolExecutor
from pathlib import Path
V = Path(__file__).resolve().parents[1]
patch, nid = Path(sys.argv[1]), sys.argv[2]
args = sys.argv[3:]
checks = [l.strip() for l in open(V / "tools/manifest/READY") if l.strip()]
jobs = 5
for i, a in enumerate(args):
    if a == "--checks":
        checks = args[i + 1].split(",")
    if a == "--jobs":
        jobs = int(args[i + 1])
wt = Path(f"/tmp/wt-neutral-{nid}")
def sh(cmd, **kw):
    return subprocess.run(cmd, shell=True, capture_output=True, text=True, **kw)
sh(f"git -C /repo worktree remove --force {wt}")
r = sh(f"git -C /repo worktree add --detach {wt} HEAD")
assert wt.exists(), r.stderr
out = V / "neutral" / nid
out.mkdir(parents=True, exist_ok=True)
if patch.resolve() != (out / "patch.diff").resolve():
    shutil.copy(patch, out / "patch.diff")
desc = patch.parent / "meta.json"
meta = json.load(open(desc)) if desc.exists() and desc.resolve() != (out / "meta.json").resolve() else (
    json.load(open(out / "meta.json")) if (out / "meta.json").exists() else {})
res = {"repo_head": sh("git -C /repo rev-parse --short HEAD").stdout.strip()}
ap = sh(f"cd {wt} && git apply {out/'patch.diff'}")
res["patch_applies"] = ap.returncode == 0
res["files"] = sh(f"git -C {wt} diff --stat").stdout.strip().splitlines()[-1:] if ap.returncode == 0 else [ap.stderr[-300:]]
if "--baseline" in args and ap.returncode == 0:
    b = sh(f"/venv/bin/python {V/'tools'/'baseline.py'} {wt}")
    res["baseline_patched"] = b.stdout.strip().splitlines()[0] if b.stdout else b.stderr[-200:]
# properties that share generated files run one after the other
groups = {"C01": 0, "C02": 0, "C03": 1, "C04": 1}
buckets = {}
for c in checks:
    buckets.setdefault(groups.get(c, c), []).append(c)
def run_bucket(cs):
    o = {}
    for c in cs:
        t0 = time.time()
        p = sh(f"cd {V} && SCRAPLI_REPO={wt} timeout 3000 /venv/bin/python tools/check.py {c} --tier quick")
        lines = [l for l in p.stdout.splitlines() if l.startswith("VIOLATION")]
        rep = None
        if lines and "replay=" in lines[0]:
            rp = lines[0].split("replay=")[1].split()[0]
            try:
                rep = json.load(open(rp))
                shutil.copy(rp, out / f"replay-{c}.json")
            except Exception:
                pass
        o[c] = {"rc": p.returncode, "violation_line": lines[0] if lines else None, "wall_s": round(time.time() - t0, 1),
                "replay_kind": (rep or {}).get("kind"), "what": str(((rep or {}).get("violation") or {}).get("what", ""))[:400],
                "tail": (p.stdout[-400:] + p.stderr[-400:]) if p.returncode != 0 else ""}
    return o
res["checks"] = {}
if ap.returncode == 0:
    with ThreadPoolExecutor(jobs) as ex:
        for o in ex.map(run_bucket, buckets.values()):
            res["checks"].update(o)
sh(f"git -C /repo worktree remove --force {wt}")
meta["lead_evaluation"] = res
meta["alarms"] = sorted(c for c, v in res["checks"].items() if v["rc"] != 0)
json.dump(meta, open(out / "meta.json", "w"), indent=1)
print(nid, "applies:", res["patch_applies"], res["files"], "| baseline:", res.get("baseline_patched", "-"), "| alarms:", meta["alarms"])
for c in meta["alarms"]:
    v = res["checks"][c]
    print("  ", c, "rc", v["rc"], v["replay_kind"], (v["violation_line"] or "")[-70:], v["what"][:200], v["tail"][-200:] if v["rc"] not in (0, 1) else "")
