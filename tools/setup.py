#!/usr/bin/env python3
"""MANIFEST.setup_cmd: build, offline, what the registered checks need: the Lean libraries of every
claimed property (lake builds each ScrapliProps.Cxx with its dependencies) and the native model drivers."""
import json, re, subprocess, sys
from pathlib import Path
V = Path(__file__).resolve().parents[1]
L = V / "lean"
subprocess.run([sys.executable, str(V / "tools" / "mkroots.py")], check=True)
m = json.load(open(V / "MANIFEST.json"))
targets = []
for c in m["checks"]:
    pid = c["property_id"]
    if (L / "ScrapliProps" / f"{pid}.lean").exists():
        targets.append(f"ScrapliProps.{pid}")
exes = re.findall(r'^name = "(drv_[a-z0-9_]+)"', (L / "lakefile.toml").read_text(), flags=re.M)
claimed = {c["property_id"].lower() for c in m["checks"]}
targets += [e for e in exes if any(e.endswith(p) or p in e for p in claimed)]
print("building:", " ".join(targets), flush=True)
rc = subprocess.run(["lake", "build", *targets], cwd=L).returncode
if rc != 0:
    # one broken module must not keep the others from being built: build each target on its own and report;
    # the check of a property whose module does not build reports that itself (proof obligation broken)
    failed = [t for t in targets if subprocess.run(["lake", "build", t], cwd=L, capture_output=True).returncode != 0]
    print("setup: targets that do not build:", failed, flush=True)
    rc = 0 if len(failed) < len(targets) else 1
sys.exit(rc)
