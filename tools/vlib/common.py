"""Shared machinery for every check: paths, Lean build + axiom audit, model driver I/O,
case bookkeeping, known findings, replay files, evidence."""
import fcntl, hashlib, json, os, random, re, subprocess, sys, time
from collections import Counter
from pathlib import Path

VERIF = Path(__file__).resolve().parents[2]
LEAN = VERIF / "lean"
REPO = Path(os.environ.get("SCRAPLI_REPO", "/repo"))
GUARD = "SCRAPLI_VERIF"
ALLOWED_AXIOMS = {"propext", "Classical.choice", "Quot.sound"}
FORBIDDEN = re.compile(r"\b(sorry|admit|native_decide|bv_decide|implemented_by|unsafe)\b|maxHeartbeats\s+0|^\s*axiom\s", re.M)


def use_repo():
    """make `import scrapli` resolve to REPO's working tree"""
    p = str(REPO)
    if p in sys.path:
        sys.path.remove(p)
    sys.path.insert(0, p)
    os.environ[GUARD] = "1"
    import scrapli  # noqa
    got = Path(scrapli.__file__).resolve().parents[1]
    if got != REPO.resolve():
        raise RuntimeError(f"scrapli imported from {got}, expected {REPO}")


def hexs(b: bytes) -> str:
    return b.hex() if b else "-"


def hexl(l) -> str:
    return ",".join(hexs(x) for x in l) if l else "."


def unhex(s: str) -> bytes:
    return b"" if s == "-" else bytes.fromhex(s)


def unhexl(s: str):
    return [] if s == "." else [unhex(x) for x in s.split(",")]


def strip_lean_comments(src: str) -> str:
    src = re.sub(r"/-.*?-/", "", src, flags=re.S)
    src = re.sub(r"--.*", "", src)
    return src


class BuildLock:
    def __enter__(self):
        self.f = open(LEAN / ".build.lock", "w")
        fcntl.flock(self.f, fcntl.LOCK_EX)
        return self

    def __exit__(self, *a):
        fcntl.flock(self.f, fcntl.LOCK_UN)
        self.f.close()


class RepoLock:
    """Generated Lean files are a function of the checkout under test.  Runs against the SAME checkout may overlap
    (shared lock); a run against a different checkout (SCRAPLI_REPO) waits until the others are done (exclusive to
    switch).  Held for the whole check run."""

    GROUPS = {"C01": "chan", "C02": "chan", "C12": "chan", "C09": "chan", "C03": "priv", "C04": "priv", "C11": "telnet", "C15": "telnet"}   # C09 imports ScrapliProps.C02 (round 2)

    def __init__(self, pid="all"):
        # properties that share generated modules share a lock; the others do not wait for each other
        self.group = self.GROUPS.get(pid, pid)

    def __enter__(self):
        path = LEAN / f".repo-{self.group}.lock"
        me = str(REPO.resolve())
        while True:
            self.f = open(path, "a+")
            fcntl.flock(self.f, fcntl.LOCK_SH)
            self.f.seek(0)
            if self.f.read().strip() == me:
                return self
            fcntl.flock(self.f, fcntl.LOCK_UN)
            fcntl.flock(self.f, fcntl.LOCK_EX)
            self.f.seek(0)
            self.f.truncate()
            self.f.write(me)
            self.f.flush()
            fcntl.flock(self.f, fcntl.LOCK_UN)
            self.f.close()

    def __exit__(self, *a):
        fcntl.flock(self.f, fcntl.LOCK_UN)
        self.f.close()


def write_if_changed(path: Path, content: str) -> bool:
    path.parent.mkdir(parents=True, exist_ok=True)
    if path.exists() and path.read_text() == content:
        return False
    tmp = path.with_suffix(path.suffix + ".tmp")
    tmp.write_text(content)
    os.replace(tmp, path)
    return True


def prune_stale_build_outputs():
    """remove compiled files of modules whose source no longer exists (generated modules -- certificates, per-obligation modules -- come
    and go with the code under check; `leanchecker <prefix>` scans the build directory and would replay a left-over .olean of an earlier
    generation against today's dependencies).  Call with the build lock held."""
    removed = 0
    for sub in ("lib/lean", "ir"):
        root = LEAN / ".lake" / "build" / sub
        if not root.is_dir():
            continue
        for f in root.rglob("*"):
            if not f.is_file():
                continue
            rel = f.relative_to(root)
            stem = rel.name.split(".")[0]
            src = LEAN / rel.parent / (stem + ".lean")
            if rel.parts[0] in ("ScrapliModel", "ScrapliProps", "Drv", "Audit") and not src.exists():
                try:
                    f.unlink()
                    removed += 1
                except OSError:
                    pass
    return removed


def lake_build(targets, timeout=3000):
    """returns (ok, output)"""
    with BuildLock():
        prune_stale_build_outputs()
        p = subprocess.run(["lake", "build", *targets], cwd=LEAN, capture_output=True, text=True, timeout=timeout)
    return p.returncode == 0, (p.stdout + p.stderr)


def theorem_names(lean_file: Path):
    """fully qualified names of every `theorem` in a Lean file (namespace tracking by lines)"""
    src = strip_lean_comments(lean_file.read_text())
    ns, out = [], []
    for line in src.splitlines():
        m = re.match(r"\s*namespace\s+(\S+)", line)
        if m:
            ns.append(m.group(1)); continue
        m = re.match(r"\s*end\s+(\S+)\s*$", line)
        if m and ns and ns[-1] == m.group(1):
            ns.pop(); continue
        m = re.match(r"\s*(?:@\[[^\]]*\]\s*)?(?:private\s+|protected\s+)?theorem\s+(\S+)", line)
        if m:
            out.append(".".join(ns + [m.group(1)]))
    return out


def audit_axioms(module: str, lean_file: Path, extra_files=()):
    """#print axioms on every theorem of lean_file; returns dict name -> list of axioms (or None if failed)"""
    names = theorem_names(lean_file)
    audit = LEAN / "Audit" / (module.split(".")[-1] + ".lean")
    body = f"import {module}\n" + "".join(f"#print axioms {n}\n" for n in names)
    write_if_changed(audit, body)
    p = subprocess.run(["lake", "env", "lean", str(audit.relative_to(LEAN))], cwd=LEAN, capture_output=True, text=True, timeout=1200)
    out = p.stdout + p.stderr
    res = {n: None for n in names}
    for m in re.finditer(r"^'(\S+)' depends on axioms: \[([^\]]*)\]", out, flags=re.S | re.M):
        res[m.group(1)] = [a.strip() for a in m.group(2).replace("\n", " ").split(",") if a.strip()]
    for m in re.finditer(r"^'(\S+)' does not depend on any axioms", out, flags=re.M):
        res[m.group(1)] = []
    return res, out


def forbidden_tokens(files):
    hits = []
    for f in files:
        src = strip_lean_comments(Path(f).read_text())
        for m in FORBIDDEN.finditer(src):
            hits.append(f"{Path(f).name}: {m.group(0).strip()}")
    return hits


def run_model(driver: str, lines, timeout=3000, native=False):
    """pipe request lines through the Lean model driver.  Interpreted: `lake env lean --run Drv/X.lean`;
    native=True: the compiled `lean_exe` target drv_<x> of the lakefile (same definitions, 10-100x faster)"""
    inp = "\n".join(lines) + "\n"
    if native:
        exe = f"drv_{driver.lower()}"
        ok, out = lake_build([exe])
        if not ok:
            raise ModelError(f"cannot build {exe}: {out[-2000:]}")
        cmd = [str(LEAN / ".lake" / "build" / "bin" / exe)]
    else:
        cmd = ["lake", "env", "lean", "--run", f"Drv/{driver}.lean"]
    p = subprocess.run(cmd, cwd=LEAN, input=inp,
                       capture_output=True, text=True, timeout=timeout)
    out = p.stdout.splitlines()
    if p.returncode != 0 or len(out) != len(lines):
        raise ModelError(f"model driver {driver}: rc={p.returncode} got {len(out)} lines for {len(lines)} requests\n{p.stderr[-2000:]}")
    return out


class ModelError(Exception):
    pass


def load_findings(pid):
    f = VERIF / "known_findings.json"
    if not f.exists():
        return []
    return [x for x in json.load(open(f))["findings"] if x["property"] == pid]


class Check:
    """Bookkeeping for one run of one property check."""

    def __init__(self, pid, tier, seed, level="proof"):
        self.pid, self.tier, self.seed, self.level = pid, tier, seed, level
        self.rng = random.Random(seed)
        self.t0 = time.time()
        self.evaluations = 0
        self.nontrivial = set()
        self.samples = []
        self.dist = Counter()
        self.violations = []        # new oracle violations: dict(case=..., what=...)
        self.known_hits = Counter()  # finding id -> number of generated cases matching it
        self.broken = []            # (kind, name, detail): proof obligations / correspondences that no longer check
        self.obligations = 0
        self.discharged = 0
        self.traces_validated = 0
        self.disagreements = 0
        self.trusted = []
        self.assumptions = []
        self.extra = {}
        self.rule = ""
        self.checker_cmd = ""
        self.exhaustive = False
        self.findings = load_findings(pid)
        self.known_lines = []
        self.notes = []

    # ---- case bookkeeping
    def case(self, key, nontrivial=True, sample=None, tags=()):
        self.evaluations += 1
        if nontrivial:
            self.nontrivial.add(hashlib.blake2b(repr(key).encode(), digest_size=8).digest())
        for t in tags:
            self.dist[t] += 1
        if sample is not None and len(self.samples) < 6 and (self.evaluations % 97 == 1 or len(self.samples) < 2):
            self.samples.append(sample)

    def violation(self, case, what, matcher=None):
        """an oracle violation on the real code; matcher(case) -> finding id or None"""
        fid = matcher(case) if matcher else None
        if fid is not None and any(f["id"] == fid and f.get("status") == "open" for f in self.findings):
            self.known_hits[fid] += 1
            return False
        if len(self.violations) < 50:
            self.violations.append({"what": what, "case": case})
        return True

    def disagree(self, name, case, detail=""):
        self.disagreements += 1
        if len([b for b in self.broken if b[0] == "correspondence" and b[1] == name]) < 5:
            self.broken.append(("correspondence", name, {"case": case, "detail": detail}))

    def proof_broken(self, name, detail):
        self.broken.append(("proof", name, {"detail": detail[-3000:] if isinstance(detail, str) else detail}))

    # ---- Lean side
    def prove(self, module, extra_modules=(), lemma_files=()):
        """build the property module, audit axioms of every theorem in it"""
        mods = [module, *extra_modules]
        self.checker_cmd = f"cd lean && lake build {' '.join(mods)} && lake env lean Audit/{module.split('.')[-1]}.lean  (#print axioms on every theorem)"
        lean_file = LEAN / (module.replace(".", "/") + ".lean")
        try:
            names = theorem_names(lean_file)
        except FileNotFoundError:
            names = []
        self.obligations += max(len(names), 1)
        try:
            ok, out = lake_build(mods)
        except subprocess.TimeoutExpired:
            ok, out = False, "lake build timed out"
        if not ok:
            errs = "\n".join(l for l in out.splitlines() if "error" in l.lower())[:3000]
            self.proof_broken(f"lake build {' '.join(mods)}", errs or out[-3000:])
            return False
        files = [lean_file, *[LEAN / f for f in lemma_files]]
        bad = forbidden_tokens([f for f in files if f.exists()])
        if bad:
            self.proof_broken("forbidden tokens", "; ".join(bad))
            return False
        res, out = audit_axioms(module, lean_file)
        okc = 0
        for n, ax in res.items():
            if ax is None:
                self.proof_broken(f"theorem {n}", "#print axioms produced no result: " + out[-500:])
            elif not set(ax) <= ALLOWED_AXIOMS:
                self.proof_broken(f"theorem {n}", f"depends on axioms {ax}")
            else:
                okc += 1
        self.discharged += okc
        self.extra.setdefault("theorems", []).extend(sorted(res))
        return okc == len(res) and okc > 0

    def leanchecker(self, module):
        with BuildLock():
            # no build (and no regeneration of a module by another run) while the compiled files are re-checked
            prune_stale_build_outputs()
            p = subprocess.run(["lake", "env", "leanchecker", module], cwd=LEAN, capture_output=True, text=True, timeout=3000)
        self.extra["leanchecker"] = {"module": module, "rc": p.returncode}
        if p.returncode != 0:
            self.proof_broken(f"leanchecker {module}", (p.stdout + p.stderr)[-2000:])

    # ---- finishing
    def known_finding(self, fid, what):
        self.known_lines.append(f"KNOWN-FINDING: property={self.pid} {fid}: {what}")

    def finish(self):
        rc = 0
        replay_dir = VERIF / "replays"
        replay_dir.mkdir(exist_ok=True)
        for line in self.known_lines:
            print(line)
        if self.violations:
            v = self.violations[0]
            h = hashlib.blake2b(json.dumps(v, sort_keys=True, default=str).encode(), digest_size=6).hexdigest()
            path = replay_dir / f"{self.pid}-{h}.json"
            path.write_text(json.dumps({"property": self.pid, "kind": "failing-input", "seed": self.seed,
                                        "violation": v, "more": self.violations[1:10],
                                        "broken": [list(b) for b in self.broken[:5]]}, indent=1, default=str))
            print(f"VIOLATION property={self.pid} replay={path}")
            rc = 1
        elif self.broken:
            h = hashlib.blake2b(json.dumps(self.broken, sort_keys=True, default=str).encode(), digest_size=6).hexdigest()
            path = replay_dir / f"{self.pid}-broken-{h}.json"
            path.write_text(json.dumps({"property": self.pid, "kind": "no-failing-input-found", "seed": self.seed,
                                        "no_longer_checks": [{"kind": k, "name": n, **d} for k, n, d in self.broken[:10]]},
                                       indent=1, default=str))
            print(f"VIOLATION property={self.pid} replay={path} no-failing-input-found")
            rc = 1
        self.write_evidence(rc)
        return rc

    def write_evidence(self, rc):
        cov = {
            "obligations": self.obligations,
            "discharged": self.discharged,
            "checker_cmd": self.checker_cmd or "n/a",
            "trusted_base": self.trusted,
            "evaluations": self.evaluations,
            "distinct_nontrivial": len(self.nontrivial),
            "rule": self.rule,
            "samples": self.samples[:6] or ["(no generated case)"],
            "traces_validated_against_impl": self.traces_validated,
            "disagreements_checked": self.disagreements,
            "programs": self.extra.get("programs", self.traces_validated),
            "exhaustive": self.exhaustive,
            "distribution": dict(self.dist.most_common(60)),
            "known_finding_hits": dict(self.known_hits),
            "broken": [f"{k}: {n}" for k, n, _ in self.broken[:10]],
            "explanation": "; ".join(self.notes) if self.notes else f"{self.level}: Lean theorems re-checked and model tied to /repo by translator + correspondence",
        }
        for k, v in self.extra.items():
            if k not in cov:
                cov[k] = v
        ev = {
            "property_id": self.pid,
            "tier": self.tier,
            "seed": self.seed,
            "level": self.level,
            "coverage": cov,
            "assumptions": self.assumptions,
            "wall_s": round(time.time() - self.t0, 2),
            "violations": len(self.violations) + (1 if (self.broken and not self.violations) else 0),
        }
        # evidence describes runs against /repo itself; runs against another checkout (SCRAPLI_REPO, used to evaluate
        # seeded changes) must not overwrite it
        d = VERIF / "evidence" if REPO.resolve() == Path("/repo") else Path("/tmp/verif-evidence-other-repo")
        d.mkdir(exist_ok=True)
        tmp = d / f"{self.pid}.json.tmp"
        tmp.write_text(json.dumps(ev, indent=1, default=str))
        os.replace(tmp, d / f"{self.pid}.json")
