#!/usr/bin/env python3
"""regenerates lean/ScrapliModel.lean and lean/ScrapliProps.lean (library roots) from the files present"""
from pathlib import Path
L = Path(__file__).resolve().parents[1] / "lean"
for lib in ("ScrapliModel", "ScrapliProps"):
    mods = sorted(".".join(p.relative_to(L).with_suffix("").parts) for p in (L / lib).rglob("*.lean"))
    body = "".join(f"import {m}\n" for m in mods)
    f = L / f"{lib}.lean"
    if not f.exists() or f.read_text() != body:
        f.write_text(body)
