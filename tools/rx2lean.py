"""Python bytes regex -> wire form of the Lean `Rx` term (ScrapliModel/Channel/Rx.lean).
Walks CPython's own parse tree (re._parser.parse).  Supported: literals, classes, categories
(\\w \\s \\d and negations, bytes/ASCII semantics), `.`, greedy/lazy bounded repeats, groups,
alternation, ^ and $ under MULTILINE, IGNORECASE (ASCII fold applied to classes).
Anything else raises RxUnsupported — never approximated."""
import re
import re._parser as P
from re._constants import (ANY, AT, AT_BEGINNING, AT_END, BRANCH, CATEGORY, CATEGORY_DIGIT, CATEGORY_NOT_DIGIT,
                           CATEGORY_NOT_SPACE, CATEGORY_NOT_WORD, CATEGORY_SPACE, CATEGORY_WORD, IN, LITERAL, MAX_REPEAT,
                           MAXREPEAT, MIN_REPEAT, NEGATE, NOT_LITERAL, RANGE, SUBPATTERN)


class RxUnsupported(Exception):
    pass


ALL = (1 << 256) - 1
WORD = sum(1 << c for c in range(256) if chr(c).isascii() and (chr(c).isalnum() or c == 95))
SPACE = sum(1 << c for c in (32, 9, 10, 13, 11, 12))
DIGIT = sum(1 << c for c in range(48, 58))
CATS = {CATEGORY_WORD: WORD, CATEGORY_NOT_WORD: ALL & ~WORD, CATEGORY_SPACE: SPACE, CATEGORY_NOT_SPACE: ALL & ~SPACE,
        CATEGORY_DIGIT: DIGIT, CATEGORY_NOT_DIGIT: ALL & ~DIGIT}


def _fold(bm):
    out = bm
    for c in range(65, 91):
        if bm >> c & 1 or bm >> (c + 32) & 1:
            out |= (1 << c) | (1 << (c + 32))
    return out


def _cls(bm, flags):
    if flags & re.I:
        bm = _fold(bm)
    return "c%x" % bm


def _seq(items):
    if not items:
        return ["e"]
    out = []
    for i, it in enumerate(items):
        if i < len(items) - 1:
            out.append("k")
        out += it
    return out


def _tr(node, flags):
    op, av = node
    if op is LITERAL:
        return [_cls(1 << av, flags)]
    if op is NOT_LITERAL:
        bm = 1 << av
        if flags & re.I:
            bm = _fold(bm)
        return ["c%x" % (ALL & ~bm)]
    if op is ANY:
        if flags & re.S:
            return ["c%x" % ALL]
        return ["c%x" % (ALL & ~(1 << 10))]
    if op is IN:
        neg, bm = False, 0
        for o, a in av:
            if o is NEGATE:
                neg = True
            elif o is LITERAL:
                bm |= 1 << a
            elif o is RANGE:
                for c in range(a[0], a[1] + 1):
                    bm |= 1 << c
            elif o is CATEGORY:
                if a not in CATS:
                    raise RxUnsupported(f"category {a}")
                bm |= CATS[a]
            else:
                raise RxUnsupported(f"class item {o}")
        if flags & re.I:
            bm = _fold(bm)
        if neg:
            bm = ALL & ~bm
        return ["c%x" % bm]
    if op is AT:
        if not flags & re.M:
            raise RxUnsupported("anchors without MULTILINE")
        if av is AT_BEGINNING:
            return ["b"]
        if av is AT_END:
            return ["z"]
        raise RxUnsupported(f"anchor {av}")
    if op in (MAX_REPEAT, MIN_REPEAT):
        lo, hi, sub = av
        mx = "i" if hi == MAXREPEAT else str(hi)
        return [f"r{lo},{mx},{'g' if op is MAX_REPEAT else 'l'}"] + _trseq(sub, flags)
    if op is SUBPATTERN:
        _g, add, dele, sub = av
        if add or dele:
            raise RxUnsupported("inline flags")
        return _trseq(sub, flags)
    if op is BRANCH:
        alts = [_trseq(a, flags) for a in av[1]]
        out = []
        for i, a in enumerate(alts):
            if i < len(alts) - 1:
                out.append("a")
            out += a
        return out
    raise RxUnsupported(f"op {op}")


def _trseq(sub, flags):
    return _seq([_tr(n, flags) for n in sub])


def rx(pattern: bytes, flags: int = 0) -> str:
    """wire form; flags = re.M | re.I | ..."""
    if isinstance(pattern, str):
        pattern = pattern.encode()
    if flags & re.X:
        raise RxUnsupported("VERBOSE")
    tree = P.parse(pattern, flags)
    return "_".join(_trseq(tree, flags))


def rx_literal(b: bytes) -> str:
    """re.compile(re.escape(b)) — a literal substring"""
    return "_".join(_seq([["c%x" % (1 << c)] for c in b]))
