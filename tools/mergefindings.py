#!/usr/bin/env python3
"""merge findings/Cxx.json (written per property) into known_findings.json (the committed interface file).
Entries already in known_findings.json that have no per-property source (the lead's own) are kept."""
import json
from pathlib import Path
V = Path(__file__).resolve().parents[1]
kf = json.load(open(V / "known_findings.json"))
own = [f for f in kf["findings"] if f.get("_src") is None]
merged = list(own)
for p in sorted((V / "findings").glob("C*.json")):
    d = json.load(open(p))
    items = d["findings"] if isinstance(d, dict) else d
    for f in items:
        f = dict(f)
        f["_src"] = p.name
        if f.get("status") == "fixed" and not str(f.get("what", "")).startswith("fixed:"):
            f["what"] = f"fixed: property={f['property']} {f.get('commit', '?')} {f['what']}"
        merged.append(f)
kf["findings"] = merged
(V / "known_findings.json").write_text(json.dumps(kf, indent=1) + "\n")
print(len(merged), "findings:", ", ".join(f"{f['property']}/{f['id']}/{f['status']}" for f in merged))
