#!/usr/bin/env python3
"""print a python source file without docstrings/blank lines, with original line numbers"""
import ast, sys
for path in sys.argv[1:]:
    src = open(path).read()
    tree = ast.parse(src)
    lines = src.split("\n")
    drop = set()
    for node in ast.walk(tree):
        if isinstance(node, (ast.FunctionDef, ast.ClassDef, ast.AsyncFunctionDef, ast.Module)):
            if node.body and isinstance(node.body[0], ast.Expr) and isinstance(getattr(node.body[0], "value", None), ast.Constant) and isinstance(node.body[0].value.value, str):
                d = node.body[0]
                drop.update(range(d.lineno - 1, d.end_lineno))
    print("#####", path)
    for i, l in enumerate(lines):
        if i in drop or not l.strip():
            continue
        print(f"{i+1}:{l}")
