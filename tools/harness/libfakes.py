"""libfakes — deterministic injection of every *boundary outcome* into every method of every REAL
scrapli transport (C08).  The library object right below scrapli's own code is replaced by a fake that
is driven by a `Link`:

  telnet       Socket.sock            -> FakeSock(socket.socket)      recv / send / send(b"") / connect / close
  asynctelnet  stdout / stdin         -> FakeReader / FakeWriter      read / at_eof / write / close ; asyncio.open_connection
  system       PtyProcess.fileobj, os.waitpid, os.kill (a REAL PtyProcess object runs on top of them)
  paramiko     _ParamikoTransport / Channel -> FakeParamiko / FakeChannel   (+ FakeSock below Socket)
  asyncssh     connect() / SSHClientConnection / SSHReader / SSHWriter fakes
  sim          tools/harness/simtransport.py with a FaultPlan (the simulated transport of the property)

A boundary call is identified by its *kind* (= the scrapli transport method whose primary library call
it is).  `Link.script` is a list of (kind, outcome): the next primary call of that kind receives the
outcome; calls that are not scripted get the live default, or — once a loss has been delivered — the
post-loss behaviour of the library (documented at `Link._postloss`).  Auxiliary library calls (the
`send(b"")` aliveness probe inside TelnetTransport.read, `at_eof()` inside AsyncsshTransport.read,
`waitpid` inside PtyProcess.close ...) follow the link state, never the script.

Nothing here knows what scrapli *should* do: results are only classified (`classify`)."""
import asyncio, contextlib, errno, os, socket, sys, types

OUTCOMES = ["data", "more", "empty", "eof", "epipe", "eio", "reset", "refused", "unreach", "timeout", "liberr", "liberr2", "none",
            "dataIac", "dataIacVerb", "moreIac", "moreIacVerb", "cmdEpipe", "cmdReset", "cmdTimeout"]
# cmdEpipe / cmdReset / cmdTimeout (sync Telnet transport): recv() delivers a chunk holding a COMPLETE negotiation command and the
# send() of the reply the transport owes fails (EPIPE / ECONNRESET / socket.timeout): the peer reset or closed the session while
# option replies were still owed — one read() call, two boundary calls.
# cmdTimeout is observed but NOT in the domain: a 3-byte reply cannot fill the send buffer.  (Observed on it: the exception leaves
# _handle_control_chars before `self._control_buf` is stored back, so the sync transport keeps a stale IAC and swallows every later
# byte — harmless after a loss, which is what epipe / reset are.)
CMD_REPLY = {"cmdEpipe": "epipe", "cmdReset": "reset", "cmdTimeout": "timeout"}
# data-like outcomes (the call delivers bytes).  The *Iac / *IacVerb variants (Telnet transports only): the chunk ends strictly
# inside a 3-byte Telnet command — after IAC, after IAC + verb — so the transport is left with a pending control sequence.
DATA_LIKE = ("data", "more", "dataIac", "dataIacVerb", "moreIac", "moreIacVerb")
TELNETS = ("telnet", "asynctelnet")
CTRLS = ["c0", "cIac", "cIacVerb"]          # state of the Telnet control buffer: empty / IAC / IAC + verb
IAC, DO_, WILL_ = b"\xff", b"\xfd", b"\xfb"


def pend_of(o):
    return 1 if o in ("dataIac", "moreIac") else 2 if o in ("dataIacVerb", "moreIacVerb") else 0
METHODS = ["open", "openHs", "openAuth", "openChan", "read", "write", "isalive", "close"]
TRANSPORTS = ["system", "telnet", "asynctelnet", "paramiko", "asyncssh", "sim"]
ASYNC = {"asynctelnet", "asyncssh"}

# ---------------------------------------------------------------------------------------------------
# Which outcomes can the library / OS call at the boundary produce?  (hand-written from the libraries'
# behaviour — CPython socket / asyncio streams / Linux pty / paramiko 3.5 / asyncssh 2.24 — NOT from
# scrapli; entries marked (*) were reproduced on the real OS / library by the rigs of props/c08.py.)
# The property's quantifier is "the session drops / the transport fails": local resource exhaustion
# (EMFILE, out of ptys), a foreign waitpid() on our child (ECHILD) and programming errors are outside.
DOMAIN = {
    "telnet": {
        "open": ["data", "refused", "unreach", "timeout"],           # connect(): ECONNREFUSED(*), EHOSTUNREACH/ENETUNREACH, socket.timeout
        "read": ["data", "more", "dataIac", "dataIacVerb", "moreIac", "moreIacVerb", "empty", "reset", "timeout", "cmdEpipe", "cmdReset"],       # recv(): bytes, b"" after FIN(*), ECONNRESET(*), socket.timeout after timeout_socket(*)
        "write": ["data", "epipe", "reset", "timeout"],              # send(): EPIPE(*), ECONNRESET(*), socket.timeout with a full send buffer
        "isalive": ["data", "epipe", "reset"],                       # send(b""): 0(*), EPIPE(*), ECONNRESET(*)
        "close": ["data", "epipe", "reset", "eio"],                  # socket.close(): documented to raise OSError — a pending ECONNRESET / EIO reported by close(2)
    },
    "asynctelnet": {
        "open": ["data", "refused", "unreach", "timeout", "reset"],  # open_connection(): OSError family, wait_for timeout
        "read": ["data", "more", "dataIac", "dataIacVerb", "moreIac", "moreIacVerb", "empty", "reset", "epipe", "timeout"],  # StreamReader.read(): b"" at EOF(*), the exception of connection_lost(exc): ECONNRESET(*), EPIPE(*), ETIMEDOUT
        "write": ["data"],                                           # StreamWriter.write() never raises on a lost connection(*)
        "isalive": ["data", "empty"],                                # at_eof(): False / True
        "close": ["data", "epipe", "reset", "eio"],                  # StreamWriter.close() -> transport.close(): an OSError of a broken connection
    },
    "system": {
        "open": [],                                                  # a real fork/exec of ssh: exercised by the pty rig, not by injection
        "read": ["data", "more", "empty", "eio"],                    # read1(): EIO on Linux(*), b"" on BSD
        "write": ["data", "eio"],                                    # write()/flush(): accepted (Linux keeps accepting or blocks(*)); EIO on BSD/macOS after the slave closed
        "isalive": ["data", "empty"],                                # waitpid(): (0, 0) running / (pid, status) gone(*)
        "close": ["data"],
    },
    "paramiko": {
        "open": ["data", "refused", "unreach", "timeout"],           # same Socket class as telnet
        "openHs": ["data", "eof", "liberr", "reset"],                # Transport()/start_client(): SSHException, EOFError, OSError
        "openAuth": ["data", "empty", "liberr", "reset"],            # auth_password(): ok / AuthenticationException (also on EOF) / SSHException / saved transport exception
        "openChan": ["data", "eof", "liberr"],                       # open_session()/get_pty()/invoke_shell(): EOFError, SSHException (ChannelException)
        "read": ["data", "more", "empty", "timeout"],                # Channel.recv(): b"" once the channel is closed(*), socket.timeout
        "write": ["data", "epipe", "timeout"],                       # Channel.send(): socket.error("Socket is closed") — an OSError, socket.timeout
        "isalive": ["data", "empty"],                                # Transport.is_alive()
        "close": ["data", "epipe", "reset", "eio", "eof"],           # Channel.close() sends a message over a possibly dead transport (OSError / EOFError); Socket.close() below
    },
    "asyncssh": {
        "open": ["data", "refused", "unreach", "timeout", "reset", "liberr", "liberr2"],  # connect(): OSError family, TimeoutError, ConnectionLost, other DisconnectError
        "openChan": ["data", "liberr", "liberr2"],                   # open_session(): ConnectionLost / ChannelOpenError
        "read": ["data", "more", "empty", "liberr", "liberr2"],      # SSHReader.read(): b"" at EOF(*), ConnectionLost(*), other DisconnectError (server sent DISCONNECT with a reason)
        "write": ["data", "epipe"],                                  # SSHWriter.write(): BrokenPipeError('Channel not open for sending')(*)
        "isalive": ["data", "empty"],                                # _transport present and not closing(*) / gone
        "close": ["data", "epipe", "reset", "eio"],                  # SSHClientConnection.close(): BrokenPipeError(*) (suppressed by scrapli), other OSError of the dying transport
    },
    "sim": {
        "open": ["data"],
        "read": ["data", "more", "empty", "eof"],
        "write": ["data", "eof"],
        "isalive": ["data"],
        "close": ["data"],
    },
}
for _t in DOMAIN:  # a handle that is None is possible for every method that needs one
    for _m in ("read", "write", "isalive", "close"):
        DOMAIN[_t][_m] = DOMAIN[_t][_m] + ["none"]

LOSS_FOR_ALIVE = ("empty", "eof", "eio", "reset", "epipe", "liberr", "liberr2", "cmdEpipe", "cmdReset")   # the session is gone (a socket.timeout alone does not say so)


def sets_loss(t, o):
    """does this outcome of a read/write mean the session is gone for good?  A socket.timeout of a blocking socket / paramiko
    channel only fails the call; a TimeoutError out of an asyncio StreamReader is the kernel's ETIMEDOUT delivered through
    connection_lost(exc): the connection is gone and the reader re-raises it for ever."""
    return o in LOSS_FOR_ALIVE or (o == "timeout" and t == "asynctelnet")


def in_domain(t, m, o):
    return o in DOMAIN.get(t, {}).get(m, ())


def is_loss(t, m, o):
    """a *detectable* loss delivered to read/write"""
    return m in ("read", "write") and in_domain(t, m, o) and sets_loss(t, o) and not (t == "sim" and o == "empty")


def post_read(t, lk, lo):
    """which outcomes can a read produce on a session that has already delivered the loss (lk, lo)?  First entry = the
    library's default.  Hand-written library behaviour (like DOMAIN): the stream readers are sticky — after a stored
    exception they re-raise it and never return b"" or data(*); after EOF they keep returning b""(*); a socket can turn a
    FIN into a reset later."""
    if t == "telnet":
        return ["empty", "reset"] if lo == "empty" else ["reset", "empty"]
    if t == "asynctelnet":
        return [lo] if lk == "read" else ["reset"]
    if t == "system":
        return [lo] if lk == "read" else ["eio", "empty"]
    if t == "paramiko":
        return ["empty"]
    if t == "asyncssh":
        return [lo] if lk == "read" else ["empty", "liberr", "liberr2"]
    if t == "sim":
        return ["eof"]
    raise KeyError(t)


# ---------------------------------------------------------------------------------------------------
def exc_for(t, o):
    """the exception instance the library raises for outcome o (None: the call returns)"""
    if o == "eof":
        return EOFError("eof")
    if o == "epipe":
        if t == "paramiko":
            return OSError("Socket is closed")            # paramiko.Channel.send on a closed channel (socket.error)
        if t == "asyncssh":
            return BrokenPipeError("Channel not open for sending")
        return BrokenPipeError(errno.EPIPE, "Broken pipe")
    if o == "eio":
        return OSError(errno.EIO, "Input/output error")
    if o == "reset":
        return ConnectionResetError(errno.ECONNRESET, "Connection reset by peer")
    if o == "refused":
        return ConnectionRefusedError(errno.ECONNREFUSED, "Connection refused")
    if o == "unreach":
        return OSError(errno.EHOSTUNREACH, "No route to host")
    if o == "timeout":
        return socket.timeout("timed out")              # == TimeoutError == asyncio.TimeoutError on 3.11+
    if o == "liberr":
        if t == "paramiko":
            import paramiko
            return paramiko.SSHException("No existing session")
        if t == "asyncssh":
            import asyncssh
            return asyncssh.ConnectionLost("Connection lost")
        if t == "system":
            return ChildProcessError(errno.ECHILD, "No child processes")
        return RuntimeError("library error")
    if o == "liberr2":
        if t == "asyncssh":
            import asyncssh
            return asyncssh.DisconnectError(asyncssh.DISC_PROTOCOL_ERROR, "server sent disconnect")
        if t == "paramiko":
            import paramiko
            return paramiko.ChannelException(2, "Connect failed")
        return RuntimeError("library error 2")
    return None


class _PreIac(Exception):
    pass


class WouldBlock(BaseException):
    """the real library call would block here forever (no bytes will come) — logic runs only"""


class Starved(BaseException):
    """an asyncio operation keeps looping without ever giving control to the event loop: no timeout can fire"""


class FakeGap(BaseException):
    """scrapli called something on a fake that the fake does not provide: the RIG is behind the code (never a verdict)"""


class _Fake:
    def __getattr__(self, name):
        if name.startswith("__"):
            raise AttributeError(name)
        raise FakeGap(f"{type(self).__name__}.{name} is not faked")


class LockHang(BaseException):
    """an operation tries to take the channel lock while it is still held and nobody is left to release it: with a real
    threading.Lock / asyncio.Lock the call would block for ever (the harness runs one operation at a time)"""


class GuardLock:
    """stands for the threading.Lock of Channel.channel_lock (channel_lock=True): same protocol, but an acquire that would block
    raises LockHang instead of blocking — deterministic, no wall clock"""

    def __init__(self):
        self._held = False

    def acquire(self, blocking=True, timeout=-1):
        if self._held:
            raise LockHang()
        self._held = True
        return True

    def release(self):
        if not self._held:
            raise RuntimeError("release unlocked lock")
        self._held = False

    def locked(self):
        return self._held

    def __enter__(self):
        self.acquire()
        return True

    def __exit__(self, *a):
        self.release()


class AGuardLock(GuardLock):
    """the asyncio.Lock twin"""

    async def acquire(self):           # noqa
        return GuardLock.acquire(self)

    async def __aenter__(self):
        GuardLock.acquire(self)
        return None

    async def __aexit__(self, *a):
        self.release()


def guard_channel_lock(conn):
    """replace the channel lock of a connection built with channel_lock=True by its guarded twin"""
    import threading
    if conn.channel.channel_lock is None:
        raise RuntimeError("connection was not built with channel_lock=True")
    conn.channel.channel_lock = GuardLock() if isinstance(conn.channel.channel_lock, type(threading.Lock())) else AGuardLock()
    return conn


class Link:
    """state of the faked library session + the script of outcomes"""

    def __init__(self, t, script=(), device=None, fault=None, after="same"):
        self.t = t
        self.script = list(script)
        self.device = device            # CliDevice or None
        self.fault = fault              # (k, kind or None, outcome): the k-th primary call (0-based, read/write kinds) gets outcome
        self.after = after              # post-loss policy for unscripted writes: "same" | "accept"
        self.buf = bytearray(device.connect()) if device else bytearray()
        self.calls = []                 # (kind, outcome) of every primary call
        self.lost = None                # (kind, outcome) of the first loss delivered
        self.nrw = 0                    # number of read/write primary calls so far
        self.method = None              # scrapli transport method currently executing (set by the harness)
        self.killed = False
        self.closed = False
        self.reads_in_a_row = 0         # boundary reads since the harness last entered a transport method / a write happened
        self.reply_exc = None           # exception the next negotiation reply's send() raises
        self.reply_fault = None         # (k, outcome): the session is reset / closed when the k-th (0-based) negotiation reply is sent
        self.nreply = 0
        self.byte_fault = None          # (n, outcome): the session is lost after n bytes of device output (chunks are cut there)
        self.nbytes = 0
        self.fault_pre_done = False
        self.pend = 0                   # Telnet control bytes delivered so far that do not form a complete command yet (0, 1, 2)
        self.pre_iac = b""              # bytes to deliver alone right before the faulted read's outcome
        self.neg = []                   # option negotiation replies the transport wrote (never scripted, never counted)

    # -- what does the next primary call of `kind` get?
    def outcome(self, kind):
        if self.script and self.script[0][0] in (None, kind):
            o = self.script.pop(0)[1]
        elif self.fault is not None and kind in ("read", "write") and self.lost is None and self.nrw == self.fault[0] \
                and self.fault[1] in (None, kind):
            o = self.fault[2]
            if kind == "read" and len(self.fault) > 3 and self.fault[3] and not self.fault_pre_done:
                # the drop happens strictly inside a Telnet command: first the command's first byte(s), alone
                self.fault_pre_done = True
                self.pend = self.fault[3]
                raise _PreIac(IAC if self.fault[3] == 1 else IAC + DO_)
        elif self.byte_fault is not None and kind == "read" and self.lost is None and self.nbytes >= self.byte_fault[0]:
            o = self.byte_fault[1]              # every byte up to the drop offset was delivered: now the loss
        elif self.lost is not None:
            o = self._postloss(kind)
        else:
            o = "data"
        if kind in ("read", "write"):
            self.nrw += 1
        if self.lost is None and kind in ("read", "write", "open", "openHs", "openAuth", "openChan") and o not in DATA_LIKE \
                and (sets_loss(self.t, o) or kind.startswith("open")) and not (self.t == "sim" and o == "empty"):
            self.lost = (kind, o)               # a socket.timeout fails the call but does not end the session
        self.calls.append((kind, o))
        return o

    def _postloss(self, kind):
        """library behaviour after the first loss (lk, lo):
        read:  post_read(t, lk, lo)[0] — the same condition again (recv keeps returning b"" after FIN(*); asyncio's
               StreamReader and asyncssh's SSHReader re-raise the stored exception(*); a pty keeps raising EIO(*)).
        write: sockets — accepted after a FIN until the peer's RST arrives, EPIPE afterwards / after a reset(*)
               [policy `after`: "same" = fails, "accept" = still accepted]; asyncio writers never raise(*);
               asyncssh BrokenPipeError(*); pty accepted(*).
        isalive primary call: see probe_alive()."""
        lk, lo = self.lost
        if kind == "read":
            return post_read(self.t, lk, lo)[0]
        if kind == "write":
            if self.t in ("asynctelnet", "system"):
                return "data"
            if self.t == "sim":
                return "eof"
            if self.after == "accept":
                return "data"
            return "epipe"
        if kind == "isalive":
            return "data" if self.probe_alive() else ("epipe" if self.t == "telnet" else "empty")
        return "data"

    def probe_alive(self):
        """state-based answer of the library's aliveness primitive (used for auxiliary probes and unscripted isalive):
        socket send(b""): succeeds while no error is pending — also after the peer's FIN(*); fails after a reset / EPIPE(*).
        StreamReader.at_eof(): True only after feed_eof(), not after set_exception()(*).
        waitpid: the child is gone once the pty reported EOF(*).   paramiko is_alive(): stays True while the transport
        thread is up — also below a closed channel(*) (the channel's own flags `closed` / `eof_received` tell).
        asyncssh: _transport is dropped on connection loss(*); an EOF of the session channel alone leaves it up(*)."""
        if self.closed:
            return False
        if self.lost is None:
            return True
        lk, lo = self.lost
        if self.t == "telnet":
            return lo == "empty"
        if self.t == "asynctelnet":
            return lo not in ("empty", "eof")
        if self.t == "system":
            return False
        if self.t == "paramiko":
            return True                       # Transport.is_alive(): the ssh connection below a closed channel can stay up(*)
        if self.t == "asyncssh":
            return lo in ("empty", "epipe")
        return False

    # -- primary calls
    def do_read(self):
        # the fakes never block: a transport that keeps calling the library without ever returning would spin for ever in-process
        self.reads_in_a_row += 1
        if self.reads_in_a_row > 5000:
            raise Starved()
        if self.pre_iac:
            # the device's last bytes before the drop: IAC / IAC + verb, delivered alone (the Telnet transports then call recv again
            # inside the same read(): not a primary call of its own)
            b, self.pre_iac = self.pre_iac, b""
            self.pend = len(b)
            return b
        try:
            o = self.outcome("read")
        except _PreIac as p:
            return p.args[0]
        if o in DATA_LIKE:
            # complete a command that an earlier chunk left pending, then the chunk itself, then the new pending prefix
            head = (DO_ + b"\x01" if self.pend == 1 else b"\x01" if self.pend == 2 else b"") if self.t in TELNETS else b""
            tail = (IAC if pend_of(o) == 1 else IAC + DO_ if pend_of(o) == 2 else b"") if self.t in TELNETS else b""
            self.pend = pend_of(o) if self.t in TELNETS else 0
            if self.device is None:
                return head + (b"x>" if o.startswith("data") else b"x") + tail
            if not self.buf:
                raise WouldBlock()
            take = len(self.buf) if self.byte_fault is None else min(len(self.buf), self.byte_fault[0] - self.nbytes)
            chunk = bytes(self.buf[:take])
            del self.buf[:take]
            self.nbytes += take
            return head + chunk + tail
        if o in CMD_REPLY:
            # a chunk with a complete negotiation command; the reply the transport now owes cannot be sent any more
            head = (DO_ + b"\x01" if self.pend == 1 else b"\x01" if self.pend == 2 else b"")
            self.pend = 0
            self.reply_exc = exc_for(self.t, CMD_REPLY[o])
            # exactly ONE command gets complete (the pending one, else a fresh one) and no plain bytes: text or further commands received
            # before the failed reply would rightly be handled by the next read
            return head if head else IAC + DO_ + b"\x18"
        if o == "empty":
            return b""
        raise exc_for(self.t, o)

    def do_write(self, data):
        self.reads_in_a_row = 0
        if self.t in TELNETS and bytes(data[:1]) == IAC:
            # the transport answering an option negotiation command: a boundary write of its own (inside read()), a fault point of its own
            self.nreply += 1
            if self.reply_exc is not None:
                e, self.reply_exc = self.reply_exc, None
                raise e
            if self.reply_fault is not None and self.lost is None and self.nreply - 1 == self.reply_fault[0]:
                o = self.reply_fault[1]
                self.lost = ("write", o)
                self.calls.append(("reply", o))
                if self.t == "telnet":
                    raise exc_for(self.t, o)
                return len(data)                # asyncio stream writers never raise(*): the reset shows at the next read
            if self.lost is not None and self.t == "telnet" and self._postloss("write") != "data":
                raise exc_for(self.t, self._postloss("write"))
            self.neg.append(bytes(data))
            return len(data)
        o = self.outcome("write")
        if o in DATA_LIKE or o == "empty":
            if self.device is not None and self.lost is None:
                self.buf += self.device.on_write(bytes(data))
            return len(data)
        raise exc_for(self.t, o)

    def do_alive(self):
        """primary call of isalive(): True/False, or raises"""
        o = self.outcome("isalive")
        if o in DATA_LIKE:
            return True
        if o == "empty":
            return False
        raise exc_for(self.t, o)

    def do_stage(self, kind):
        o = self.outcome(kind)
        if o in DATA_LIKE:
            return True
        if o == "empty":
            return False
        raise exc_for(self.t, o)

    def do_close(self):
        o = self.outcome("close")
        self.closed = True
        if o in DATA_LIKE or o == "empty":
            return None
        raise exc_for(self.t, o)


# ---------------------------------------------------------------------------------------------------
# fakes
class FakeSock(socket.socket):
    """a genuine socket.socket subclass (base_socket.Socket.isalive uses isinstance) that never touches the network"""

    def __init__(self, link):
        super().__init__(socket.AF_INET, socket.SOCK_STREAM)
        self.link = link

    def connect(self, addr):
        self.link.do_stage("open")

    def settimeout(self, t):
        pass

    def recv(self, n, *a):
        return self.link.do_read()

    def send(self, b, *a):
        if b == b"":
            if self.link.method == "isalive" and self.link.t == "telnet":
                if self.link.do_alive():
                    return 0
                raise exc_for(self.link.t, "epipe")
            if self.link.probe_alive():
                return 0
            raise BrokenPipeError(errno.EPIPE, "Broken pipe")
        return self.link.do_write(b)

    def close(self):
        if self.link.t == "telnet":
            try:
                self.link.do_close()
            finally:
                super().close()
        else:
            super().close()


class FakeReader(_Fake):
    def __init__(self, link):
        self.link = link
        self._exc = None
        self._eof = False

    async def read(self, n=-1):
        try:
            b = self.link.do_read()          # like asyncio.StreamReader / SSHReader at EOF or with a stored exception: no suspension
        except Exception as e:
            self._exc = e
            raise
        if not b:
            self._eof = True                    # both libraries return b"" only at EOF, and at_eof() is True from then on
        return b

    def at_eof(self):
        if self.link.method == "isalive" and self.link.t == "asynctelnet":
            return not self.link.do_alive()
        lost = self.link.lost
        if self.link.t == "asyncssh" and (self.link.closed or lost == ("write", "epipe")):
            return True                         # the session channel is closed (that is when SSHWriter.write raises BrokenPipeError)
        return self._eof

    def exception(self):
        return self._exc


class FakeWriter(_Fake):
    def __init__(self, link):
        self.link = link

    def write(self, b):
        self.link.do_write(b)

    def close(self):
        if self.link.t == "asynctelnet" and not self.link.closed:
            self.link.do_close()

    def is_closing(self):
        return self.link.closed or self.link.lost is not None


class FakeFile(_Fake):
    """stands for PtyProcess.fileobj (io.BufferedRWPair over the pty master fd)"""

    def __init__(self, link):
        self.link = link

    def read1(self, n):
        return self.link.do_read()

    def write(self, b):
        return self.link.do_write(b)

    def flush(self):
        pass


class FakeChannel(_Fake):
    def __init__(self, link):
        self.link = link

    @property
    def closed(self):
        return self.link.closed or self.link.lost == ("write", "epipe")

    @property
    def eof_received(self):
        lost = self.link.lost
        return bool(lost and lost[0] == "read" and lost[1] in ("empty", "eof"))

    def recv(self, n):
        return self.link.do_read()

    def send(self, b):
        return self.link.do_write(b)

    def settimeout(self, t):
        pass

    def get_pty(self, *a, **k):
        pass

    def invoke_shell(self):
        pass

    def close(self):
        self.link.do_close()


class FakeParamiko(_Fake):
    def __init__(self, link, sock=None):
        self.link = link
        self._auth = False
        self.disabled_algorithms = {}

    def start_client(self):
        self.link.do_stage("openHs")

    def auth_password(self, username, password):
        import paramiko
        if not self.link.do_stage("openAuth"):
            raise paramiko.AuthenticationException("Authentication failed.")
        self._auth = True

    def auth_publickey(self, username, key):
        self.auth_password(username, "")

    def is_authenticated(self):
        return self._auth

    def open_session(self):
        self.link.do_stage("openChan")
        return FakeChannel(self.link)

    def is_alive(self):
        if self.link.method == "isalive":
            return self.link.do_alive()
        return self.link.probe_alive()

    def close(self):
        pass

    def get_remote_server_key(self):
        raise RuntimeError("not used (auth_strict_key False)")


class FakeATransport(_Fake):
    def __init__(self, link):
        self.link = link

    def is_closing(self):
        if self.link.method == "isalive":
            return not self.link.do_alive()
        return not self.link.probe_alive()


class FakeAsyncsshConn(_Fake):
    def __init__(self, link):
        self.link = link
        self._auth_complete = True
        self._transport = FakeATransport(link)

    async def open_session(self, **kw):
        self.link.do_stage("openChan")
        return FakeWriter(self.link), FakeReader(self.link), None

    def close(self):
        self.link.do_close()

    def get_server_host_key(self):
        return None


# ---------------------------------------------------------------------------------------------------
FAKE_PID = 2 ** 22 + 4242     # above pid_max defaults; never a real child of ours


@contextlib.contextmanager
def patched(link):
    """patches at the import boundary for the duration of one observation"""
    t = link.t
    undo = []

    def setattr_(obj, name, val):
        undo.append((obj, name, getattr(obj, name)))
        setattr(obj, name, val)

    try:
        if t in ("telnet", "paramiko"):
            import scrapli.transport.base.base_socket as bs
            proxy = types.SimpleNamespace(**{k: getattr(socket, k) for k in dir(socket) if not k.startswith("__")})

            class _S(FakeSock):
                def __init__(self, *a, **k):
                    FakeSock.__init__(self, link)
            proxy.socket = _S
            link.sock_cls = _S
            proxy.getaddrinfo = lambda host, port, *a, **k: [(socket.AF_INET, socket.SOCK_STREAM, 6, "", ("192.0.2.1", port))]
            setattr_(bs, "socket", proxy)
        if t == "paramiko":
            import scrapli.transport.plugins.paramiko.transport as pm
            setattr_(pm, "_ParamikoTransport", lambda sock: FakeParamiko(link, sock))
        if t == "asynctelnet":
            async def open_connection(host=None, port=None, **kw):
                link.do_stage("open")
                return FakeReader(link), FakeWriter(link)
            setattr_(asyncio, "open_connection", open_connection)
        if t == "asyncssh":
            import scrapli.transport.plugins.asyncssh.transport as am

            async def connect(**kw):
                link.do_stage("open")
                return FakeAsyncsshConn(link)
            setattr_(am, "connect", connect)
        if t == "system":
            real_waitpid, real_kill = os.waitpid, os.kill

            def waitpid(pid, opts):
                if pid != FAKE_PID:
                    return real_waitpid(pid, opts)
                if link.killed:
                    return (pid, 9)
                if link.method == "isalive":
                    alive = link.do_alive()
                else:
                    alive = link.probe_alive()
                return (0, 0) if alive else (pid, 0)

            def kill(pid, sig):
                if pid != FAKE_PID:
                    return real_kill(pid, sig)
                link.killed = True
            setattr_(os, "waitpid", waitpid)
            setattr_(os, "kill", kill)
        yield
    finally:
        for obj, name, val in reversed(undo):
            setattr(obj, name, val)


def _targs(timeout_transport=0):
    from scrapli.transport.base import BaseTransportArgs
    return BaseTransportArgs(transport_options={}, host="192.0.2.1", port=23, timeout_socket=1, timeout_transport=timeout_transport, logging_uid="")


def new_transport(t, targs=None):
    """a fresh, never-opened REAL transport object"""
    targs = targs or _targs()
    if t == "telnet":
        from scrapli.transport.plugins.telnet.transport import PluginTransportArgs, TelnetTransport
        return TelnetTransport(targs, PluginTransportArgs())
    if t == "asynctelnet":
        from scrapli.transport.plugins.asynctelnet.transport import AsynctelnetTransport, PluginTransportArgs
        return AsynctelnetTransport(targs, PluginTransportArgs())
    if t == "system":
        from scrapli.transport.plugins.system.transport import PluginTransportArgs, SystemTransport
        return SystemTransport(targs, PluginTransportArgs(auth_username="u"))
    if t == "paramiko":
        from scrapli.transport.plugins.paramiko.transport import ParamikoTransport, PluginTransportArgs
        return ParamikoTransport(targs, PluginTransportArgs(auth_username="u", auth_password="p", auth_strict_key=False))
    if t == "asyncssh":
        from scrapli.transport.plugins.asyncssh.transport import AsyncsshTransport, PluginTransportArgs
        return AsyncsshTransport(targs, PluginTransportArgs(auth_username="u", auth_password="p", auth_strict_key=False))
    raise KeyError(t)


def wire_open(t, tr, link):
    """put the real transport `tr` into the state 'opened' on top of the fakes (what a successful open() leaves behind)"""
    if t == "telnet":
        from scrapli.transport.base.base_socket import Socket
        tr.socket = Socket(host="192.0.2.1", port=23, timeout=1)
        tr.socket.sock = getattr(link, "sock_cls", FakeSock)(link)
    elif t == "asynctelnet":
        tr.stdout, tr.stdin = FakeReader(link), FakeWriter(link)
    elif t == "system":
        from scrapli.transport.plugins.system.ptyprocess import PtyProcess
        p = PtyProcess.__new__(PtyProcess)
        p.pid, p.fd = FAKE_PID, -1
        p.fileobj = FakeFile(link)
        p.terminated = p.closed = p.flag_eof = False
        p.exitstatus = p.signalstatus = p.status = None
        p.delayafterclose = p.delayafterterminate = 0
        tr.session = p
    elif t == "paramiko":
        from scrapli.transport.base.base_socket import Socket
        tr.socket = Socket(host="192.0.2.1", port=22, timeout=1)
        tr.socket.sock = getattr(link, "sock_cls", FakeSock)(link)
        tr.session = FakeParamiko(link)
        tr.session._auth = True
        tr.session_channel = FakeChannel(link)
    elif t == "asyncssh":
        tr.session = FakeAsyncsshConn(link)
        tr.stdin, tr.stdout = FakeWriter(link), FakeReader(link)
    return tr


def dispose(t, tr):
    """release the real fds held by FakeSock objects / neutralise PtyProcess.__del__"""
    with contextlib.suppress(Exception):
        if t in ("telnet", "paramiko") and getattr(tr, "socket", None) is not None and tr.socket.sock is not None:
            socket.socket.close(tr.socket.sock)
    with contextlib.suppress(Exception):
        if t == "system" and tr.session is not None:
            tr.session.closed = True


# ---------------------------------------------------------------------------------------------------
def classify_exc(e):
    from scrapli import exceptions as X
    if isinstance(e, FakeGap):
        raise e
    if isinstance(e, (Starved, LockHang)):
        return "hang"
    if isinstance(e, WouldBlock):
        return "block"
    if isinstance(e, X.ScrapliException):           # the property: a ScrapliException subclass ...
        if isinstance(e, X.ScrapliConnectionNotOpened):
            return "S:notOpened"
        if isinstance(e, X.ScrapliConnectionError):
            return "S:connError"
        if isinstance(e, X.ScrapliAuthenticationFailed):
            return "S:authFailed"
        if isinstance(e, X.ScrapliTimeout):
            return "S:timeout"
        return "S:other"
    if isinstance(e, EOFError):                      # ... never a raw one
        return "raw:eofError:" + type(e).__name__
    if isinstance(e, OSError):
        return "raw:osError:" + type(e).__name__
    if isinstance(e, AttributeError):
        return "raw:attrError:" + type(e).__name__
    return "raw:other:" + type(e).__name__


def classify_ret(v, busy=False):
    if v is None:
        return "retNone"
    if v is True:
        return "retTrue"
    if v is False:
        return "retFalse"
    if isinstance(v, (bytes, bytearray)):
        if len(v):
            return "retData"
        return "retEmptyBusy" if busy else "retEmpty"
    return "retNone"


def short(act):
    """drop the python class name: raw:osError:BrokenPipeError -> raw:osError"""
    p = act.split(":")
    return ":".join(p[:2]) if p[0] == "raw" else act


_loop = None


def loop():
    global _loop
    if _loop is None or _loop.is_closed():
        _loop = asyncio.new_event_loop()
    return _loop


def run_coro(coro):
    """run to completion inside a task; report whether it ever gave control to the event loop"""
    async def wrap():
        ran = []
        asyncio.get_running_loop().call_soon(ran.append, 1)
        try:
            r = await coro
            return ("ret", r, bool(ran))
        except BaseException as e:  # noqa
            if isinstance(e, (KeyboardInterrupt, SystemExit)):
                raise
            return ("exc", e, bool(ran))
    return loop().run_until_complete(wrap())


def call(t, tr, link, method):
    """invoke one scrapli transport method on the real transport; returns the classified act"""
    link.method = method
    if hasattr(link, "reads_in_a_row"):
        link.reads_in_a_row = 0
    try:
        if method in ("open", "openHs", "openAuth", "openChan"):
            fn = tr.open
            args = ()
        elif method == "read":
            fn, args = tr.read, ()
        elif method == "write":
            fn, args = tr.write, (b"show version\n",)
        elif method == "isalive":
            fn, args = tr.isalive, ()
        elif method == "close":
            fn, args = tr.close, ()
        else:
            raise KeyError(method)
        if asyncio.iscoroutinefunction(fn):
            kind, val, yielded = run_coro(fn(*args))
            if kind == "exc":
                return classify_exc(val)
            return classify_ret(val, busy=not yielded)
        try:
            return classify_ret(fn(*args))
        except BaseException as e:  # noqa
            if isinstance(e, (KeyboardInterrupt, SystemExit)):
                raise
            return classify_exc(e)
    finally:
        link.method = None


# ---------------------------------------------------------------------------------------------------
def observe_seq(t, seq, opened=True):
    """run the method sequence [(method, outcome)...] on ONE real transport object of kind t; returns the acts.
    outcome 'none' means: the handle is None (only meaningful on a never-opened / closed transport)."""
    if t == "sim":
        return _observe_seq_sim(seq, opened)
    link = Link(t)
    tr = new_transport(t)
    acts = []
    with patched(link):
        if opened and not (seq and (seq[0][0].startswith("open") or seq[0][1] == "none")):
            wire_open(t, tr, link)
        try:
            for m, o in seq:
                if o not in ("none", None):       # None: not scripted — the link's live / post-loss behaviour answers
                    link.script = [(m, o)]
                else:
                    link.script = []
                acts.append(call(t, tr, link, m))
        finally:
            dispose(t, tr)
    return acts


def _observe_seq_sim(seq, opened):
    from harness.simdevice import CliDevice
    from harness.simtransport import AsyncSimTransport, FaultPlan, SimTransport
    out = []
    for cls in (SimTransport, AsyncSimTransport):
        dev = CliDevice("cisco_iosxe")
        tr = cls(_targs(), dev, on_empty="empty")
        if opened and not (seq and (seq[0][0] == "open" or seq[0][1] == "none")):
            r = tr.open()
            if asyncio.iscoroutine(r):
                run_coro(r)
        acts = []
        for m, o in seq:
            tr.faults = []
            if m == "read":
                if o in ("empty",):
                    tr.buf.clear()
                elif o in DATA_LIKE:
                    if not tr.buf:
                        tr.buf += b"x>"
                elif o != "none":
                    tr.faults = [FaultPlan(at_read=tr.nreads + 1, action="eof" if o == "eof" else exc_for("sim", o))]
            elif m == "write" and o not in DATA_LIKE and o != "none":
                tr.faults = [FaultPlan(at_write=tr.nwrites + 1, action="eof" if o == "eof" else exc_for("sim", o))]
            link = types.SimpleNamespace(method=None)
            acts.append(call("sim", tr, link, m))
        out.append(acts)
    if out[0] != out[1]:
        raise RuntimeError(f"SimTransport and AsyncSimTransport differ on {seq}: {out}")
    return out[0]


def observe_map():
    """errMap: (t, m, o) -> act for a single injection into a fresh transport (opened for read/write/isalive/close)"""
    res = {}
    for t in TRANSPORTS:
        for m in METHODS:
            for o in OUTCOMES:
                if m.startswith("open") and (o == "none" or o in DATA_LIKE[1:]):
                    continue
                if (pend_of(o) or o in CMD_REPLY) and (t not in TELNETS or m != "read"):
                    continue
                if t == "system" and m.startswith("open"):
                    continue          # a real fork/exec: exercised by the pty rig, not by injection
                if t == "sim" and (m.startswith("open") and m != "open" or o not in DOMAIN["sim"].get(m, ())):
                    continue
                if m in ("openHs", "openAuth") and t != "paramiko" or m == "openChan" and t not in ("paramiko", "asyncssh"):
                    continue
                res[(t, m, o)] = observe_seq(t, [(m, o)])[0]
    return res


def observe_after():
    """after2: (t, lm, lo, m, o) -> act of method m with outcome o on a transport that has already been delivered the
    detectable loss (lm, lo).  Only in-domain combinations."""
    res = {}
    for t in TRANSPORTS:
        for lm in ("read", "write"):
            for lo in DOMAIN[t][lm]:
                if not is_loss(t, lm, lo):
                    continue
                for m in ("read", "write", "close"):
                    for o in (post_read(t, lm, lo) if m == "read" else DOMAIN[t][m]):
                        if o == "none":
                            continue
                        res[(t, lm, lo, m, o)] = observe_seq(t, [(lm, lo), (m, o)])[1]
    return res


def observe_alive_after():
    """aliveAfter: (t, lm, lo) -> act of isalive() right after the detectable loss (lm, lo) was delivered, the library's
    aliveness primitive answering as documented at Link.probe_alive (measured on the real OS / libraries by the rigs)"""
    res = {}
    for t in TRANSPORTS:
        for lm in ("read", "write"):
            for lo in DOMAIN[t][lm]:
                if is_loss(t, lm, lo):
                    res[(t, lm, lo)] = observe_seq(t, [(lm, lo), ("isalive", None)])[1]
    return res



def ctrl_prefix(c):
    """method sequence that leaves the Telnet control buffer in state c (0 empty, 1 IAC, 2 IAC + verb)"""
    return [] if c == 0 else [("read", "moreIac" if c == 1 else "moreIacVerb")]


def observe_ctrl():
    """the three tables again, for the Telnet transports, with a control sequence pending (c = 1: IAC, c = 2: IAC + verb) when the
    call is made:  emapC (c, t, m, o), afterC (c, t, lm, lo, m, o), aliveC (c, t, lm, lo)"""
    emapC, afterC, aliveC = {}, {}, {}
    for c in (1, 2):
        pre = ctrl_prefix(c)
        n = len(pre)
        for t in TELNETS:
            for m in ("read", "write", "isalive", "close"):
                for o in OUTCOMES:
                    if o == "none" or ((pend_of(o) or o in CMD_REPLY) and m != "read"):
                        continue
                    emapC[(c, t, m, o)] = observe_seq(t, pre + [(m, o)])[n]
            for lm in ("read", "write"):
                for lo in DOMAIN[t][lm]:
                    if not is_loss(t, lm, lo):
                        continue
                    aliveC[(c, t, lm, lo)] = observe_seq(t, pre + [(lm, lo), ("isalive", None)])[n + 1]
                    for m in ("read", "write", "close"):
                        for o in (post_read(t, lm, lo) if m == "read" else DOMAIN[t][m]):
                            if o == "none":
                                continue
                            afterC[(c, t, lm, lo, m, o)] = observe_seq(t, pre + [(lm, lo), (m, o)])[n + 1]
    return emapC, afterC, aliveC

# ---------------------------------------------------------------------------------------------------
# real transport + fakes underneath a real driver / channel (program-level runs)
PROMPT_PATTERN = r"^[a-z0-9.\-@()/:]{1,48}[#>$]\s*$"


def make_real_conn(t, link, timeout_ops=0.3, platform=None, wire=True, **kw):
    """a real (Async)GenericDriver whose REAL transport `t` sits on the fakes driven by `link`, already 'opened'
    (wire=False: not opened — conn.open() then runs the real open() over the patched library entry points)"""
    from scrapli.driver import AsyncGenericDriver, GenericDriver
    cls = AsyncGenericDriver if t in ASYNC else GenericDriver
    args = dict(host="192.0.2.1", transport=t, auth_bypass=True, auth_username="u", auth_password="p", auth_strict_key=False,
                timeout_ops=timeout_ops, timeout_transport=0, timeout_socket=1, comms_prompt_pattern=PROMPT_PATTERN)
    args.update(kw)
    conn = cls(**args)
    if wire:
        wire_open(t, conn.transport, link)
    return conn


class ReadGuard:
    """wraps conn.channel.read of an asyncio channel: raises Starved when the operation has performed `limit` reads
    without the event loop having run once (call_soon callback never executed) — deterministic hang detection"""

    def __init__(self, conn, limit=3000):
        self.conn, self.limit, self.n = conn, limit, 0
        self.ran = False
        inner = conn.channel.read

        async def read():
            if self.n == 0:
                asyncio.get_running_loop().call_soon(self._mark)
            self.n += 1
            if self.n > self.limit and not self.ran:
                raise Starved()
            if self.ran:
                self.n, self.ran = 0, False
            return await inner()
        conn.channel.read = read

    def _mark(self):
        self.ran = True


def run_op(conn, op):
    """run one driver operation on a sync or asyncio connection; returns ('ok', value) | ('exc', exception)"""
    fn = {"get_prompt": lambda: conn.get_prompt(), "send_command": lambda: conn.send_command("show version"),
          "open": lambda: conn.open(), "close": lambda: conn.close(),
          "send_configs": lambda: conn.send_configs(["interface loopback0", "description x"]),
          "isalive": lambda: conn.isalive()}.get(op) or op
    try:
        r = fn()
        if asyncio.iscoroutine(r):
            kind, val, _ = run_coro(r)
            return (kind if kind == "exc" else "ok", val)
        return ("ok", r)
    except BaseException as e:  # noqa
        if isinstance(e, (KeyboardInterrupt, SystemExit)):
            raise
        return ("exc", e)
