"""Causal login-dialogue device + Sim transports with a scripted clock, for C09 (in-channel login).

LoginDevice reacts only to written bytes (connect() -> bytes, on_write(bytes) -> bytes):

  telnet flavour:  [silent until kicked n times] -> pre-banner + username prompt -> (line) -> password prompt
                   -> (line, not echoed) -> accept: banner/MOTD + shell prompt
                                          | reject: "Login incorrect" + username prompt again (reject_to="pass": only the
                                            password prompt again, like a line password), `max_tries` times,
                                            then close the session (after_max="close") or keep prompting ("reprompt")
  ssh flavour  (what the OpenSSH client prints on its tty): warnings -> [fatal message + exit]
                   -> [passphrase prompt `Enter passphrase for key '/path':` (3 tries, then falls through)]
                   -> password prompt `user@host's password:` -> accept: banner + shell prompt
                                          | reject: "Permission denied, please try again." + prompt again, 3 tries,
                                            then "user@host: Permission denied (publickey,password)." + exit
  Nothing typed at a password / passphrase prompt is echoed; the ssh flavour echoes nothing before the shell.

Observables for the oracle: `wlog` = (login state, bytes) for every on_write call; `lines` = (login state, line) for
every completed line; `spans` = [(kind, start, end)] byte offsets of banner / prompt texts in the total output.

LoginSimTransport / AsyncLoginSimTransport add to the shared Sim transports: a scripted clock (FakeClock, installed
into scrapli's channel modules by `install_clock()`), a budget of empty reads (on_empty="empty": each empty read
advances the clock by the next `dts` entry, then SimStall = "would run into the timeout"), EOF after the device
closed (eof="raise": ScrapliConnectionError, eof="empty": b""), transient connection errors at scripted read numbers
(err_at), and `tape` = the exact read
results with the elapsed time of each, which is what the Lean model is run on."""
import asyncio
import datetime as _dt
from typing import List, Optional, Tuple

from scrapli.exceptions import ScrapliConnectionError

from harness.simtransport import AsyncSimTransport, SimStall, SimTransport


# ------------------------------------------------------------------------------------------- clock
class FakeClock:
    START = 1_000_000.0

    def __init__(self):
        self.now = self.START

    def advance(self, dt):
        self.now += dt

    def elapsed(self) -> int:
        return int(round(self.now - self.START))


_current: List[Optional[FakeClock]] = [None]


class _Stamp:
    def __init__(self, t):
        self.t = t

    def timestamp(self):
        return self.t


class _FakeDatetime:
    """stands in for the name `datetime` inside scrapli.channel.*: only `.now().timestamp()` is used there"""

    @staticmethod
    def now(*a, **k):
        c = _current[0]
        return _Stamp(c.now) if c is not None else _dt.datetime.now(*a, **k)

    def __getattr__(self, name):
        return getattr(_dt.datetime, name)


class _FastAsyncio:
    """stands in for the name `asyncio` inside scrapli.channel.async_channel: the `await asyncio.sleep(0.1)` at the
    end of every iteration of the async login loops becomes a bare yield (everything else is the real module)"""

    @staticmethod
    async def sleep(delay, result=None):
        await asyncio.sleep(0)
        return result

    def __getattr__(self, name):
        return getattr(asyncio, name)


_installed = [False]


def install_clock():
    if _installed[0]:
        return
    import scrapli.channel.async_channel as ac
    import scrapli.channel.base_channel as bc
    import scrapli.channel.sync_channel as sc
    fd = _FakeDatetime()
    for m in (ac, bc, sc):
        if hasattr(m, "datetime"):
            m.datetime = fd
    ac.asyncio = _FastAsyncio()
    _installed[0] = True


def use_clock(clock: Optional[FakeClock]):
    _current[0] = clock


# ------------------------------------------------------------------------------------------- device
class LoginDevice:
    def __init__(self, flavour="telnet", *, username=b"admin", password=b"s3cret", passphrase=None,
                 user_prompt=b"Username: ", pass_prompt=b"Password: ", phrase_prompt=b"Enter passphrase for key '/home/u/.ssh/id_rsa': ",
                 pre=b"", banner=b"", shell_prompt=b"r1#", nl=b"\n", echo=True, reject_msg=b"Login incorrect",
                 max_tries=3, after_max="close", needs_kick=0, fatal=None, ssh_user_host=b"admin@r1",
                 phrase_tries=3, reprompt_nl=True, reject_to="user", reject_first=0):
        self.flavour = flavour
        self.username, self.password, self.passphrase = username, password, passphrase
        self.user_prompt, self.pass_prompt, self.phrase_prompt = user_prompt, pass_prompt, phrase_prompt
        self.pre, self.banner, self.shell_prompt, self.nl, self.echo = pre, banner, shell_prompt, nl, echo
        self.reject_msg, self.max_tries, self.after_max = reject_msg, max_tries, after_max
        self.needs_kick, self.fatal, self.ssh_user_host = needs_kick, fatal, ssh_user_host
        self.phrase_tries, self.reprompt_nl = phrase_tries, reprompt_nl
        self.reject_first = reject_first    # the first n password submissions are rejected even when correct (server re-prompts)
        self.reject_to = reject_to          # telnet: after a rejection prompt for the username again, or only the password
        self.state = "init"
        self.name = b""
        self.tries = 0
        self.ptries = 0
        self.linebuf = bytearray()
        self.closed = False
        self.total = 0                      # bytes emitted so far
        self.wlog: List[Tuple[str, bytes]] = []
        self.lines: List[Tuple[str, bytes]] = []
        self.spans: List[Tuple[str, int, int]] = []
        self.accepted = False

    # ---- output assembly with span bookkeeping
    def _emit(self, parts) -> bytes:
        out = bytearray()
        for kind, text in parts:
            if kind and text:
                self.spans.append((kind, self.total + len(out), self.total + len(out) + len(text)))
            out += text
        self.total += len(out)
        return bytes(out)

    def connect(self) -> bytes:
        if self.flavour == "telnet":
            if self.needs_kick:
                self.state = "kick"
                return b""
            self.state = "user"
            return self._emit([("banner", self.pre), ("uprompt", self.user_prompt)])
        # ssh client
        parts = [("banner", self.pre)]
        if self.fatal is not None:
            self.state, self.closed = "closed", True
            parts.append(("fatal", self.fatal))
            return self._emit(parts)
        if self.passphrase is not None:
            self.state = "phrase"
            parts.append(("hprompt", self.phrase_prompt))
        else:
            self.state = "pass"
            parts.append(("pprompt", self.pass_prompt))
        return self._emit(parts)

    def on_write(self, data: bytes) -> bytes:
        self.wlog.append((self.state, bytes(data)))
        if self.closed:
            return b""
        out = bytearray()
        for b in data:
            if b == 0x0A:
                line = bytes(self.linebuf)
                self.linebuf.clear()
                self.lines.append((self.state, line))
                out += self._line(line)
                if self.closed:
                    break
            elif b == 0x0D:
                continue
            else:
                self.linebuf.append(b)
                if self.echo and (self.state == "shell" or (self.flavour == "telnet" and self.state in ("user", "kick"))):
                    out += self._emit([("", bytes([b]))])
        return bytes(out)

    def _shell(self):
        self.state, self.accepted = "shell", True
        return self._emit([("", self.nl), ("banner", self.banner), ("shell", self.shell_prompt)])

    def _line(self, line: bytes) -> bytes:
        st = self.state
        if st == "kick":
            self.needs_kick -= 1
            if self.needs_kick > 0:
                return b""
            self.state = "user"
            return self._emit([("", self.nl), ("banner", self.pre), ("uprompt", self.user_prompt)])
        if st == "user":
            if not line:
                return self._emit([("", self.nl), ("uprompt", self.user_prompt)])
            self.name = line
            self.state = "pass"
            return self._emit([("", self.nl), ("pprompt", self.pass_prompt)])
        if st == "phrase":
            if line == self.passphrase:
                # key accepted by the server: no password needed
                return self._shell()
            self.ptries += 1
            if self.ptries < self.phrase_tries:
                return self._emit([("", self.nl), ("hprompt", self.phrase_prompt)])
            self.state = "pass"
            return self._emit([("", self.nl), ("pprompt", self.pass_prompt)])
        if st == "pass":
            ok = line == self.password and (self.flavour == "ssh" or self.name == self.username)
            if ok and self.tries < self.reject_first:
                ok = False
            if ok:
                return self._shell()
            self.tries += 1
            if self.flavour == "ssh":
                if self.tries < self.max_tries:
                    return self._emit([("", self.nl), ("reject", b"Permission denied, please try again." + self.nl),
                                       ("pprompt", self.pass_prompt)])
                self.state, self.closed = "closed", True
                return self._emit([("", self.nl), ("reject", self.ssh_user_host + b": Permission denied (publickey,password)." + self.nl)])
            parts = [("", self.nl), ("reject", self.reject_msg + self.nl)]
            if self.tries >= self.max_tries and self.after_max == "close":
                self.state, self.closed = "closed", True
                return self._emit(parts)
            if self.reprompt_nl:
                parts.append(("", self.nl))
            if self.reject_to == "pass":
                parts.append(("pprompt", self.pass_prompt))
            else:
                self.state = "user"
                parts.append(("uprompt", self.user_prompt))
            return self._emit(parts)
        if st == "shell":
            return self._emit([("", self.nl), ("shell", self.shell_prompt)])
        return b""


# ------------------------------------------------------------------------------------------- transports
class _LoginCore:
    def _init_login(self, clock=None, dts=(), eof="raise", budget=12, err_at=(), lag_at=None):
        self.lag_at = dict(lag_at or {})   # read number (1-based) -> clock advance: that read returns b"" although the
                                      # device's output is on its way (async: wait_for timed out; a slow AAA server)
        self.clock = clock or FakeClock()
        self.dts = list(dts)          # clock advance of the successive empty reads; afterwards 1 each
        self.eof = eof
        self.budget = budget          # empty reads / EOF errors allowed before the run counts as stalled
        self.tape: list = []          # ("c", bytes, elapsed) | ("E",)
        self.err_at = set(err_at)     # read numbers (1-based) at which a TRANSIENT connection error is raised: nothing is
                                      # consumed, the device stays as it is (e.g. an OSError from recv mapped by the transport)

    def _transient(self) -> None:
        """raise the scripted transient ScrapliConnectionError for this read, if any"""
        if len(self.tape) + 1 in self.err_at:
            self.tape.append(("E",))
            self.trace.append(("E",))
            raise ScrapliConnectionError("encountered error reading from transport, connection lost: TimeoutError('timed out')")

    def _lagged(self) -> bool:
        """an EMPTY read while output is on its way (scripted by lag_at)"""
        n = len(self.tape) + 1
        if n not in self.lag_at:
            return False
        self.clock.advance(self.lag_at[n])
        self.tape.append(("c", b"", self.clock.elapsed()))
        self.trace.append(("R", b""))
        return True

    def _idle(self):
        """called when read() finds nothing buffered; returns b"" or raises"""
        closed = getattr(self.device, "closed", False)
        if self.budget <= 0 or (not closed and self.on_empty == "stall"):
            self.trace.append(("stall",))
            raise SimStall()
        self.budget -= 1
        self.clock.advance(self.dts.pop(0) if self.dts else 1)
        if closed and self.eof == "raise":
            self.tape.append(("E",))
            self.trace.append(("E",))
            raise ScrapliConnectionError("encountered EOF reading from transport; typically means the device closed the connection")
        self.tape.append(("c", b"", self.clock.elapsed()))
        self.trace.append(("R", b""))
        return b""


class LoginSimTransport(_LoginCore, SimTransport):
    def __init__(self, base_transport_args, device, cuts=None, faults=None, on_empty="stall", clock=None, dts=(), eof="raise", budget=12,
                 err_at=(), lag_at=None):
        SimTransport.__init__(self, base_transport_args, device, cuts=cuts, on_empty=on_empty)
        self._init_login(clock, dts, eof, budget, err_at, lag_at)

    def read(self) -> bytes:
        self._pre_read()
        self._transient()
        if self._lagged():
            return b""
        if not self.buf:
            return self._idle()
        chunk = self._take()
        self.tape.append(("c", chunk, self.clock.elapsed()))
        return chunk


class AsyncLoginSimTransport(_LoginCore, AsyncSimTransport):
    def __init__(self, base_transport_args, device, cuts=None, faults=None, on_empty="stall", clock=None, dts=(), eof="raise", budget=12,
                 err_at=(), lag_at=None):
        AsyncSimTransport.__init__(self, base_transport_args, device, cuts=cuts, on_empty=on_empty)
        self._init_login(clock, dts, eof, budget, err_at, lag_at)

    async def read(self) -> bytes:
        self._pre_read()
        self._transient()
        if self._lagged():
            await asyncio.sleep(0)
            return b""
        if not self.buf:
            r = self._idle()
            await asyncio.sleep(0)
            return r
        chunk = self._take()
        self.tape.append(("c", chunk, self.clock.elapsed()))
        return chunk
