"""C11 thorough tier: the REAL transports against devices that live in other processes
  system      SystemTransport + ptyprocess against a script named `ssh` placed first on PATH (child pid, pty fd observed)
  telnet      TelnetTransport over loopback TCP            asynctelnet  AsynctelnetTransport over loopback TCP
  paramiko    ParamikoTransport over loopback ssh          asyncssh     AsyncsshTransport over loopback ssh
Histories, instrumentation and result format are those of c11rig; faults are played by the device process
(dies / goes silent after the k-th line of a session, wrong password).  Observed after every operation: transport
handle attributes, child pids in /proc, socket and pty descriptors in /proc/self/fd, threading.enumerate(), the log handle.
Rig trouble raises RigTrouble (=> exit 2)."""
import asyncio, json, os, stat, subprocess, sys, tempfile, threading, time

from harness import c11rig
from harness.c11rig import Rig, RigTrouble, fd_table

HERE = os.path.dirname(os.path.abspath(__file__))
FAKEDEV = os.path.join(HERE, "c11_fakedev.py")
PY = sys.executable
SYNC_KINDS = ("system", "telnet", "paramiko")
ASYNC_KINDS = ("asynctelnet", "asyncssh")


class Servers:
    """device processes + the fake ssh directory; one instance per check run"""

    def __init__(self):
        self.dir = tempfile.mkdtemp(prefix="c11real-")
        self.ctl = os.path.join(self.dir, "ctl.json")
        self.set_ctl()
        self.procs = {}
        self.ports = {}
        ssh = os.path.join(self.dir, "bin", "ssh")
        os.makedirs(os.path.dirname(ssh))
        with open(ssh, "w") as f:
            f.write(f"#!/bin/sh\nexec {PY} {FAKEDEV} ssh-tty \"$@\"\n")
        os.chmod(ssh, os.stat(ssh).st_mode | stat.S_IXUSR | stat.S_IXGRP | stat.S_IXOTH)
        self.bindir = os.path.dirname(ssh)

    def set_ctl(self, **kw):
        tmp = self.ctl + ".tmp"
        with open(tmp, "w") as f:
            json.dump(kw, f)
        os.replace(tmp, self.ctl)

    def port(self, kind):
        mode = {"telnet": "telnet-server", "asynctelnet": "telnet-server", "paramiko": "ssh-server", "asyncssh": "ssh-server"}.get(kind)
        if mode is None:
            return 22
        if mode not in self.ports:
            p = subprocess.Popen([PY, FAKEDEV, mode, self.ctl], stdout=subprocess.PIPE, stderr=subprocess.DEVNULL, close_fds=True)
            line = b""
            t0 = time.time()
            while not line.endswith(b"\n"):
                if time.time() - t0 > 60 or p.poll() is not None:
                    raise RigTrouble(f"device process {mode} did not start")
                line += os.read(p.stdout.fileno(), 1)
            self.procs[mode] = p
            self.ports[mode] = int(line)
        return self.ports[mode]

    def dead_port(self):
        """a loopback port nobody listens on (connect() is refused)"""
        import socket
        if not hasattr(self, "_dead_port"):
            s = socket.socket()
            s.bind(("127.0.0.1", 0))
            self._dead_port = s.getsockname()[1]
            s.close()
        return self._dead_port

    def blackhole_port(self):
        """a loopback port whose listener never accepts and whose accept queue is full: connect() gets no answer (times out).
        The listener and the filler connections live in this process from before any fd baseline is taken."""
        import socket
        if not hasattr(self, "_blackhole"):
            l = socket.socket()
            l.bind(("127.0.0.1", 0))
            l.listen(0)
            port = l.getsockname()[1]
            fill = []
            for _ in range(8):
                c = socket.socket()
                c.settimeout(0.3)
                try:
                    c.connect(("127.0.0.1", port))
                    fill.append(c)
                except OSError:
                    c.close()
                    break
            else:
                raise RigTrouble("could not fill the accept queue of the blackhole listener")
            self._blackhole = (l, fill, port)
        return self._blackhole[2]

    def close(self):
        for p in self.procs.values():
            try:
                p.kill()
                p.wait(5)
                p.stdout.close()
            except Exception:
                pass
        import shutil
        shutil.rmtree(self.dir, ignore_errors=True)


SERVERS = None


def servers():
    global SERVERS
    if SERVERS is None:
        SERVERS = Servers()
    return SERVERS


class _Net:
    """what Rig expects from its `net` for bookkeeping"""

    def __init__(self):
        self.trace = []
        self.nreads = self.nwrites = 0
        self.faults = []
        self.refuse_next_open = False


def _pid_state(pid):
    try:
        with open(f"/proc/{pid}/stat") as f:
            return f.read().rsplit(")", 1)[1].split()[0]
    except OSError:
        return None


class RealRig(Rig):
    def __init__(self, case, tmpdir):
        import io
        self.case = case
        self.kind = case["kind"]
        self.stack = "sync" if self.kind in SYNC_KINDS else "async"
        if case["stack"] != self.stack:
            raise RigTrouble(f"kind {self.kind} is a {self.stack} transport")
        self.marks, self.depth, self.in_hook, self.in_timeout, self.on_close_raised = [], 0, False, False, False
        self.tmpdir = tmpdir
        self.user_bio, self.log_path = None, None
        self.net = _Net()
        self.srv = servers()
        self.pids = []
        self.dead_seen = False
        kw = dict(host="127.0.0.1", port=self.srv.port(self.kind), transport=self.kind, auth_username="u",
                  auth_password="good" if case.get("auth", "good") == "good" else "bad", auth_strict_key=False,
                  timeout_socket=case.get("timeout_socket", 10), timeout_transport=case.get("timeout_transport", 20), timeout_ops=case.get("timeout_ops", 8),
                  auth_bypass=case.get("bypass", self.kind != "system"))
        if self.kind in ("telnet", "asynctelnet"):
            kw["auth_bypass"] = case.get("login") != "refuse"
        sink = case.get("sink", "none")
        if sink == "path":
            self.log_path = os.path.join(tmpdir, "channel.log")
            kw["channel_log"] = self.log_path
        elif sink == "true":
            kw["channel_log"] = True
        elif sink == "bytesio":
            self.user_bio = io.BytesIO()
            kw["channel_log"] = self.user_bio
        for which in ("on_open", "on_close"):
            h = case.get(which, "default")
            if h == "ok":
                kw[which] = self._user_hook(False)
            elif h == "raise":
                kw[which] = self._user_hook(True)
        if self.kind == "system":
            self._old_env = (os.environ.get("PATH", ""), os.environ.get("C11_CTL"))
            os.environ["PATH"] = self.srv.bindir + os.pathsep + self._old_env[0]
            os.environ["C11_CTL"] = self.srv.ctl
        self.conn = c11rig._driver_cls(case["platform"], self.stack)(**kw)
        for which in ("on_open", "on_close"):
            if case.get(which, "default") == "none":
                setattr(self.conn, which, None)
        self.t = self.conn.transport
        self.base_fds = fd_table()
        self.thr0 = threading.active_count()
        case.setdefault("stallmode", "real")
        self._instrument()

    # ---- faults: played by the device process, armed per operation through the control file
    def arm(self, fault):
        self.srv.gen = getattr(self.srv, "gen", 0) + 1
        c = dict(gen=self.srv.gen, neg=self.case.get("neg", 0), partial=self.case.get("partial", False), login=self.case.get("login"))
        if fault:
            if fault[0] == "die":
                c["die_after"] = fault[1]
            elif fault[0] == "hangup":
                c["die_after"] = fault[1]
                c["hangup"] = 1.2      # the child hangs up its terminal, exits 1.2 s later
            elif fault[0] == "silent":
                c["silent_after"] = fault[1]
            elif fault[0] == "rst":
                c["die_after"] = fault[1]
                c["rst"] = True
            elif fault[0] in ("refuse", "blackhole"):
                # nobody listens on / nobody ever accepts on the port this operation dials
                self._real_port = self.t._base_transport_args.port
                self.t._base_transport_args.port = self.srv.dead_port() if fault[0] == "refuse" else self.srv.blackhole_port()
        self.srv.set_ctl(**c)

    def disarm(self):
        if getattr(self, "_real_port", None) is not None:
            self.t._base_transport_args.port = self._real_port
            self._real_port = None

    def dispose(self):
        try:
            if getattr(self.t, "close", None):
                self.in_timeout = True
                try:
                    self.t.close()
                except Exception:
                    pass
            cl = getattr(self.conn.channel, "channel_log", None)
            if cl is not None and not cl.closed:
                cl.close()
        finally:
            if self.kind == "system":
                os.environ["PATH"] = self._old_env[0]
                if self._old_env[1] is None:
                    os.environ.pop("C11_CTL", None)
                else:
                    os.environ["C11_CTL"] = self._old_env[1]

    # ---- state
    def _handles(self):
        t = self.t
        if self.kind == "system":
            return t.session is not None, t.session is not None
        if self.kind == "telnet":
            return bool(t.socket), bool(t.socket)
        if self.kind == "asynctelnet":
            return t.stdout is not None, t.stdin is not None
        if self.kind == "paramiko":
            return t.session is not None, t.session_channel is not None
        return t.session is not None, t.stdin is not None

    def note_step_exception(self, exc):
        if exc is not None and type(exc).__name__ not in ("ScrapliTimeout", "ScrapliAuthenticationFailed"):
            self.dead_seen = True

    def usable(self):
        sess, chan = self._handles()
        return bool(sess and chan and not self.dead_seen)

    def mark(self, m):
        if m == "topen":
            self.dead_seen = False
        if self.kind == "system" and m != "topen" and getattr(self.t, "session", None) is not None:
            pid = getattr(self.t.session, "pid", None)
            if pid and pid not in self.pids:
                self.pids.append(pid)
        Rig.mark(self, m)

    def _os_resources(self):
        """OS level things of this connection that exist right now"""
        out = []
        for pid in self.pids:
            st = _pid_state(pid)
            if st is not None:
                out.append(f"child pid {pid} state {st}")
        now = fd_table()
        for fd, target in now.items():
            if fd in self.base_fds and self.base_fds[fd] == target:
                continue
            if target.startswith("socket:") or "/ptmx" in target or "/pts/" in target:
                out.append(f"fd {fd} -> {target}")
        return out

    def settle(self):
        # PtyProcess.close() and socket closes are synchronous; a paramiko worker thread needs a moment to notice
        if self.kind == "paramiko":
            t0 = time.time()
            sess, chan = self._handles()
            while not sess and time.time() - t0 < 3 and (self._os_resources() or threading.active_count() > self._thr0()):
                time.sleep(0.05)

    async def asettle(self):
        sess, chan = self._handles()
        t0 = time.time()
        await asyncio.sleep(0)
        while not sess and time.time() - t0 < 3 and self._os_resources():
            await asyncio.sleep(0.05)

    def _thr0(self):
        return getattr(self, "thr0", 1)

    def flags(self):
        import io
        ch = self.conn.channel.channel_log
        file_open = ch is not None and ch is not self.user_bio and not ch.closed
        sess, chan = self._handles()
        osr = self._os_resources()
        if self.kind == "system" and self.t.session is not None:
            pid = getattr(self.t.session, "pid", None)
            if pid and pid not in self.pids:
                self.pids.append(pid)
                osr = self._os_resources()
        return dict(sess=bool(sess), chan=bool(chan), os=bool(osr), os_detail=osr, alive=None, file=bool(file_open), att=ch is not None,
                    bio=bool(self.user_bio is not None and self.user_bio.closed), tn=None, isalive=bool(self.t.isalive()))


def derive_events_real(seg, kind):
    """one event for transport.open() and one per device-facing step that found the transport usable,
    classified by how the step ended"""
    evs, cur = [], None
    for x in seg:
        if x[0] == "mark":
            m, usable = x[1], x[2]
            if m == "topen":
                evs.append(["o", None]); cur = len(evs) - 1
            elif m.startswith("a:") or m.startswith("auth:") or m == "operate":
                if usable:
                    evs.append(["o", None]); cur = len(evs) - 1
                else:
                    cur = None
        elif x[0] == "topen-raised" and cur is not None:
            evs[cur][0] = "a" if (kind == "paramiko" and x[1] == "ScrapliAuthenticationFailed") else "r"
            cur = None
        elif x[0] == "stallfire" and cur is not None:
            evs[cur][0] = "s"       # the timeout decorator closed the transport during this step (whatever class finally surfaced)
            cur = None
        elif x[0] == "actend" and cur is not None and x[2] == "ScrapliAuthenticationFailed":
            evs[cur][0] = "a"       # the device refused the login during this step; the session is still there
            cur = None
        elif x[0] == "actend" and cur is not None:
            if x[2] == "ScrapliTimeout":
                # a ScrapliTimeout with no closing handler behind it (a handler's transport.close() is the "stallfire" above):
                # Settings.NO_TERMINATE_ON_TIMEOUT, or the transport read's own timeout (telnet socket timeout) -- nothing was closed
                evs[cur][0] = "k"
            elif x[2] is not None:
                evs[cur][0] = "d"
            cur = None
    return evs


def new_loop():
    """an event loop whose own descriptors (selector, self-pipe) and resolver thread (default executor, used by
    getaddrinfo) exist before any baseline is taken -- they belong to the loop, not to a connection"""
    loop = asyncio.new_event_loop()
    loop.run_until_complete(asyncio.sleep(0))
    loop.run_until_complete(loop.getaddrinfo("127.0.0.1", 9))
    return loop


def run_case(case, loop):
    factory = RealRig
    if case["stack"] == "sync":
        return c11rig.run_case_sync(case, factory)
    return loop.run_until_complete(c11rig.run_case_async(case, factory))


# ------------------------------------------------------------------ cases
def H(s):
    out = []
    for w in s.split():
        f = None
        if "!" in w:
            w, f = w.split("!")
            f = [{"d": "die", "s": "silent", "h": "hangup", "r": "rst", "c": "refuse", "b": "blackhole"}[f[0]], int(f[1:])]
        d = {"op": w.split(".")[0]}
        if "." in w:
            d["body"] = w.split(".")[1]
        if f:
            d["fault"] = f
        out.append(d)
    return out


def quick_cases():
    """the pty part that is cheap enough for every run: the ssh child exits / hangs up in the middle of an operation (the EOF
    is observed by a read), then close() / with-exit must have reaped it -- no process table entry, no pty descriptor"""
    mk = lambda plat, sink, bypass, sh: dict(stack="sync", platform=plat, kind="system", sink=sink, on_open="default", on_close="default",
                                             timeout_ops=15, bypass=bypass, ops=H(sh))
    tel = lambda kind, plat, sink, sh, **kw: dict(stack="sync" if kind == "telnet" else "async", platform=plat, kind=kind, sink=sink, on_open="default",
                                                 on_close="default", timeout_ops=8, neg=3, ops=H(sh), **kw)
    # real sockets whose peer is already gone when close() runs: refused connect inside with, reset mid-session, reset during login
    dead_peer = [tel("telnet", "generic", "path", "W.x!c0 W.x"), tel("telnet", "cisco_iosxe", "none", "O X!r1 C O X C"),
                 tel("telnet", "generic", "true", "W.x!r2 W", login="refuse", bypass=False), tel("asynctelnet", "generic", "path", "W.x!c0 W.x!r1 W.x")]
    # with-bodies ending in a ScrapliTimeout that closed nothing (telnet socket-read timeout: silent device, timeout_socket still armed
    # below the option limit; NO_TERMINATE_ON_TIMEOUT with the real timers), in user exceptions / a non-Exception / a cancellation
    endings = ending_cases(mk, tel)
    return dead_peer + endings + _rest_quick(mk)


def ending_cases(mk=None, tel=None):
    mk = mk or (lambda plat, sink, bypass, sh: dict(stack="sync", platform=plat, kind="system", sink=sink, on_open="default", on_close="default",
                                                    timeout_ops=15, bypass=bypass, ops=H(sh)))
    tel = tel or (lambda kind, plat, sink, sh, **kw: dict(stack="sync" if kind == "telnet" else "async", platform=plat, kind=kind, sink=sink,
                                                          on_open="default", on_close="default", timeout_ops=8, neg=3, ops=H(sh), **kw))
    return    [tel("telnet", "generic", "path", "W.x!s1 W.x", timeout_socket=0.4),
               {**tel("telnet", "generic", "true", "W.x!s1 W.x"), "no_terminate": True, "timeout_ops": 0.8, "timeout_socket": 1.5},
               {**tel("asynctelnet", "generic", "path", "W.x!s1 W.xZ"), "no_terminate": True, "timeout_ops": 0.8, "timeout_socket": 1.5},
               mk("generic", "path", True, "W.xT W.K W.x"), tel("asynctelnet", "arista_eos", "path", "W.xZ W.T W.x")]


def _rest_quick(mk):
    return [{**mk("cisco_iosxe", "path", False, "W.x W"), "login": "refuse"},     # ssh never lets us in: open() fails with the child + pty up
            mk("generic", "path", False, "O X!d1 C O X C"), mk("cisco_iosxe", "true", True, "W.x!d1 W.x"),
            mk("generic", "none", True, "O X!h1 C"), mk("arista_eos", "bytesio", False, "O X C C")]


def real_cases():
    cases = []
    shapes = ["O X C", "W.x", "O X C O X C", "W.x W.x", "O C C", "W.r O X C", "W.cox",
              "O X!d1 C O X C", "W.x!d1 W.x", "O X!s1 C O X C", "W.x!s1 W.x", "O!d1 C O X C", "W!d2 W.x", "W.xr!d1 O C", "O X C!d1 O X C"]
    plats = {"system": ["generic", "cisco_iosxe", "arista_eos"], "telnet": ["generic", "cisco_iosxe"], "asynctelnet": ["generic", "arista_eos"],
             "paramiko": ["generic", "cisco_nxos"], "asyncssh": ["generic", "cisco_iosxr"]}
    sinks = ["path", "none", "bytesio", "true"]
    i = 0
    for kind, pl in plats.items():
        stack = "sync" if kind in SYNC_KINDS else "async"
        for plat in pl:
            for sh in shapes:
                if plat != "generic" and sh in ("O C C", "W.cox", "W.r O X C"):
                    continue
                c = dict(stack=stack, platform=plat, kind=kind, sink=sinks[i % 4], on_open="default", on_close="default",
                         timeout_ops=1.5 if "!s" in sh or ("!d" in sh and kind in ("telnet", "asynctelnet", "paramiko")) else 8,
                         neg=[0, 3, 10][i % 3] if kind in ("telnet", "asynctelnet") else 0, partial=(i % 2 == 1) and kind in ("telnet", "asynctelnet"))
                if kind == "system":
                    c["bypass"] = (i % 2 == 0)
                i += 1
                c["ops"] = H(sh)
                cases.append(c)
    # the ssh child hangs up its terminal but lingers (system transport)
    for plat, sh in (("generic", "O X!h1 C O X C"), ("cisco_iosxe", "W.x!h1 W.x"), ("generic", "W.xr!h1 O C")):
        cases.append(dict(stack="sync", platform=plat, kind="system", sink=sinks[i % 4], on_open="default", on_close="default", timeout_ops=8,
                          bypass=(i % 2 == 0), ops=H(sh)))
        i += 1
    # the peer is already gone when close() runs: refused connect, connect that never gets an answer, reset mid-session, reset
    # during login, orderly FIN (the !d shapes above) -- both Telnet transports
    for kind in ("telnet", "asynctelnet"):
        for plat, sh, extra in (("generic", "W.x!c0 W.x", {}), ("cisco_iosxe", "O!c0 C O X C", {}), ("generic", "O X!r1 C O X C", {}),
                                ("cisco_iosxe", "W.x!r1 W.x", {}), ("arista_eos", "W!r2 W.x", {}), ("generic", "W.x!r2 W", dict(login="refuse", bypass=False)),
                                ("generic", "O X C!r1 O X C", {}), ("generic", "W.x!b0 W.x", dict(timeout_socket=1.0)),
                                ("cisco_iosxe", "O!b0 C O X C", dict(timeout_socket=1.0))):
            cases.append(dict(stack="sync" if kind in SYNC_KINDS else "async", platform=plat, kind=kind, sink=sinks[i % 4], on_open="default",
                              on_close="default", timeout_ops=8, neg=[0, 3][i % 2], ops=H(sh), **extra))
            i += 1
    # the device refuses the in-channel login: open() raises ScrapliAuthenticationFailed with the transport up
    for kind, plat, sh in (("system", "generic", "W.x W"), ("system", "arista_eos", "O C W.x"), ("telnet", "generic", "W.x O C"),
                           ("telnet", "cisco_iosxe", "W W.x"), ("asynctelnet", "generic", "W.x O C"), ("asynctelnet", "arista_eos", "W W.x")):
        cases.append(dict(stack="sync" if kind in SYNC_KINDS else "async", platform=plat, kind=kind, sink=sinks[i % 4], on_open="default",
                          on_close="default", timeout_ops=8, bypass=False, login="refuse", neg=3 if kind != "system" else 0, ops=H(sh)))
        i += 1
    # failure during open inside a with-block: wrong password (ssh transports), then the connection is used normally
    for kind in ("paramiko", "asyncssh"):
        stack = "sync" if kind in SYNC_KINDS else "async"
        cases.append(dict(stack=stack, platform="generic", kind=kind, sink="path", on_open="default", on_close="default", auth="bad", ops=H("W.x")))
        cases.append(dict(stack=stack, platform="cisco_iosxe", kind=kind, sink="none", on_open="default", on_close="default", auth="bad", ops=H("W O C")))
    cases += ending_cases()
    for kind in ("paramiko", "asyncssh"):
        stack = "sync" if kind in SYNC_KINDS else "async"
        cases.append(dict(stack=stack, platform="generic", kind=kind, sink="path", on_open="default", on_close="default", timeout_ops=8,
                          ops=H("W.xT W.xK W.x" if stack == "sync" else "W.xT W.xZ W.x")))
        cases.append(dict(stack=stack, platform="cisco_iosxe", kind=kind, sink="path", on_open="default", on_close="default", timeout_ops=1.0,
                          no_terminate=True, ops=H("W.x!s1 W.x")))
    return cases


def model_line_real(mod, case, results):
    hist = []
    for spec, res in zip(case["ops"], results):
        evs = derive_events_real(res["seg"], case["kind"])
        head = spec["op"] + ("." + spec["body"] if spec["op"] == "W" and spec.get("body") else "")
        hist.append(head + "/" + (",".join(e[0] for e in evs) if evs else "-"))
    sink = {"true": "path"}.get(case.get("sink", "none"), case.get("sink", "none"))
    bypass = case.get("bypass", case["kind"] != "system") or (case["kind"] in ("telnet", "asynctelnet") and case.get("login") != "refuse")
    return (f"run {case['stack']} {case['kind']} {case['kind']} {1 if bypass else 0} {sink} "
            f"{mod.hook_word(case, 'on_open')} {mod.hook_word(case, 'on_close')} src {';'.join(hist)}")


def compare_real(mod, case, results, model):
    """coarse correspondence: returns/raises, statements reached, handle / OS / log flags"""
    for i, (res, m) in enumerate(zip(results, model)):
        if (res["out"] == "ret") != (m["out"] == "ret"):
            return f"op {i} outcome impl={res['out']} model={m['out']}"
        if res["marks"] != m["trace"]:
            return f"op {i} statements reached impl={'>'.join(res['marks'])} model={'>'.join(m['trace'])}"
        for k in ("sess", "chan", "os", "file", "att", "bio"):
            if k in ("sess", "chan", "os") and case["kind"] in ("telnet", "asynctelnet") and m["flags"]["sess"] and not m["flags"]["alive"]:
                # a session that is dead but not yet closed: TelnetTransport's own handle test (Socket.__bool__ = isalive()) is False for
                # the dead socket it still holds; asyncio has already closed the descriptor of a reset connection itself
                continue
            if k == "os" and case["kind"] == "telnet" and case["ops"][i]["op"] == "O" and any(x[0] == "topen-raised" for x in res["seg"]):
                continue     # the never-connected socket object of a failed Socket.open() lives until close() drops the reference
            want = m["flags"][k] or (k == "os" and m["flags"]["orphan"])
            if bool(res["flags"][k]) != want:
                return f"op {i} flag {k} impl={res['flags'][k]} ({res['flags'].get('os_detail')}) model={want}"
        if m["left"]:
            return f"op {i}: model left {m['left']} environment events unconsumed"
    return None


def oracle_case(mod, ck, case, results, fresh):
    for kind, i, text, info in mod.oracle(case, results, fresh):
        res = results[i]
        res["auth_failed_in_open"] = case.get("auth") == "bad"
        m = mod.make_matcher(kind, i, info, results, case)
        vcase = dict(case=case, violation_kind=kind, op_index=i, outcomes=[r["out"] for r in results],
                     flags=[{k: v for k, v in r["flags"].items()} for r in results])
        ck.violation(vcase, text + (f" [{res['flags'].get('os_detail')}]" if res["flags"].get("os_detail") else ""), m)


def run_all(ck, mod, tier="thorough"):
    """every real case of the tier through the oracle and the (coarse) model correspondence"""
    from vlib.common import run_model
    import logging
    logging.getLogger("paramiko").addHandler(logging.NullHandler())     # its worker thread reports socket errors at close on stderr otherwise
    logging.getLogger("paramiko").propagate = False
    loop = new_loop()
    fresh_cache = {}
    batch = []
    t0 = time.time()
    try:
        cases = real_cases() if tier == "thorough" else quick_cases()
        for k in sorted({c["kind"] for c in cases} - {"system"}):
            servers().port(k)           # device processes (and their stdout pipes) exist before any fd baseline is taken
        if any(s.get("fault") and s["fault"][0] == "blackhole" for c in cases for s in c["ops"]):
            servers().blackhole_port()
        for case in cases:
            def fresh(specs, case=case):
                key = (json.dumps({k: v for k, v in case.items() if k != "ops"}, sort_keys=True), json.dumps(specs, sort_keys=True))
                if key not in fresh_cache:
                    c = dict(case); c["ops"] = [dict(s) for s in specs]
                    try:
                        fresh_cache[key] = [r["out"] for r in run_case(c, loop)]
                    except Exception:
                        fresh_cache[key] = None
                return fresh_cache[key]
            try:
                results = run_case(case, loop)
            except RigTrouble:
                raise
            except Exception as e:
                raise RigTrouble(f"real rig {case['kind']} failed outside scrapli: {e!r}") from e
            ck.case(mod.case_key(case), nontrivial=True,
                    sample={k: v for k, v in case.items() if k != "ops"} | {"ops": [mod.op_str(s) for s in case["ops"]]},
                    tags=("real-transport", f"kind={case['kind']}", f"stack={case['stack']}", f"platform={case['platform']}",
                          *("out=" + r["out"] for r in results)))
            oracle_case(mod, ck, case, results, fresh)
            batch.append((case, results))
        lines = [model_line_real(mod, c, r) for c, r in batch]
        out = run_model("C11", lines)
        for (case, results), line in zip(batch, out):
            if line == "bad-op":
                ck.disagree("Lifecycle model request (real rig)", {"case": case}, line)
                continue
            d = compare_real(mod, case, results, mod.parse_model(line))
            if d is None:
                ck.traces_validated += 1
            else:
                ck.disagree("Lifecycle model vs real transports", {"case": case, "outcomes": [r["out"] for r in results]}, d)
        ck.extra["real_transport_cases"] = len(batch)
        ck.extra["real_transport_s"] = round(time.time() - t0, 1)
    finally:
        loop.close()
        global SERVERS
        if SERVERS is not None:
            SERVERS.close()
            SERVERS = None


def replay(case, mod):
    loop = new_loop()
    try:
        if case["kind"] != "system":
            servers().port(case["kind"])
        results = run_case(case, loop)
        def fresh(specs):
            c = dict(case); c["ops"] = [dict(s) for s in specs]
            return [r["out"] for r in run_case(c, loop)]
        for r in results:
            r["auth_failed_in_open"] = case.get("auth") == "bad"
        bad = list(mod.oracle(case, results, fresh))
        for spec, res in zip(case["ops"], results):
            print(mod.op_str(spec), "->", res["out"], {k: res["flags"][k] for k in ("isalive", "sess", "chan", "os", "os_detail", "file", "fd_delta", "thr_delta")},
                  ">".join(res["marks"]))
        for b in bad:
            print("ORACLE:", b[0], "op", b[1], b[2])
        return 1 if bad else 0
    finally:
        loop.close()
        global SERVERS
        if SERVERS is not None:
            SERVERS.close()
            SERVERS = None
