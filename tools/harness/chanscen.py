"""Channel scenarios shared by C01 and C02: run the REAL driver/channel over SimTransport, record the
channel-level calls (incl. the ones made by on_open hooks) with their results, the per-write device
outputs and the cut list; build the equivalent request for the Lean model driver (Drv/C01.lean)."""
import asyncio
import re
from dataclasses import dataclass, field
from typing import Any, Dict, List, Optional, Tuple

from harness.simdevice import CliDevice
import random
from harness.simtransport import CutAt, CutList, SimStall, make_conn
from rx2lean import RxUnsupported, rx
from vlib.common import hexl, hexs


class ScenDevice(CliDevice):
    """CliDevice + interactive questions: `questions[cmd] = text` makes the device print `text` (no newline,
    no prompt) instead of executing `cmd`, and execute it (output + prompt) when the next line arrives."""

    def __init__(self, *a, questions: Optional[Dict[str, str]] = None, **kw):
        super().__init__(*a, **kw)
        self.questions = questions or {}
        self.initial_prompt = False
        self.asking: Optional[str] = None
        self.text_log: List[Tuple[str, Optional[str]]] = []   # (line, output text) for executed user lines

    def connect(self) -> bytes:
        return super().connect() if self.initial_prompt else self.banner

    junk = None

    def on_write(self, data: bytes) -> bytes:
        if self.junk is None:
            return super().on_write(data)
        out = bytearray()
        for b in data:
            if b == 0x0A:
                out += self._execute(bytes(self.linebuf))
                self.linebuf.clear()
            elif b == 0x0D:
                continue
            else:
                self.linebuf.append(b)
                if self.echo and self.pending is None:
                    out += self.junk.echo(b)
        return bytes(out)

    withhold = None      # (command, n): print only the first n bytes of that command's response, keep the rest until release()
    withheld = b""

    def _execute(self, raw: bytes) -> bytes:
        out = self._execute_inner(raw)
        if self.withhold is not None and raw.decode("utf-8", "replace").strip() == self.withhold[0]:
            n = self.withhold[1]
            tail = self.withhold[2] if len(self.withhold) > 2 else b""
            self.withhold = None
            self.withheld, out = out[n:], out[:n] + tail      # tail: e.g. the beginning of an escape sequence the device never completes
        return out

    def new_session(self):
        """the connection was dropped and a new one is being made: nothing of the old session is pending"""
        self.linebuf.clear()
        self.withheld, self.withhold, self.asking = b"", None, None

    def release(self) -> bytes:
        """the device resumes printing what it had withheld"""
        out, self.withheld = self.withheld, b""
        return out

    def _execute_inner(self, raw: bytes) -> bytes:
        line = raw.decode("utf-8", "replace")
        if self.asking is not None:
            cmd, idx = self.asking
            qs = self.questions[cmd]
            qs = qs if isinstance(qs, list) else [qs]
            if idx + 1 < len(qs):          # next question of the dialogue
                self.asking = (cmd, idx + 1)
                return self.nl + qs[idx + 1].encode()
            self.asking = None
            text = self.outputs(self.mode_name(), cmd) if self.outputs else None
            self.text_log.append((cmd, text))
            return self._frame(text)
        if self.pending is None and line.strip() in self.questions:
            cmd = line.strip()
            qs = self.questions[cmd]
            qs = qs if isinstance(qs, list) else [qs]
            self.asking = (cmd, 0)
            self.exec_log.append((self.mode_name(), line))
            return self.nl + qs[0].encode()
        if self.pending is None:
            mode = self.mode_name()
            text = None
            if (self._base_mode(), line.strip()) not in self.moves and self.outputs and line.strip() not in self.fail_lines:
                text = self.outputs(mode, line)
            self.text_log.append((line, text))
        return super()._execute(raw)


@dataclass
class Scenario:
    platform: str = "cisco_iosxe"
    stack: str = "sync"
    hostname: str = "r1"
    user: str = "admin"
    nl: bytes = b"\n"
    trailing: Optional[str] = None
    ret: str = "\n"
    rough: bool = False
    depth: Optional[int] = None
    outputs: Dict[str, str] = field(default_factory=dict)      # command -> output text
    questions: Dict[str, str] = field(default_factory=dict)
    cuts: List[int] = field(default_factory=list)               # read sizes; exhausted => whole buffer
    ops: List[tuple] = field(default_factory=list)
    # ops: ("get_prompt",) | ("send_command", cmd, strip_prompt, eager_input) | ("send_commands", [cmds], strip)
    #      | ("send_interactive", [(input, expect, hidden)], complete_patterns or None)
    #      | ("send_and_read", cmd, [expected outputs], strip_prompt)   (timed read loop; transport timeouts are swallowed)
    prompts: Optional[Dict[str, str]] = None    # device prompt templates overriding the platform's (e.g. Junos banner line)
    initial_prompt: bool = False  # device prints its prompt at connect (as after a library-transport login); default: session starts in step
    decor: Optional[dict] = None  # {"kind": "cr"|"ansi"|"ansi+cr", "seed": n, "p": density} applied to every device output
    echo_junk: Optional[dict] = None   # rough mode: {"seed": n} extra bytes the device interleaves with the echoed input
    cut_at: Optional[List[int]] = None  # cut the global output stream exactly at these absolute offsets (overrides cuts)
    banner: bytes = b""
    commandeer: bool = False     # a GenericDriver opens the connection, the platform driver takes it over with commandeer()
    pauses: Optional[List[int]] = None   # absolute offsets of the output stream at which the line goes quiet for a whole transport timeout

    def describe(self):
        d = {k: getattr(self, k) for k in ("platform", "stack", "hostname", "user", "ret", "rough", "depth", "cuts", "ops", "outputs", "questions", "trailing", "initial_prompt", "decor", "echo_junk", "cut_at", "prompts", "commandeer", "pauses")}
        d["nl"] = self.nl.decode("latin1")
        d["cuts"] = cuts_wire(self.cuts)
        d["banner"] = self.banner.decode("latin1")
        return d

    @staticmethod
    def from_dict(d):
        d = dict(d)
        d["nl"] = d.get("nl", "\n").encode("latin1")
        d["banner"] = d.get("banner", "").encode("latin1")
        d["ops"] = [tuple(o) for o in d["ops"]]
        if isinstance(d.get("cuts"), str):
            d["cuts"] = cuts_parse(d["cuts"])
        return Scenario(**d)


@dataclass
class RunResult:
    chan_calls: List[tuple] = field(default_factory=list)     # (name, args, result | ("EXC", cls))
    op_results: List[Any] = field(default_factory=list)       # per driver-level op
    writes: List[bytes] = field(default_factory=list)
    dev_outputs: List[bytes] = field(default_factory=list)
    init_avail: bytes = b""
    unread: bytes = b""
    abandoned: int = 0
    reads: List[bytes] = field(default_factory=list)
    device: Any = None
    conn: Any = None
    unread_before: List[bytes] = field(default_factory=list)   # transport bytes unread when each driver-level op started
    writes_before: List[int] = field(default_factory=list)     # number of transport writes made when each driver-level op started
    stalled: bool = False
    error: Optional[str] = None
    prompt_pattern: str = ""
    decorator: Any = None


SEQS = [b"\x1b[0m", b"\x1b[1;31m", b"\x1b[K", b"\x1b[2J", b"\x1b[?25h", b"\x1b7", b"\x1b8", b"\x1bM", b"\x1bE", b"\x1b]0;r1 title\x07", b"\x1b[1C",
        b"\x1b[38;5;196m", b"\x1b]2;x\x07"]


class Decorator:
    """inserts CRs and/or complete escape sequences at character boundaries of device output; remembers the spans
    (absolute offsets in the global output stream) that a read boundary must not fall strictly inside"""

    def __init__(self, spec):
        self.spec = spec
        self.rng = random.Random(spec.get("seed", 0))
        self.offset = 0
        self.spans = []     # (start, end) absolute offsets of inserted escape sequences

    def __call__(self, data: bytes) -> bytes:
        kind, p = self.spec["kind"], self.spec.get("p", 0.15)
        out = bytearray()
        for i in range(len(data) + 1):
            if data and self.rng.random() < p:
                if "ansi" in kind and ("cr" not in kind or self.rng.random() < 0.6):
                    s = self.rng.choice(SEQS)
                    self.spans.append((self.offset + len(out), self.offset + len(out) + len(s)))
                    out += s
                elif "cr" in kind:
                    out += b"\r" * self.rng.choice([1, 1, 2])
            if i < len(data):
                out.append(data[i])
        self.offset += len(out)
        return bytes(out)

    def inside_span(self, off):
        return any(a < off < b for a, b in self.spans)


class _JunkEcho:
    """rough-mode device echo: extra bytes BEFORE each echoed byte (never after the last one)"""

    def __init__(self, spec):
        self.rng = random.Random(spec.get("seed", 0))
        self.alphabet = spec.get("alphabet", "\x08 ~^")

    def echo(self, b: int) -> bytes:
        if b in b" \t":
            return bytes([b])       # junk never follows the last visible byte: blanks are echoed clean
        n = self.rng.choice([0, 0, 1, 2])
        return "".join(self.rng.choice(self.alphabet) for _ in range(n)).encode() + bytes([b])


class _NullDevice:
    """device of a driver object that never opens its own transport"""

    def connect(self):
        return b""

    def on_write(self, data):
        return b""


class _Recorder:
    """what the transport actually receives from the device (after optional decoration)"""

    def __init__(self, dev, fn=None):
        self._dev, self._fn = dev, fn
        self.init_out = b""
        self.outs = []

    def __getattr__(self, n):
        return getattr(self._dev, n)

    def connect(self):
        out = self._dev.connect()
        self.init_out = self._fn(out) if self._fn else out
        return self.init_out

    def on_write(self, data):
        out = self._dev.on_write(data)
        out = self._fn(out) if self._fn else out
        self.outs.append(out)
        return out


def _wrap_channel(conn, log, is_async):
    ch = conn.channel
    def _nw():
        return getattr(conn.transport, "nwrites", 0)
    for name in ("get_prompt", "send_input", "send_inputs_interact", "send_input_and_read"):
        orig = getattr(ch, name)
        if is_async:
            def mk(orig=orig, name=name):
                async def w(*a, **kw):
                    lkw = dict(kw, _nw=_nw())
                    try:
                        r = await orig(*a, **kw)
                    except BaseException as e:
                        log.append((name, a, lkw, ("EXC", type(e).__name__)))
                        raise
                    log.append((name, a, lkw, r))
                    return r
                return w
        else:
            def mk(orig=orig, name=name):
                def w(*a, **kw):
                    lkw = dict(kw, _nw=_nw())
                    try:
                        r = orig(*a, **kw)
                    except BaseException as e:
                        log.append((name, a, lkw, ("EXC", type(e).__name__)))
                        raise
                    log.append((name, a, lkw, r))
                    return r
                return w
        setattr(ch, name, mk())

    # the driver layer (`send_commands`: loop, failed_when_contains, stop_on_failed): the `send_input` calls its loop made are folded
    # into ONE entry, replayed on the model's `sendCommands`; what ran before the loop (privilege acquisition) stays channel-level
    orig_sc = conn.send_commands

    def fold(a, kw, r):
        cmds = kw.get("commands", a[0] if a else None)
        n = len(r)
        if (not isinstance(cmds, list) or not cmds or n == 0 or kw.get("eager") or kw.get("eager_input") or len(log) < n
                or any(e[0] != "send_input" or (isinstance(e[3], tuple) and e[3] and e[3][0] == "EXC") for e in log[-n:])):
            return
        inner = log[-n:]
        if [e[2].get("channel_input", e[1][0] if e[1] else None) for e in inner] != cmds[:n]:
            return
        del log[-n:]
        fwc = r[0].failed_when_contains or []
        log.append(("send_commands", (), {"commands": list(cmds), "strip_prompt": kw.get("strip_prompt", True),
                                          "stop_on_failed": kw.get("stop_on_failed", False), "fwc": list(fwc), "_nw": inner[0][2].get("_nw", 0)},
                    [(e[3][1], x.failed) for e, x in zip(inner, r)]))      # processed bytes of the channel call, flag of the Response
    if is_async:
        async def sc_w(*a, **kw):
            r = await orig_sc(*a, **kw)
            fold(a, kw, r)
            return r
    else:
        def sc_w(*a, **kw):
            r = orig_sc(*a, **kw)
            fold(a, kw, r)
            return r
    conn.send_commands = sc_w


def run_real(sc: Scenario) -> RunResult:
    """drive the real driver; never raises (records)"""
    res = RunResult()
    dev = ScenDevice(sc.platform if sc.platform != "generic" else "generic", hostname=sc.hostname, user=sc.user, nl=sc.nl,
                     trailing=sc.trailing, outputs=lambda mode, line: sc.outputs.get(line.strip()), questions=sc.questions,
                     banner=sc.banner, prompts=sc.prompts)
    dev.initial_prompt = sc.initial_prompt
    res.device = dev
    decorator = Decorator(sc.decor) if sc.decor else None
    if sc.echo_junk:
        dev.junk = _JunkEcho(sc.echo_junk)
    wired = _Recorder(dev, decorator)
    res.decorator = decorator
    kw = dict(comms_return_char=sc.ret, comms_roughly_match_inputs=sc.rough)
    cuts = CutAt(sc.cut_at) if sc.cut_at is not None else CutList(sc.cuts)
    first = None
    if sc.commandeer:
        # a GenericDriver makes the connection (console server style); the platform driver takes its transport over
        first, t = make_conn("generic", wired, stack=sc.stack, cuts=cuts, **kw)
        conn, _unused = make_conn(sc.platform, _NullDevice(), stack=sc.stack, **kw)
    else:
        conn, t = make_conn(sc.platform, wired, stack=sc.stack, cuts=cuts, **kw)
    if sc.depth is not None:
        conn.comms_prompt_search_depth = sc.depth
    if sc.pauses:
        t.pauses = set(sc.pauses)
    res.conn = conn
    _wrap_channel(conn, res.chan_calls, sc.stack == "async")

    def rec(r):
        if hasattr(r, "data"):
            return [(x.result, x.raw_result, x.failed, x.channel_input) for x in r]
        if hasattr(r, "raw_result"):
            return (r.result, r.raw_result, r.failed, r.channel_input)
        return r

    def reopen():
        """what happens after an operation timed out: the timeout handler closed the TRANSPORT (not the channel); the user calls
        open() again on the same object; the device starts a new session and prints its prompt at once"""
        conn.transport.close()
        dev.new_session()
        dev.initial_prompt = True
        t.buf.clear()
        # the new session shows its prompt at once; an on_open would ask for a second one and leave it unread in front of the next
        # get_prompt (a session out of step is outside the quantifier), so the re-opened connection has none -- the session is
        # already prepared as far as the simulated device is concerned
        conn.on_open = None

    def set_pattern():
        """the user narrows the prompt pattern of the open connection (public setter) to exactly the prompt the device shows: from
        now on lines that only the OLD pattern accepted are ordinary output"""
        conn.comms_prompt_pattern = "^" + re.escape(dev.prompt().replace(b"\r", b"").decode().strip()) + r"\s*$"
        res.op_results.append(("PATTERN", b"", False, ""))

    def abandoned(op):
        """the operation was given up while the device was silent in the middle of its output (a timeout with the connection
        kept, a cancelled task): the device then prints the rest; the NEXT operations must be exact again"""
        extra = dev.release()
        t.buf += decorator(extra) if decorator else extra
        res.abandoned += 1
        return ("ABANDONED", b"", False, op[1])

    async def go_async():
        if first is not None:
            await first.open()
            await conn.commandeer(first, execute_on_open=True)
        else:
            await conn.open()
        for op in sc.ops:
            res.unread_before.append(bytes(t.buf))
            res.writes_before.append(t.nwrites)
            if op[0] == "reopen":
                reopen()
                await conn.open()
                res.op_results.append(("REOPENED", b"", False, ""))
                continue
            if op[0] == "set_pattern":
                set_pattern()
                continue
            if op[0] == "abandon":
                dev.withhold = (op[1].strip(), op[2], *((op[3].encode("latin1"),) if len(op) > 3 else ()))
                try:
                    await conn.send_command(op[1])
                except SimStall:
                    res.op_results.append(abandoned(op))
                    continue
                res.op_results.append(("NOT-ABANDONED", b"", False, op[1]))
                continue
            res.op_results.append(rec(await _do(conn, op, True)))

    def go_sync():
        if first is not None:
            first.open()
            conn.commandeer(first, execute_on_open=True)
        else:
            conn.open()
        for op in sc.ops:
            res.unread_before.append(bytes(t.buf))
            res.writes_before.append(t.nwrites)
            if op[0] == "reopen":
                reopen()
                conn.open()
                res.op_results.append(("REOPENED", b"", False, ""))
                continue
            if op[0] == "set_pattern":
                set_pattern()
                continue
            if op[0] == "abandon":
                dev.withhold = (op[1].strip(), op[2], *((op[3].encode("latin1"),) if len(op) > 3 else ()))
                try:
                    conn.send_command(op[1])
                except SimStall:
                    res.op_results.append(abandoned(op))
                    continue
                res.op_results.append(("NOT-ABANDONED", b"", False, op[1]))
                continue
            res.op_results.append(rec(_do(conn, op, False)))

    try:
        if sc.stack == "async":
            asyncio.run(go_async())
        else:
            go_sync()
    except SimStall:
        res.stalled = True
    except Exception as e:  # scrapli exception or harness bug: recorded, judged by the caller
        res.error = f"{type(e).__name__}: {e}"
    res.writes = [x[1] for x in t.trace if x[0] == "W"]
    res.reads = [x[1] for x in t.trace if x[0] == "R"]
    res.dev_outputs = list(wired.outs)
    res.init_avail = wired.init_out
    res.unread = bytes(t.buf)
    res.prompt_pattern = conn.channel._base_channel_args.comms_prompt_pattern
    return res


class _FakeTime:
    """stands in for the `time` module inside the channel module for ONE timed read: the duration is found exceeded in the iteration
    after `k` more (call 1 = `start = time.time()`, call n+1 = the test of iteration n)"""

    def __init__(self, k, real):
        self.k, self.calls, self.real = k, 0, real

    def time(self):
        self.calls += 1
        return 0.0 if self.calls <= self.k + 1 else 1.0e9

    def __getattr__(self, n):
        return getattr(self.real, n)


def _send_and_read_clocked(conn, op, is_async):
    import importlib
    mod = importlib.import_module(type(conn.channel).__module__)
    fake = _FakeTime(op[4], mod.time)
    if is_async:
        async def go():
            mod.time = fake
            try:
                return await conn.send_and_read(op[1], expected_outputs=list(op[2]), strip_prompt=op[3], read_duration=100000)
            finally:
                mod.time = fake.real
        return go()
    mod.time = fake
    try:
        return conn.send_and_read(op[1], expected_outputs=list(op[2]), strip_prompt=op[3], read_duration=100000)
    finally:
        mod.time = fake.real


def _do(conn, op, is_async):
    k = op[0]
    if k == "get_prompt":
        return conn.get_prompt()
    if k == "send_command":
        return conn.send_command(op[1], strip_prompt=op[2], eager_input=op[3] if len(op) > 3 else False)
    if k == "send_commands":
        if len(op) > 4:
            return conn.send_commands(list(op[1]), strip_prompt=op[2], stop_on_failed=op[3], failed_when_contains=list(op[4]))
        return conn.send_commands(list(op[1]), strip_prompt=op[2])
    if k == "send_and_read":
        if len(op) > 4 and op[4] is not None:
            return _send_and_read_clocked(conn, op, is_async)
        return conn.send_and_read(op[1], expected_outputs=list(op[2]), strip_prompt=op[3], read_duration=100000)
    if k == "send_interactive":
        comp = op[2]
        if comp is not None and len(op) > 3 and op[3] is not None:
            # the caller re-uses ONE list object for several calls (keyed by op[3])
            shared = conn.__dict__.setdefault("_verif_shared_lists", {})
            comp = shared.setdefault(op[3], list(comp))
        elif comp is not None:
            comp = list(comp)
        return conn.send_interactive([tuple(e) for e in op[1]], interaction_complete_patterns=comp)
    raise ValueError(op)


def cuts_wire(cuts):
    if not cuts:
        return "."
    out, i = [], 0
    while i < len(cuts):
        j = i
        while j < len(cuts) and cuts[j] == cuts[i]:
            j += 1
        out.append(f"{cuts[i]}*{j - i}" if j - i > 1 else str(cuts[i]))
        i = j
    return ",".join(out)


def cuts_parse(s):
    if s == ".":
        return []
    out = []
    for t in s.split(","):
        if "*" in t:
            n, k = t.split("*")
            out += [int(n)] * int(k)
        else:
            out.append(int(t))
    return out


def model_request(sc: Scenario, res: RunResult) -> Optional[str]:
    """the Lean request replaying the recorded channel-level calls on the model with a scripted device"""
    flags = re.M | re.I
    try:
        prx = rx(res.prompt_pattern.encode(), flags)
    except RxUnsupported:
        return None
    if sc.commandeer or any(op[0] in ("reopen", "set_pattern") for op in sc.ops):
        return None      # two driver objects / two sessions on one object: judged by the oracle
    if res.abandoned:
        return None      # an operation given up midway: judged by the oracle on the following operations, not replayed on the model
    ops, table = [], {}
    for name, a, kw, _r in res.chan_calls:
        if name == "get_prompt":
            ops.append("gp")
        elif name == "send_input":
            ci = kw.get("channel_input", a[0] if a else "")
            fl = "".join("1" if kw.get(k, d) else "0" for k, d in (("strip_prompt", True), ("eager", False), ("eager_input", False)))
            ops.append(f"si:{hexs(ci.encode())}:{fl}")
        elif name == "send_commands":
            ops.append(f"sc:{'1' if kw['strip_prompt'] else '0'}{'1' if kw['stop_on_failed'] else '0'}:{hexl([m.encode() for m in kw['fwc']])}:"
                       f"{hexl([c.encode() for c in kw['commands']])}")
        elif name == "send_input_and_read":
            # the timed read loop: expected outputs, the compiled `_join_and_compile(outputs)` pattern, and which iterations of the
            # loop had their transport read time out (trace events between the return of this call and the next write)
            ci = kw.get("channel_input", a[0] if a else "")
            outs = [o.encode() for o in (kw.get("expected_outputs") or [])]
            orx = "."
            if outs:
                try:
                    orx = rx(b"|".join(b"(" + o + b")" for o in outs), flags)
                except RxUnsupported:
                    return None
            trace, nw, seen, pz = res.conn.transport.trace, kw.get("_nw", 0), 0, []
            for ev in trace:
                if ev[0] == "W":
                    seen += 1
                    if seen > nw + 2:
                        break
                elif seen == nw + 2 and ev[0] in ("R", "pause"):
                    pz.append("1" if ev[0] == "pause" else "0")
            clk = next((op[4] for op in sc.ops if op[0] == "send_and_read" and op[1] == ci and len(op) > 4 and op[4] is not None), None)
            ops.append(f"sar:{hexs(ci.encode())}:{'1' if kw.get('strip_prompt', True) else '0'}:{hexl(outs)}:{orx}:{''.join(pz) or '.'}"
                       + (f":{clk}" if clk is not None else ""))
        else:
            evs = kw.get("interact_events", a[0] if a else [])
            comp = kw.get("interaction_complete_patterns") or []
            parts = []
            for ev in evs:
                hidden = bool(ev[2]) if len(ev) > 2 else False
                parts.append(f"{hexs(ev[0].encode())}/{hexs(ev[1].encode())}/{'1' if hidden else '0'}")
                for pr in [ev[1], *comp]:
                    b = pr.encode()
                    if b.startswith(b"^") and b.endswith(b"$"):
                        try:
                            table[b] = rx(b, flags)
                        except RxUnsupported:
                            return None
            if not parts:
                return None
            ops.append(f"ii:{'+'.join(parts)}:{hexl([c.encode() for c in comp])}")
    if not ops:
        return None
    init = res.init_avail
    cuts_used = [len(x) for x in res.reads]       # the sizes the real reads had: the same segmentation for the model
    tbl = "|".join(f"{hexs(k)}={v}" for k, v in table.items()) or "."
    depth = res.conn.channel._base_channel_args.comms_prompt_search_depth
    return (f"scen {prx} {depth} {hexs(sc.ret.encode())} {'1' if sc.rough else '0'} {cuts_wire(cuts_used + [1000000])} {hexs(init)} "
            f"{hexl(res.dev_outputs)} {tbl} {';'.join(ops)}")


def real_reply(res: RunResult) -> str:
    """the real run rendered in the model driver's reply format"""
    parts = []
    for name, a, kw, r in res.chan_calls:
        if isinstance(r, tuple) and r and r[0] == "EXC":
            parts.append("stall" if r[1] == "SimStall" else f"exc:{r[1]}")
            break
        if name == "get_prompt":
            parts.append(f"gp={hexs(r.encode())}")
        elif name == "send_input":
            parts.append(f"si={hexs(r[0])},{hexs(r[1])}")
        elif name == "send_commands":
            parts.append("sc=" + ",".join(f"{hexs(x[0])}/{'1' if x[1] else '0'}" for x in r))
        elif name == "send_input_and_read":
            parts.append(f"sar={hexs(r[0])},{hexs(r[1])}")
        else:
            parts.append(f"ii={hexs(r[0])},{hexs(r[1])}")
    held = getattr(res.conn.channel, "_ansi_held", b"")     # beginning of an escape sequence cut by the last read (fix 'strip ansi across reads')
    return f"{';'.join(parts)} W={hexl(res.writes)} A={hexs(res.unread)} H={hexs(held)}"


def normalize(text: bytes) -> bytes:
    """the property's own statement of a result: trailing whitespace of each line and surrounding blank lines trimmed"""
    lines = [ln.rstrip(b" \t\r\x0b\x0c") for ln in text.replace(b"\r", b"").split(b"\n")]
    while lines and not lines[0]:
        lines.pop(0)
    while lines and not lines[-1]:
        lines.pop()
    return b"\n".join(lines)
