#!/usr/bin/env python3
"""C11 real-transport rigs: the device side, always a SEPARATE process so that the checker's own fd table,
children and threads only contain what scrapli created.

  c11_fakedev.py ssh-tty                   plays a device on its controlling tty (exec'ed through a script named `ssh`)
  c11_fakedev.py telnet-server  CTL        loopback TCP server; prints its port on stdout
  c11_fakedev.py ssh-server     CTL        loopback asyncssh server; prints its port on stdout

Per session the behaviour is read from the JSON control file CTL (env C11_CTL for ssh-tty):
  {"neg": n, "partial": bool, "die_after": k|null, "silent_after": k|null, "hangup": seconds|null (ssh-tty: close the tty, exit later),
   "rst": bool (telnet-server: die = reset the connection instead of an orderly FIN),
   "login": "refuse"|null (ssh-tty / telnet-server: ask for the password / login name for ever)}
die_after / silent_after count received lines of the session."""
import json, os, sys, time

PROMPT = b"r1#"
IAC, DO = 255, 253


def ctl(path):
    try:
        return json.load(open(path))
    except Exception:
        return {}


class Ctl:
    """the control file is re-read on every received line; line counts restart whenever its generation changes"""

    def __init__(self, path):
        self.path = path
        self.c = ctl(path)
        self.n = 0

    def line(self):
        c = ctl(self.path)
        if c.get("gen") != self.c.get("gen"):
            self.c, self.n = c, 0
        self.n += 1
        if self.c.get("die_after") is not None and self.n >= self.c["die_after"]:
            return "die"
        if self.c.get("silent_after") is not None and self.n >= self.c["silent_after"]:
            return "silent"
        return "ok"


def log_session(path, what):
    try:
        with open(path + ".log", "a") as f:
            f.write(what + "\n")
    except Exception:
        pass


def ssh_tty():
    """the pty echoes what is typed (canonical mode): we only print newline-terminated output and the prompt"""
    c = Ctl(os.environ.get("C11_CTL", ""))
    log_session(os.environ.get("C11_CTL", "/tmp/c11ctl"), f"tty-session pid={os.getpid()} argv={sys.argv[1:]}")
    out = sys.stdout.buffer
    if c.c.get("login") == "refuse":
        # an ssh that is never let in: password prompt, "Permission denied", password prompt, ...
        out.write(b"u@fake's password: ")
        out.flush()
        while sys.stdin.buffer.readline():
            out.write(b"\nPermission denied, please try again.\nu@fake's password: ")
            out.flush()
        return
    out.write(PROMPT)
    out.flush()
    while True:
        line = sys.stdin.buffer.readline()
        if not line:
            return
        what = c.line()
        if what == "die":
            if c.c.get("hangup"):
                # hang up the terminal (the peer's next read sees EOF) but linger for a while before exiting
                for fd in (0, 1, 2):
                    try:
                        os.close(fd)
                    except OSError:
                        pass
                time.sleep(float(c.c["hangup"]))
                os._exit(0)
            return
        if what == "silent":
            time.sleep(3600)
        if line.strip() == b"exit":
            return
        # (the newline typed by the peer was echoed by the tty when it was typed, possibly before our first prompt)
        out.write(b"\n" + PROMPT)
        out.flush()


def telnet_server(ctl_path):
    import socket, threading
    srv = socket.socket()
    srv.setsockopt(socket.SOL_SOCKET, socket.SO_REUSEADDR, 1)
    srv.bind(("127.0.0.1", 0))
    srv.listen(16)
    print(srv.getsockname()[1], flush=True)

    def session(conn):
        c = Ctl(ctl_path)
        log_session(ctl_path, "telnet-session")
        try:
            refuse = c.c.get("login") == "refuse"
            conn.sendall(b"".join(bytes([IAC, DO, 1 + i % 40]) for i in range(c.c.get("neg", 0))) + (b"login: " if refuse else PROMPT))
            line = bytearray()
            silent = False
            while True:
                data = conn.recv(4096)
                if not data:
                    return
                out = bytearray()
                i = 0
                while i < len(data):
                    b = data[i]
                    if b == IAC:
                        i += 3          # option replies are not terminal input
                        continue
                    i += 1
                    if b == 0x0D:
                        continue
                    if b != 0x0A:
                        line.append(b)
                        out.append(b)
                        continue
                    what = c.line()
                    if what == "die" and c.c.get("rst"):
                        # reset the connection: the client's socket is DEAD (send/recv fail) when its close() runs
                        import struct
                        conn.setsockopt(socket.SOL_SOCKET, socket.SO_LINGER, struct.pack("ii", 1, 0))
                        return
                    if what == "die":
                        if c.c.get("partial"):
                            conn.sendall(bytes([IAC, DO]))
                        conn.shutdown(socket.SHUT_WR)     # EOF to the client; keep reading until it closes
                        while conn.recv(4096):
                            pass
                        return
                    silent = what == "silent"
                    if bytes(line).strip() == b"exit":
                        return
                    line.clear()
                    out += b"\n" + (b"Login incorrect\nlogin: " if refuse else PROMPT)
                if not silent and out:
                    conn.sendall(bytes(out))
        except OSError:
            pass
        finally:
            conn.close()

    while True:
        conn, _ = srv.accept()
        threading.Thread(target=session, args=(conn,), daemon=True).start()


def ssh_server(ctl_path):
    import asyncio, asyncssh

    class Srv(asyncssh.SSHServer):
        def begin_auth(self, username):
            return True

        def password_auth_supported(self):
            return True

        def validate_password(self, username, password):
            return password == "good"

    async def handle(process):
        c = Ctl(ctl_path)
        log_session(ctl_path, "ssh-session")
        process.stdout.write("r1#")
        try:
            async for line in process.stdin:
                what = c.line()
                if what == "die":
                    break
                if what == "silent":
                    await asyncio.sleep(3600)
                if line.strip() == "exit":
                    break
                process.stdout.write("r1#")
        except Exception:
            pass
        process.exit(0)

    async def main():
        key = asyncssh.generate_private_key("ssh-rsa")
        s = await asyncssh.create_server(Srv, "127.0.0.1", 0, server_host_keys=[key], process_factory=handle, encoding="utf-8")
        print(s.sockets[0].getsockname()[1], flush=True)
        await asyncio.Event().wait()

    asyncio.run(main())


if __name__ == "__main__":
    mode = sys.argv[1]
    if mode == "ssh-tty":
        ssh_tty()
    elif mode == "telnet-server":
        telnet_server(sys.argv[2])
    elif mode == "ssh-server":
        ssh_server(sys.argv[2])
