#!/usr/bin/env python3
"""C19, timed family: ONE scenario per process (the parent kills the process at a hard limit).

Real threads, the real threading.Lock (channel_lock=True), the real timeout decorator with a small timeout_ops, a
sim transport whose read BLOCKS on an empty buffer until close() wakes it (like the socket/pty transports).  One
caller's operation meets a device that goes silent, so it has to end by ScrapliTimeout; other callers are queued on
the channel lock meanwhile; afterwards the connection is re-opened and used by two fresh callers.
Callers are never the main thread, so the thread-pool timeout mechanism is what runs (also selected by naming the
transport class SystemTransport).  The main thread only starts threads and joins them with a deadline, then prints
one JSON object and leaves with os._exit (blocked daemon/pool threads must not keep the process).

usage: c19_timed.py '<scenario json>'
scenario: {"tname": "SimTransport"|"SystemTransport", "timeout_ops": 0.3, "slack": 8.0,
           "hung": ["si"|"sir"|"gp"|"int", "echo"|"output"], "queued": [["gp"], ["si"], ...], "queued_first": bool}"""
import json, os, sys, threading, time
from pathlib import Path

sys.path.insert(0, str(Path(__file__).resolve().parents[1]))
from vlib import common  # noqa: E402

common.use_repo()
from scrapli.exceptions import ScrapliException  # noqa: E402

from harness.simdevice import CliDevice  # noqa: E402
from harness.simtransport import SimTransport, make_conn, named  # noqa: E402

PROMPT = "r1#"
MARK = "show silent"
T_BIG = 600.0      # timeout_ops of operations that are not meant to time out in the scenario (still through the decorator)


class ArgsProxy:
    """stands in for `channel._base_channel_args`: `timeout_ops` depends on the THREAD that reads it.  The timeout decorator
    reads it in the thread that called the operation, so every caller has its own timeout by construction (no sleeps, no
    ordering assumptions); everything else is the real object"""

    def __init__(self, real, table, default):
        object.__setattr__(self, "_real", real)
        object.__setattr__(self, "_table", table)
        object.__setattr__(self, "_default", default)

    @property
    def timeout_ops(self):
        try:
            import asyncio
            task = asyncio.current_task()
        except RuntimeError:
            task = None
        key = task.get_name() if task is not None else threading.current_thread().name
        return self._table.get(key, self._default)

    def __getattr__(self, name):
        return getattr(self._real, name)

    def __setattr__(self, name, value):
        setattr(self._real, name, value)


class TimedTransport(SimTransport):
    """blocking reads; can make the device go silent at a chosen point of one operation; tags the trace with the thread"""

    def __init__(self, *a, **kw):
        super().__init__(*a, **kw)
        self.mode = None          # None | ("gp",) | ("echo",) | ("output",)
        self.armed = False
        self.owners = []          # thread name of every transport call that reached the device
        self.delayed = False
        self.closers = []         # names of the caller threads that closed the transport (= whose timeout fired), in order
        self.late_timer, self.late_delivered = None, False

    def arm(self, mode):
        self.mode, self.armed = mode, False

    def close(self) -> None:
        # `_handle_timeout` runs in the thread that called the operation: its name says WHOSE timer fired (event order, not wall clock)
        self.closers.append(threading.current_thread().name)
        SimTransport.close(self)

    def write(self, channel_input: bytes) -> None:
        if self.mode == ("gp",) and channel_input == b"\n":
            self.silent, self.mode = True, None
        elif self.mode is not None and MARK.encode() in channel_input:
            if self.mode == ("echo",):
                self.silent, self.mode = True, None
            else:
                self.armed = True
        elif self.armed and channel_input == b"\n":
            if self.mode[0] == "delay":
                # the device answers this return only after a while: the operation holds the lock meanwhile
                late = self.device.on_write(b"\n")
                self.armed, delay, self.mode = False, self.mode[1], None
                self.owners.append(threading.current_thread().name)
                self.silent = True
                SimTransport.write(self, channel_input)
                self.silent = False
                self.delayed = True
                def deliver():
                    self.buf.extend(late)
                    self.late_delivered = True
                self.late_timer = threading.Timer(delay, deliver)
                self.late_timer.start()
                return
            self.silent, self.armed, self.mode = True, False, None
        self.owners.append(threading.current_thread().name)
        SimTransport.write(self, channel_input)

    def read(self) -> bytes:
        data = SimTransport.read(self)
        self.owners.append(threading.current_thread().name)
        return data


def op(conn, spec):
    kind = spec[0]
    if kind == "gp":
        return lambda: conn.channel.get_prompt()
    if kind == "si":
        return lambda: conn.channel.send_input(spec[1])
    if kind == "sir":
        return lambda: conn.channel.send_input_and_read(spec[1], expected_outputs=[PROMPT], read_duration=1.0e6)
    if kind == "int":
        return lambda: conn.channel.send_inputs_interact([(c, PROMPT) for c in spec[1]])
    raise ValueError(kind)


class Caller(threading.Thread):
    def __init__(self, name, fn, at_end=None):
        super().__init__(name=name, daemon=True)
        self.fn, self.outcome, self.t_end, self.at_end, self.snapshot = fn, None, None, at_end, None

    def run(self):
        try:
            v = self.fn()
            outcome = ["ok", [x.decode("latin1") for x in v] if isinstance(v, tuple) else v]
        except BaseException as e:  # noqa: BLE001
            outcome = ["exc", type(e).__name__, isinstance(e, ScrapliException), str(e)[:120]]
        if self.at_end is not None:
            self.snapshot = self.at_end()      # the state of the world at the moment THIS caller learns how its operation ended
        self.outcome = outcome
        self.t_end = time.time()


def report(c, t0):
    return {"name": c.name, "alive": c.is_alive(), "outcome": c.outcome, "elapsed": None if c.t_end is None else round(c.t_end - t0, 3)}


def main(sc):
    tmo, slack, sep = sc["timeout_ops"], sc.get("slack", 8.0), sc.get("separation", 4.0)
    dev = CliDevice("cisco_iosxe", hostname="r1", outputs=lambda mode, line: ("out<%s>" % line) if line else None)
    tcls = TimedTransport if sc["tname"] == "SimTransport" else named(TimedTransport, sc["tname"])
    conn, t = make_conn("cisco_iosxe", dev, stack="sync", transport_cls=tcls, on_empty="block", channel_lock=True, timeout_ops=T_BIG)
    t.open()
    t.buf.clear()
    lock = conn.channel.channel_lock
    out = {"lock_type": type(lock).__name__}
    # per-caller timeouts (by thread name).  Only the caller that has to time out gets the small one; the callers queued behind
    # it get one that is `sep` seconds later, everybody else T_BIG.  Should the order of the timers flip nevertheless, `closers`
    # records whose fired first and the oracle follows the recorded order.
    table = {"hung": tmo, "waiter": tmo, "holder": sc.get("a_timeout", T_BIG)}
    for i in range(len(sc["queued"])):
        table[f"queued{i}"] = tmo + sep
    if sc.get("queued_first") and sc["queued"] and not sc.get("waiter"):
        table["queued0"] = T_BIG          # runs to its end before the silent operation starts
    conn.channel._base_channel_args = ArgsProxy(conn.channel._base_channel_args, table, T_BIG)
    out["timeouts"] = table
    if sc.get("waiter"):
        return waiter_scenario(sc, conn, t, lock, out)
    if sc.get("late"):
        return late_scenario(sc, conn, t, lock, out)
    hk, hwhen = sc["hung"]
    hspec = {"gp": ["gp"], "si": ["si", MARK], "sir": ["sir", MARK], "int": ["int", ["show c0e0", MARK]]}[hk]
    qspecs = []
    for i, q in enumerate(sc["queued"]):
        qspecs.append(["gp"] if q[0] == "gp" else [q[0], f"show c{i + 1}o0"] if q[0] in ("si", "sir") else ["int", [f"show c{i + 1}o0e0"]])
    queued = [Caller(f"queued{i}", op(conn, s)) for i, s in enumerate(qspecs)]
    hung = Caller("hung", op(conn, hspec))
    t0 = time.time()
    pre = []
    if sc.get("queued_first") and queued:
        # one queued caller runs to its end BEFORE the silent operation starts
        first = queued.pop(0)
        pre.append((first, qspecs.pop(0)))
        first.start()                 # its timeout_ops is T_BIG: it is not meant to time out
        first.join(slack)
    t.arm(("gp",) if hk == "gp" else (hwhen,))
    t_h = time.time()
    hung.start()
    # wait until the silent operation is really blocked inside the lock context, then queue the others
    lim = time.time() + 5
    while time.time() < lim and not (lock.locked() and t.silent):
        time.sleep(0.005)
    out["lock_held_while_hung"] = bool(lock.locked() and t.silent)
    for q in queued:
        q.start()
    deadline = t_h + tmo + slack
    for c in [hung] + queued:
        c.join(max(0.0, deadline - time.time()))
    out["hung"] = report(hung, t_h)
    out["queued"] = [dict(report(c, t_h), spec=s) for c, s in pre] + [dict(report(c, t_h), spec=s) for c, s in zip(queued, qspecs)]
    out["lock_locked_after"] = lock.locked()
    out["transport_alive_after"] = t.isalive()
    out["closers"] = list(t.closers)
    somebody_stuck = hung.is_alive() or any(c.is_alive() for c in queued)
    out["phase2"] = phase2(conn, t, lock, slack) if not somebody_stuck and not lock.locked() else None
    return out


def late_scenario(sc, conn, t, lock, out):
    """Settings.NO_TERMINATE_ON_TIMEOUT = True (the connection survives a timeout, nothing wakes the worker) and a device that
    answers LATER than timeout_ops.  Observed at the moment the caller gets its ScrapliTimeout (event order, not wall clock):
    is the channel lock still held, is a pool worker of that call still alive; afterwards: does the ended operation's worker
    still use the transport; and a next operation issued right after must get its own output."""
    from scrapli.settings import Settings
    Settings.NO_TERMINATE_ON_TIMEOUT = bool(sc.get("no_terminate", True))
    tmo, slack = sc["timeout_ops"], sc.get("slack", 8.0)
    hk = sc["hung"][0]
    hspec = {"si": ["si", MARK], "sir": ["sir", MARK], "int": ["int", ["show c0e0", MARK]]}[hk]

    def snap():
        return {"lock_locked": lock.locked(), "ncalls": len(t.owners),
                "pool_threads_alive": sorted(x.name for x in threading.enumerate() if x.name.startswith("ThreadPoolExecutor") and x.is_alive())}

    hung = Caller("hung", op(conn, hspec), at_end=snap)
    t.arm(("delay", sc["a_delay"]))
    t_h = time.time()
    hung.start()
    hung.join(tmo + sc["a_delay"] + slack)
    out["lock_held_while_hung"] = True
    out["late_answer_armed"] = bool(t.delayed)
    out["hung"] = report(hung, t_h)
    out["at_exception"] = hung.snapshot
    nxt_spec = ["si", "show c1o0"]
    if not t.isalive():
        # default settings: the timeout handler closed the connection (correct); the user re-opens it before going on.  The old
        # session's pending answer belongs to the old session: it is dropped, not delivered into the new one.
        if t.late_timer is not None:
            t.late_timer.cancel()
        t.silent = False
        t.device = CliDevice("cisco_iosxe", hostname="r1", outputs=lambda mode, line: ("out<%s>" % line) if line else None)
        t.buf.clear()
        t.open()
        t.buf.clear()
        out["reopened"] = True
    else:
        # connection kept (NO_TERMINATE_ON_TIMEOUT): let the late answer arrive first, so that what the next operation sees does
        # not depend on how fast it runs (it then either finds the answer unread — clean asyncio — or already consumed)
        lim = time.time() + sc["a_delay"] + slack
        while time.time() < lim and not t.late_delivered:
            time.sleep(0.01)
        out["late_delivered_before_next"] = bool(t.late_delivered)
    nxt = Caller("queued0", op(conn, nxt_spec))          # its timeout_ops is T_BIG: it only has to wait for what the code makes it wait for
    t_n = time.time()
    nxt.start()
    nxt.join(sc["a_delay"] + slack)
    out["queued"] = [dict(report(nxt, t_n), spec=nxt_spec)]
    time.sleep(0.05)
    n0 = (hung.snapshot or {}).get("ncalls", 0)
    worker = t.owners[n0 - 1] if n0 else None
    out["ended_op_worker"] = worker
    out["ended_op_calls_after_exception"] = sum(1 for o in t.owners[n0:] if o == worker)
    out["lock_locked_after"] = lock.locked()
    out["transport_alive_after"] = t.isalive()
    out["closers"] = list(t.closers)
    out["phase2"] = None
    return out


def waiter_scenario(sc, conn, t, lock, out):
    """a caller's timeout expires while it WAITS for the lock: the holder's operation is slow (device answers after
    a_delay, its own timeout_ops is a_timeout), the waiter and the callers after it run with the small timeout_ops"""
    tmo, slack, sep = sc["timeout_ops"], sc.get("slack", 8.0), sc.get("separation", 4.0)
    holder_spec = ["si", MARK]
    holder = Caller("holder", op(conn, holder_spec))
    t.arm(("delay", sc["a_delay"]))
    holder.start()
    lim = time.time() + 5
    while time.time() < lim and not (lock.locked() and t.delayed):
        time.sleep(0.005)
    wk = sc["hung"][0]
    wspec = ["gp"] if wk == "gp" else [wk, "show c1o0"]
    waiter = Caller("waiter", op(conn, wspec))
    qspecs = [["gp"] if q[0] == "gp" else [q[0], f"show c{i + 2}o0"] for i, q in enumerate(sc["queued"])]
    queued = [Caller(f"queued{i}", op(conn, s)) for i, s in enumerate(qspecs)]
    out["lock_held_while_hung"] = bool(lock.locked() and t.delayed)
    t_w = time.time()
    waiter.start()
    for q in queued:
        q.start()
    deadline = t_w + tmo + slack
    for c in [waiter, holder] + queued:
        c.join(max(0.0, deadline - time.time()))
    out["hung"] = report(waiter, t_w)
    out["queued"] = [dict(report(holder, t_w), spec=holder_spec)] + [dict(report(c, t_w), spec=s) for c, s in zip(queued, qspecs)]
    out["lock_locked_after"] = lock.locked()
    out["transport_alive_after"] = t.isalive()
    out["closers"] = list(t.closers)
    stuck = waiter.is_alive() or holder.is_alive() or any(c.is_alive() for c in queued)
    out["phase2"] = phase2(conn, t, lock, slack) if not stuck and not lock.locked() else None
    return out


def async_waiter_scenario(sc):
    """asyncio twin of `waiter`: the timeout decorator's `asyncio.wait_for` of a task expires while the task is parked in
    `async with self.channel_lock:` behind a slow but live holder.  Real asyncio.Lock, real decorator, real small timeout."""
    import asyncio

    from harness.simtransport import AsyncSimTransport

    class AsyncTimedTransport(AsyncSimTransport):
        def __init__(self, *a, **kw):
            super().__init__(*a, **kw)
            self.delay, self.armed, self.delayed, self.closers, self.owners = None, False, False, [], []
            self.late_timer, self.late_delivered = None, False

        def _me(self):
            task = asyncio.current_task()
            return task.get_name() if task else "?"

        def close(self):
            self.closers.append(self._me())
            AsyncSimTransport.close(self)

        def write(self, channel_input):
            self.owners.append(self._me())
            if self.delay is not None and MARK.encode() in channel_input:
                self.armed = True
            elif self.armed and channel_input == b"\n":
                late = self.device.on_write(b"\n")
                self.armed = False
                self.silent = True
                AsyncSimTransport.write(self, channel_input)
                self.silent = False
                self.delayed = True
                def deliver():
                    self.buf.extend(late)
                    self.late_delivered = True
                self.late_timer = asyncio.get_running_loop().call_later(self.delay, deliver)
                self.delay = None
                return
            AsyncSimTransport.write(self, channel_input)

        async def read(self):
            data = await AsyncSimTransport.read(self)
            self.owners.append(self._me())
            return data

    def aop(conn, spec):
        kind = spec[0]
        if kind == "gp":
            return conn.channel.get_prompt()
        if kind == "si":
            return conn.channel.send_input(spec[1])
        if kind == "sir":
            return conn.channel.send_input_and_read(spec[1], expected_outputs=[PROMPT], read_duration=1.0e6)
        return conn.channel.send_inputs_interact([(c, PROMPT) for c in spec[1]])

    async def go():
        tmo, slack, sep = sc["timeout_ops"], sc.get("slack", 8.0), sc.get("separation", 4.0)
        dev = CliDevice("cisco_iosxe", hostname="r1", outputs=lambda mode, line: ("out<%s>" % line) if line else None)
        conn, t = make_conn("cisco_iosxe", dev, stack="async", transport_cls=AsyncTimedTransport, on_empty="block", channel_lock=True,
                            timeout_ops=T_BIG)
        await t.open()
        t.buf.clear()
        lock = conn.channel.channel_lock
        out = {"lock_type": type(lock).__name__}
        table = {"waiter": tmo, "holder": sc.get("a_timeout", T_BIG)}
        for i in range(len(sc["queued"])):
            table[f"queued{i}"] = tmo + sep
        conn.channel._base_channel_args = ArgsProxy(conn.channel._base_channel_args, table, T_BIG)
        out["timeouts"] = table
        ends = {}

        async def run(name, spec):
            try:
                v = await aop(conn, spec)
                r = ["ok", [x.decode("latin1") for x in v] if isinstance(v, tuple) else v]
            except asyncio.CancelledError:
                raise
            except BaseException as e:  # noqa: BLE001
                r = ["exc", type(e).__name__, isinstance(e, ScrapliException), str(e)[:120]]
            ends[name] = (r, time.time())
            return r

        def rep(name, task, t0, spec=None):
            r = ends.get(name)
            d = {"name": name, "alive": not task.done(), "outcome": r[0] if r else None, "elapsed": round(r[1] - t0, 3) if r else None}
            if spec is not None:
                d["spec"] = spec
            return d

        if sc.get("late"):
            # asyncio twin of `late`: the device answers AFTER timeout_ops; NO_TERMINATE_ON_TIMEOUT on or off.  At the moment the
            # caller gets its exception: is the lock held, are tasks created by the operation still pending; then a next operation.
            from scrapli.settings import Settings
            Settings.NO_TERMINATE_ON_TIMEOUT = bool(sc.get("no_terminate", True))
            table["hung"] = tmo
            hk = sc["hung"][0]
            hspec = {"si": ["si", MARK], "sir": ["sir", MARK], "int": ["int", ["show c0e0", MARK]]}[hk]
            t.delay = sc["a_delay"]
            base = set(asyncio.all_tasks())
            snap = {}

            async def hung_run():
                r = await run("hung", hspec)
                me = asyncio.current_task()
                snap.update({"lock_locked": lock.locked(), "ncalls": len(t.owners),
                             "pool_threads_alive": sorted(x.get_name() for x in asyncio.all_tasks() if x not in base and x is not me and not x.done())})
                return r

            t_h = time.time()
            hung = asyncio.ensure_future(hung_run())
            hung.set_name("hung")
            await asyncio.wait([hung], timeout=tmo + sc["a_delay"] + slack)
            out["lock_held_while_hung"] = True
            out["late_answer_armed"] = bool(t.delayed)
            out["hung"] = rep("hung", hung, t_h)
            out["at_exception"] = dict(snap) or None
            nxt_spec = ["si", "show c1o0"]
            if not t.isalive():          # default settings: the timeout closed the connection; the user re-opens it (old session's answer dropped)
                if t.late_timer is not None:
                    t.late_timer.cancel()
                t.silent = False
                t.device = CliDevice("cisco_iosxe", hostname="r1", outputs=lambda mode, line: ("out<%s>" % line) if line else None)
                t.buf.clear()
                await t.open()
                t.buf.clear()
                out["reopened"] = True
            else:
                lim = time.time() + sc["a_delay"] + slack
                while time.time() < lim and not t.late_delivered:
                    await asyncio.sleep(0.01)
                out["late_delivered_before_next"] = bool(t.late_delivered)
            t_n = time.time()
            nxt = asyncio.ensure_future(run("queued0", nxt_spec))
            nxt.set_name("queued0")
            await asyncio.wait([nxt], timeout=sc["a_delay"] + slack)
            out["queued"] = [rep("queued0", nxt, t_n, nxt_spec)]
            await asyncio.sleep(0.05)
            n0 = snap.get("ncalls", 0)
            out["ended_op_worker"] = "hung"
            # transport calls made, after the caller got its exception, by tasks that worked for the ended operation before
            prior = set(t.owners[:n0])
            late_owners = [o for o in t.owners[n0:] if o in prior]
            out["ended_op_calls_after_exception"] = len(late_owners)
            out["lock_locked_after"] = lock.locked()
            out["transport_alive_after"] = t.isalive()
            out["closers"] = list(t.closers)
            out["phase2"] = None
            return out
        holder_spec = ["si", MARK]
        t.delay = sc["a_delay"]
        holder = asyncio.ensure_future(run("holder", holder_spec))
        holder.set_name("holder")
        lim = time.time() + 5
        while time.time() < lim and not (lock.locked() and t.delayed):
            await asyncio.sleep(0.005)
        out["lock_held_while_hung"] = bool(lock.locked() and t.delayed)
        wk = sc["hung"][0]
        wspec = ["gp"] if wk == "gp" else [wk, "show c1o0"]
        t_w = time.time()
        waiter = asyncio.ensure_future(run("waiter", wspec))
        waiter.set_name("waiter")
        qspecs = [["gp"] if q[0] == "gp" else [q[0], f"show c{i + 2}o0"] for i, q in enumerate(sc["queued"])]
        queued = []
        for i, s_ in enumerate(qspecs):
            q = asyncio.ensure_future(run(f"queued{i}", s_))
            q.set_name(f"queued{i}")
            queued.append(q)
        await asyncio.wait([waiter, holder] + queued, timeout=tmo + slack)
        out["hung"] = rep("waiter", waiter, t_w)
        out["queued"] = [rep("holder", holder, t_w, holder_spec)] + [rep(f"queued{i}", q, t_w, s_) for i, (q, s_) in enumerate(zip(queued, qspecs))]
        out["lock_locked_after"] = lock.locked()
        out["transport_alive_after"] = t.isalive()
        out["closers"] = list(t.closers)
        out["phase2"] = None
        if all(x.done() for x in [waiter, holder] + queued) and not lock.locked():
            t.silent = False
            t.device = CliDevice("cisco_iosxe", hostname="r1", outputs=lambda mode, line: ("out<%s>" % line) if line else None)
            t.buf.clear()
            await t.open()
            t.buf.clear()
            n0 = len(t.owners)
            specs = [["gp"], ["si", "show c8o0"]]
            t2 = time.time()
            fresh = []
            for i, s_ in enumerate(specs):
                f = asyncio.ensure_future(run(f"fresh{i}", s_))
                f.set_name(f"fresh{i}")
                fresh.append(f)
            await asyncio.wait(fresh, timeout=slack)
            order = []
            for o in t.owners[n0:]:
                if not order or order[-1] != o:
                    order.append(o)
            out["phase2"] = {"callers": [rep(f"fresh{i}", f, t2, s_) for i, (f, s_) in enumerate(zip(fresh, specs))], "lock_locked": lock.locked(),
                             "owner_blocks": len(order), "owners": len(set(order))}
        return out

    return asyncio.run(go())


def phase2(conn, t, lock, slack):
    """re-open and use the connection with two fresh callers at once (timeout_ops = T_BIG: nothing is meant to time out)"""
    if True:
        t.arm(None)
        t.silent = False
        t.device = CliDevice("cisco_iosxe", hostname="r1", outputs=lambda mode, line: ("out<%s>" % line) if line else None)   # a new session
        t.buf.clear()
        t.open()
        t.buf.clear()
        n0 = len(t.owners)
        specs = [["gp"], ["si", "show c8o0"]]
        fresh = [Caller(f"fresh{i}", op(conn, s)) for i, s in enumerate(specs)]
        t2 = time.time()
        for c in fresh:
            c.start()
        for c in fresh:
            c.join(max(0.0, t2 + slack - time.time()))
        order = []
        for o in t.owners[n0:]:
            if not order or order[-1] != o:
                order.append(o)
        return {"callers": [dict(report(c, t2), spec=s) for c, s in zip(fresh, specs)], "lock_locked": lock.locked(),
                "owner_blocks": len(order), "owners": len(set(order))}


if __name__ == "__main__":
    _sc = json.loads(sys.argv[1])
    res = async_waiter_scenario(_sc) if (_sc.get("async_waiter") or _sc.get("async_late")) else main(_sc)
    sys.stdout.write(json.dumps(res) + "\n")
    sys.stdout.flush()
    os._exit(0)
