#!/usr/bin/env python3
"""C19, timed family: ONE scenario per process (the parent kills the process at a hard limit).

Real threads, the real threading.Lock (channel_lock=True), the real timeout decorator with a small timeout_ops, a
sim transport whose read BLOCKS on an empty buffer until close() wakes it (like the socket/pty transports).  One
caller's operation meets a device that goes silent, so it has to end by ScrapliTimeout; other callers are queued on
the channel lock meanwhile; afterwards the connection is re-opened and used by two fresh callers.
Callers are never the main thread, so the thread-pool timeout mechanism is what runs (also selected by naming the
transport class SystemTransport).  The main thread only starts threads and joins them with a deadline, then prints
one JSON object and leaves with os._exit (blocked daemon/pool threads must not keep the process).

usage: c19_timed.py '<scenario json>'
scenario: {"tname": "SimTransport"|"SystemTransport", "timeout_ops": 0.3, "slack": 8.0,
           "hung": ["si"|"sir"|"gp"|"int", "echo"|"output"], "queued": [["gp"], ["si"], ...], "queued_first": bool}"""
import json, os, sys, threading, time
from pathlib import Path

sys.path.insert(0, str(Path(__file__).resolve().parents[1]))
from vlib import common  # noqa: E402

common.use_repo()
from scrapli.exceptions import ScrapliException  # noqa: E402

from harness.simdevice import CliDevice  # noqa: E402
from harness.simtransport import SimTransport, make_conn, named  # noqa: E402

PROMPT = "r1#"
MARK = "show silent"


class TimedTransport(SimTransport):
    """blocking reads; can make the device go silent at a chosen point of one operation; tags the trace with the thread"""

    def __init__(self, *a, **kw):
        super().__init__(*a, **kw)
        self.mode = None          # None | ("gp",) | ("echo",) | ("output",)
        self.armed = False
        self.owners = []          # thread name of every transport call that reached the device
        self.delayed = False

    def arm(self, mode):
        self.mode, self.armed = mode, False

    def write(self, channel_input: bytes) -> None:
        if self.mode == ("gp",) and channel_input == b"\n":
            self.silent, self.mode = True, None
        elif self.mode is not None and MARK.encode() in channel_input:
            if self.mode == ("echo",):
                self.silent, self.mode = True, None
            else:
                self.armed = True
        elif self.armed and channel_input == b"\n":
            if self.mode[0] == "delay":
                # the device answers this return only after a while: the operation holds the lock meanwhile
                late = self.device.on_write(b"\n")
                self.armed, delay, self.mode = False, self.mode[1], None
                self.owners.append(threading.current_thread().name)
                self.silent = True
                SimTransport.write(self, channel_input)
                self.silent = False
                self.delayed = True
                threading.Timer(delay, lambda: self.buf.extend(late)).start()
                return
            self.silent, self.armed, self.mode = True, False, None
        self.owners.append(threading.current_thread().name)
        SimTransport.write(self, channel_input)

    def read(self) -> bytes:
        data = SimTransport.read(self)
        self.owners.append(threading.current_thread().name)
        return data


def op(conn, spec):
    kind = spec[0]
    if kind == "gp":
        return lambda: conn.channel.get_prompt()
    if kind == "si":
        return lambda: conn.channel.send_input(spec[1])
    if kind == "sir":
        return lambda: conn.channel.send_input_and_read(spec[1], expected_outputs=[PROMPT], read_duration=1.0e6)
    if kind == "int":
        return lambda: conn.channel.send_inputs_interact([(c, PROMPT) for c in spec[1]])
    raise ValueError(kind)


class Caller(threading.Thread):
    def __init__(self, name, fn):
        super().__init__(name=name, daemon=True)
        self.fn, self.outcome, self.t_end = fn, None, None

    def run(self):
        try:
            v = self.fn()
            self.outcome = ["ok", [x.decode("latin1") for x in v] if isinstance(v, tuple) else v]
        except BaseException as e:  # noqa: BLE001
            self.outcome = ["exc", type(e).__name__, isinstance(e, ScrapliException), str(e)[:120]]
        self.t_end = time.time()


def report(c, t0):
    return {"name": c.name, "alive": c.is_alive(), "outcome": c.outcome, "elapsed": None if c.t_end is None else round(c.t_end - t0, 3)}


def main(sc):
    tmo, slack = sc["timeout_ops"], sc.get("slack", 8.0)
    dev = CliDevice("cisco_iosxe", hostname="r1", outputs=lambda mode, line: ("out<%s>" % line) if line else None)
    tcls = TimedTransport if sc["tname"] == "SimTransport" else named(TimedTransport, sc["tname"])
    conn, t = make_conn("cisco_iosxe", dev, stack="sync", transport_cls=tcls, on_empty="block", channel_lock=True, timeout_ops=tmo)
    t.open()
    t.buf.clear()
    lock = conn.channel.channel_lock
    out = {"lock_type": type(lock).__name__}
    if sc.get("waiter"):
        return waiter_scenario(sc, conn, t, lock, out)
    hk, hwhen = sc["hung"]
    hspec = {"gp": ["gp"], "si": ["si", MARK], "sir": ["sir", MARK], "int": ["int", ["show c0e0", MARK]]}[hk]
    qspecs = []
    for i, q in enumerate(sc["queued"]):
        qspecs.append(["gp"] if q[0] == "gp" else [q[0], f"show c{i + 1}o0"] if q[0] in ("si", "sir") else ["int", [f"show c{i + 1}o0e0"]])
    queued = [Caller(f"queued{i}", op(conn, s)) for i, s in enumerate(qspecs)]
    hung = Caller("hung", op(conn, hspec))
    t0 = time.time()
    pre = []
    if sc.get("queued_first") and queued:
        # one queued caller runs to its end BEFORE the silent operation starts
        first = queued.pop(0)
        pre.append((first, qspecs.pop(0)))
        first.start()
        first.join(tmo + slack)
    t.arm(("gp",) if hk == "gp" else (hwhen,))
    t_h = time.time()
    hung.start()
    # wait until the silent operation is really blocked inside the lock context, then queue the others
    lim = time.time() + 5
    while time.time() < lim and not (lock.locked() and t.silent):
        time.sleep(0.005)
    out["lock_held_while_hung"] = bool(lock.locked() and t.silent)
    for q in queued:
        q.start()
    deadline = t_h + tmo + slack
    for c in [hung] + queued:
        c.join(max(0.0, deadline - time.time()))
    out["hung"] = report(hung, t_h)
    out["queued"] = [dict(report(c, t_h), spec=s) for c, s in pre] + [dict(report(c, t_h), spec=s) for c, s in zip(queued, qspecs)]
    out["lock_locked_after"] = lock.locked()
    out["transport_alive_after"] = t.isalive()
    somebody_stuck = hung.is_alive() or any(c.is_alive() for c in queued)
    out["phase2"] = phase2(conn, t, lock, tmo, slack) if not somebody_stuck and not lock.locked() else None
    return out


def waiter_scenario(sc, conn, t, lock, out):
    """a caller's timeout expires while it WAITS for the lock: the holder's operation is slow (device answers after
    a_delay, its own timeout_ops is a_timeout), the waiter and the callers after it run with the small timeout_ops"""
    tmo, slack = sc["timeout_ops"], sc.get("slack", 8.0)
    conn.channel._base_channel_args.timeout_ops = sc["a_timeout"]
    holder_spec = ["si", MARK]
    holder = Caller("holder", op(conn, holder_spec))
    t.arm(("delay", sc["a_delay"]))
    holder.start()
    lim = time.time() + 5
    while time.time() < lim and not (lock.locked() and t.delayed):
        time.sleep(0.005)
    conn.channel._base_channel_args.timeout_ops = tmo      # read by the decorator when an operation is called
    wk = sc["hung"][0]
    wspec = ["gp"] if wk == "gp" else [wk, "show c1o0"]
    waiter = Caller("waiter", op(conn, wspec))
    qspecs = [["gp"] if q[0] == "gp" else [q[0], f"show c{i + 2}o0"] for i, q in enumerate(sc["queued"])]
    queued = [Caller(f"queued{i}", op(conn, s)) for i, s in enumerate(qspecs)]
    out["lock_held_while_hung"] = bool(lock.locked() and t.delayed)
    t_w = time.time()
    waiter.start()
    time.sleep(0.02)
    for q in queued:
        q.start()
    deadline = t_w + tmo + slack
    for c in [waiter, holder] + queued:
        c.join(max(0.0, deadline - time.time()))
    out["hung"] = report(waiter, t_w)
    out["queued"] = [dict(report(holder, t_w), spec=holder_spec)] + [dict(report(c, t_w), spec=s) for c, s in zip(queued, qspecs)]
    out["lock_locked_after"] = lock.locked()
    out["transport_alive_after"] = t.isalive()
    stuck = waiter.is_alive() or holder.is_alive() or any(c.is_alive() for c in queued)
    out["phase2"] = phase2(conn, t, lock, tmo, slack) if not stuck and not lock.locked() else None
    return out


def phase2(conn, t, lock, tmo, slack):
    """re-open and use the connection with two fresh callers at once"""
    out = {}
    somebody_stuck = False
    if True:
        t.arm(None)
        t.silent = False
        t.device = CliDevice("cisco_iosxe", hostname="r1", outputs=lambda mode, line: ("out<%s>" % line) if line else None)   # a new session
        t.buf.clear()
        t.open()
        t.buf.clear()
        n0 = len(t.owners)
        specs = [["gp"], ["si", "show c8o0"]]
        fresh = [Caller(f"fresh{i}", op(conn, s)) for i, s in enumerate(specs)]
        t2 = time.time()
        for c in fresh:
            c.start()
        for c in fresh:
            c.join(max(0.0, t2 + tmo + slack - time.time()))
        order = []
        for o in t.owners[n0:]:
            if not order or order[-1] != o:
                order.append(o)
        return {"callers": [dict(report(c, t2), spec=s) for c, s in zip(fresh, specs)], "lock_locked": lock.locked(),
                "owner_blocks": len(order), "owners": len(set(order))}


if __name__ == "__main__":
    res = main(json.loads(sys.argv[1]))
    sys.stdout.write(json.dumps(res) + "\n")
    sys.stdout.flush()
    os._exit(0)
