"""Harness pieces shared by the C03 / C04 checks (privilege handling):

* PrivDevice      — CliDevice with a configurable number of tolerated wrong passwords and a "custom"
                    platform built from a user privilege table (synthetic vendor: prompts / moves given)
* Timeout*SimTransport — a read on an empty buffer does what scrapli's timeout decorator does when the
                    device stays silent: close the transport and raise ScrapliTimeout (and records whether
                    the device was silent *by design*, i.e. waiting for a password)
* run_history / arun_history — drive a real network driver through a list of operations, recording per
                    operation: exception class, belief, number of get_prompt rounds, device log length
* encode_request  — the request line of the Lean model driver (ScrapliModel/Priv/Proto.lean)
"""
import warnings
from typing import Dict, List, Optional, Tuple

from scrapli.exceptions import ScrapliTimeout

from harness.simdevice import CliDevice, Move
from harness.simtransport import AsyncSimTransport, SimTransport, make_conn


class HarnessAbort(BaseException):
    """the driver went round the get_prompt loop more often than any bound allows (it would loop forever)"""


class PrivDevice(CliDevice):
    def __init__(self, *a, pw_limit: int = 3, **kw):
        super().__init__(*a, **kw)
        self.pw_limit = pw_limit
        self.login_level = self.mode
        self.sessions_opened = 0

    def connect(self) -> bytes:
        """a new session (the connection object is opened, or re-opened): it starts at the login level, nothing pending"""
        self.sessions_opened += 1
        self.mode, self.session_name, self.pending, self.pw_tries = self.login_level, "", None, 0
        self.linebuf.clear()
        return super().connect()

    def _execute(self, raw: bytes) -> bytes:
        if self.pending is None:
            return super()._execute(raw)
        line = raw.decode("utf-8", "replace")
        mv, self.pending = self.pending, None
        ok = line == self.enable_password
        self.events.append(("password", ok))
        if ok:
            self._move(mv.to)
            return self._frame(None)
        self.pw_tries += 1
        if self.pw_tries < self.pw_limit:
            self.pending = mv
            return self.nl + b"Password: "
        self.pw_tries = 0
        return self._frame("% Bad passwords")


class InjectedFault(OSError):
    """an exception injected into a transport read / write (kind "exc")"""


class _TimeoutMixin:
    """+ one fault INSIDE a privilege change that leaves the connection usable.  `fault` = dict(k, point, kind, keep):
      k      the fault hits the k-th navigation line (a line of `navset`: the table's escalate / deescalate commands) of the history
      point  "before_write" (nothing reaches the device) | "after_line" (the line is typed, the return is not) |
             "after_return" (the line is entered: the device completes the change, its answer is not read)
      kind   "timeout_keep" (ScrapliTimeout as with Settings.NO_TERMINATE_ON_TIMEOUT: the transport stays open) |
             "cancel" (asyncio.CancelledError: the task was cancelled, e.g. asyncio.wait_for) | "exc" (an injected exception)
      keep   whether what the device printed stays in the read buffer for the next operation (it arrives late) or is lost"""
    fault = None
    navset = frozenset()
    fault_done = False
    _nav_seen = 0
    _arm = None           # None | "return" (arm at the next write) | "read" (the next read raises)

    def _fault_exc(self):
        import asyncio
        k = self.fault["kind"]
        if k == "timeout_keep":
            return ScrapliTimeout("timed out (injected; NO_TERMINATE_ON_TIMEOUT: connection kept)")
        if k == "cancel":
            return asyncio.CancelledError()
        return InjectedFault("injected fault")

    def _fire(self):
        self.fault_done, self._arm = True, None
        self.trace.append(("fault", self.fault["point"], self.fault["kind"]))
        if not self.fault.get("keep"):
            self.buf.clear()
        raise self._fault_exc()

    def _do_write(self, data: bytes):
        f = self.fault
        if f and not self.fault_done:
            if self._arm == "return":
                super()._do_write(data)        # the return: the device executes the line
                self._arm = "read"
                return
            if data.decode("utf-8", "replace") in self.navset:
                self._nav_seen += 1
                if self._nav_seen == f["k"]:
                    if f["point"] == "before_write":
                        self._fire()
                    super()._do_write(data)
                    self._arm = "read" if f["point"] == "after_line" else "return"
                    return
        super()._do_write(data)

    def _maybe_fault_read(self):
        if self.fault and not self.fault_done and self._arm == "read":
            self._fire()

    def _do_open(self):
        self.buf.clear()          # a new session: nothing of the previous one is left on the wire
        super()._do_open()

    def _empty(self):
        self.trace.append(("stall",))
        if not hasattr(self, "stalls"):
            self.stalls = []
        self.stalls.append(self.device.pending is not None)   # True: the device is waiting for a password
        self._do_close()                                      # decorators._handle_timeout: transport.close()
        raise ScrapliTimeout("timed out (emulated: the device sends nothing more)")


class TimeoutSimTransport(_TimeoutMixin, SimTransport):
    def read(self) -> bytes:
        self._pre_read()
        self._maybe_fault_read()
        if not self.buf:
            self._empty()
        return self._take()


class AsyncTimeoutSimTransport(_TimeoutMixin, AsyncSimTransport):
    async def read(self) -> bytes:
        self._pre_read()
        self._maybe_fault_read()
        if not self.buf:
            self._empty()
        return self._take()


# ---------- operations: tuples
#   ("c", line) send_command | ("C", stop, [lines]) send_commands | ("G", stop, level, [lines]) send_configs
#   ("g1", stop, level, text) send_config (one string, split on newlines by scrapli)
#   ("A", level) acquire_priv | ("I", level, [lines]) send_interactive | ("R", name) register session | ("g", bool)
EXC = {"ScrapliPrivilegeError": "priv", "ScrapliAuthenticationFailed": "auth", "ScrapliTimeout": "timeout",
       "ScrapliValueError": "value", "IndexError": "index", "KeyError": "key", "ScrapliConnectionNotOpened": "conn",
       "CancelledError": "cancelled", "InjectedFault": "injected"}


def _call(conn, op):
    k = op[0]
    if k == "c":
        return conn.send_command(op[1])
    if k == "C":
        return conn.send_commands(list(op[2]), stop_on_failed=op[1])
    if k == "G":
        return conn.send_configs(list(op[3]), privilege_level=op[2], stop_on_failed=op[1])
    if k == "g1":
        return conn.send_config("\n".join(op[3]), privilege_level=op[2], stop_on_failed=op[1])
    if k == "A":
        return conn.acquire_priv(op[1])
    if k == "I":
        return conn.send_interactive([(l, "") for l in op[2]], privilege_level=op[1])
    if k == "R":
        return conn.register_configuration_session(op[1])
    if k == "g":
        conn._generic_driver_mode = op[1]
        return None
    if k == "O":
        return conn.open()
    if k == "X":
        return conn.close()
    raise ValueError(op)


def snapshot(conn):
    """the iteration order Python currently gives every set of the privilege graph"""
    return (len(conn.privilege_levels), [(k, list(v)) for k, v in conn._priv_graph.items()])


def _instrument(conn, bound):
    """count get_prompt rounds; at each, record (belief, true device mode) — the oracle's view of the hazard"""
    st = {"rounds": 0, "probe": [], "dest": None}
    orig = conn.channel.get_prompt
    dev = conn.transport.device
    orig_acq = conn.acquire_priv

    def acq(desired_priv):
        # the belief when acquire_priv is CALLED, and the number of the get_prompt round inside this call
        st["dest"], st["acq_belief"], st["acq_round"] = desired_priv, conn._current_priv_level.name, 0
        return orig_acq(desired_priv)
    conn.acquire_priv = acq

    def note():
        st["rounds"] += 1
        st["probe"].append((conn._current_priv_level.name, dev.mode_name(), st["dest"], st.get("acq_belief"), st.get("acq_round", 0)))
        st["acq_round"] = st.get("acq_round", 0) + 1
        if st["rounds"] > bound:
            raise HarnessAbort(f"more than {bound} get_prompt rounds")
        return len(st["probe"]) - 1

    def seen(i, prompt):
        # the prompt string this round read, and the device's level once it had answered (a typed-but-not-entered line left over from
        # an abandoned operation is entered by this very return)
        st["probe"][i] = st["probe"][i] + (prompt, dev.mode_name())
    if conn.__class__.__name__.startswith("Async"):
        async def counted():
            i = note()
            p = await orig()
            seen(i, p)
            return p
    else:
        def counted():
            i = note()
            p = orig()
            seen(i, p)
            return p
    conn.channel.get_prompt = counted
    return st


def _record(conn, dev, st, exc):
    return {"out": "ok" if exc is None else EXC.get(type(exc).__name__, "EXC:" + type(exc).__name__),
            "belief": conn._current_priv_level.name, "rounds": st["rounds"], "loglen": len(dev.exec_log), "mode": dev.mode_name()}


def _mk(platform, dev, stack, secondary, kw):
    warnings.simplefilter("ignore")
    tcls = TimeoutSimTransport if stack == "sync" else AsyncTimeoutSimTransport
    return make_conn(platform, dev, stack=stack, transport_cls=tcls, auth_secondary=secondary, **kw)


def run_history(platform, dev, ops, secondary="", stack="sync", round_bound=400, hooks=False, fault=None, navset=(), **kw):
    """-> (records, snapshots, transport, conn); one record per op.  hooks=True: the platform's real on_open / on_close hooks
    stay installed and the connection is NOT opened here — the history opens, closes and re-opens it (ops "O" / "X")."""
    assert stack == "sync"
    if hooks:
        conn, t = _mk(platform, dev, stack, secondary, dict(kw))
    else:
        conn, t = _mk(platform, dev, stack, secondary, dict(kw, on_open=lambda c: None))
        conn.open()
    t.fault, t.navset = fault, frozenset(navset)
    st = _instrument(conn, round_bound)
    recs, snaps = [], [snapshot(conn)]
    for op in ops:
        exc = None
        fired = t.fault_done
        try:
            _call(conn, op)
        except HarnessAbort as e:
            recs.append({"out": "LOOP", "belief": conn._current_priv_level.name, "rounds": st["rounds"],
                         "loglen": len(dev.exec_log), "mode": dev.mode_name()})
            break
        except Exception as e:   # noqa: BLE001 - every exception class is an observable
            exc = e
        recs.append(dict(_record(conn, dev, st, exc), injected=t.fault_done and not fired))
        if op[0] == "R":
            snaps.append(snapshot(conn))
    conn._probe = st["probe"]
    return recs, snaps, t, conn


async def arun_history(platform, dev, ops, secondary="", stack="async", round_bound=400, hooks=False, fault=None, navset=(), **kw):
    async def noop(c):
        return None
    if hooks:
        conn, t = _mk(platform, dev, "async", secondary, dict(kw))
    else:
        conn, t = _mk(platform, dev, "async", secondary, dict(kw, on_open=noop))
        await conn.open()
    import asyncio
    t.fault, t.navset = fault, frozenset(navset)
    st = _instrument(conn, round_bound)
    recs, snaps = [], [snapshot(conn)]
    for op in ops:
        exc = None
        fired = t.fault_done
        try:
            r = _call(conn, op)
            if hasattr(r, "__await__"):
                await r
        except HarnessAbort:
            recs.append({"out": "LOOP", "belief": conn._current_priv_level.name, "rounds": st["rounds"],
                         "loglen": len(dev.exec_log), "mode": dev.mode_name()})
            break
        except asyncio.CancelledError as e:     # the operation's task was cancelled (injected); the connection object lives on
            exc = e
        except Exception as e:   # noqa: BLE001
            exc = e
        recs.append(dict(_record(conn, dev, st, exc), injected=t.fault_done and not fired))
        if op[0] == "R":
            snaps.append(snapshot(conn))
    conn._probe = st["probe"]
    return recs, snaps, t, conn


def classify_prompt(levels, prompt):
    """which levels classify a prompt string — written from the documented rule (pattern searched with MULTILINE|IGNORECASE, unless a
    not_contains substring occurs), independently of scrapli's `_determine_current_priv`; levels: {name: (pattern, not_contains)}"""
    import re
    out = []
    for name, (pattern, not_contains) in levels.items():
        if any(x in prompt for x in not_contains):
            continue
        try:
            if re.search(pattern, prompt, flags=re.M | re.I):
                out.append(name)
        except re.error:
            continue          # a pattern that does not even compile classifies nothing (the driver under test will raise on it)
    return out


# ---------- tables
def rows_of(levels, marker=None):
    """[(name, prev, esc, desc, auth, key, sess)] of a dict name -> PrivilegeLevel (same rule as the translator)"""
    rows, first = [], {}
    for i, (k, l) in enumerate(levels.items()):
        sg = (l.pattern, tuple(l.not_contains))
        first.setdefault(sg, i)
        rows.append((l.name, l.previous_priv, l.escalate, l.deescalate, bool(l.escalate_auth), f"p{first[sg]}",
                     bool(marker is not None and marker in l.pattern)))
    return rows


def table_moves(rows):
    m = {}
    for n, p, e, d, a, k, s in rows:
        if p:
            m.setdefault((n, d), (p, False))
    for n, p, e, d, a, k, s in rows:
        if p:
            m.setdefault((p, e), (n, a))
    return m


def device_extras(dev, rows, session_names=()):
    """vendor moves of the simulated device that the table does not describe"""
    tm = table_moves(rows)
    ex = []
    for (mode, cmd), mv in dev.moves.items():
        if (mode, cmd) in tm:
            continue
        ex.append((mode, cmd, mv.to))
    if getattr(dev, "sessions", False):
        for s in session_names:
            for cmd in ("end", "abort", "commit", "exit"):
                ex.append((s, cmd, "privilege_exec"))
    return ex


# ---------- request encoding (mirror of ScrapliModel/Priv/Proto.lean)
def hx(s: str) -> str:
    b = s.encode()
    return b.hex() if b else "-"


def _j(sep, items):
    items = list(items)
    return sep.join(items) if items else "."


def enc_table(rows):
    return _j(";", (",".join([hx(n), hx(p), hx(e), hx(d), "1" if a else "0", hx(k), "1" if s else "0"]) for n, p, e, d, a, k, s in rows))


def enc_abort(spec):
    k = spec[0]
    if k == "none":
        return "n"
    if k == "always":
        return f"a,{hx(spec[1])},{hx(spec[2])}"
    if k == "ifSession":
        return f"s,{hx(spec[2])},{hx(spec[3])}"
    arg = {"default": "d", "current": "c"}.get(spec[2][0]) or "p." + hx(spec[2][1])
    return f"v,{_j(':', map(hx, spec[1]))},{arg},{hx(spec[3])}"


def enc_sess(t):
    if t is None:
        return "n"
    return ",".join([hx(t["prev"]), hx(t["escPrefix"]), hx(t["desc"]), hx("s:"), str(t["keyTake"]), "1" if t["sess"] else "0"])


def enc_op(op):
    k = op[0]
    if k == "c":
        return f"c,{hx(op[1])}"
    if k == "C":
        return f"C,{int(op[1])},{_j(':', map(hx, op[2]))}"
    if k in ("G", "g1"):
        return f"G,{int(op[1])},{hx(op[2])},{_j(':', map(hx, op[3]))}"
    if k == "A":
        return f"A,{hx(op[1])}"
    if k == "I":
        return f"I,{hx(op[1])},{_j(':', map(hx, op[2]))}"
    if k == "R":
        return f"R,{hx(op[1])}"
    if k == "g":
        return f"g,{int(op[1])}"
    if k in ("O", "X"):
        return k
    raise ValueError(op)


def enc_hook(stmts):
    return _j(";", ("a" if s[0] == "acquire" else {"command": "c", "input": "i", "raw": "r"}[s[0]] + "," + hx(s[1]) for s in stmts))


def enc_snaps(snaps):
    return _j(";", (f"{n}," + _j(":", (".".join([hx(a)] + [hx(x) for x in nbs]) for a, nbs in ents)) for n, ents in snaps))


def encode_request(rows, default, secondary, abort, sess, blocked, password, pw_limit, fail_lines, extras, login, snaps, ops, belief="DUMMY",
                   hooks=None):
    """hooks: None = no hooks, connection already open; (on_open stmts, on_close stmts) = hooks installed, connection not yet opened"""
    return " ".join([
        enc_table(rows), hx(default), hx(secondary), enc_abort(abort), enc_sess(sess),
        _j(";", (f"{hx(m)},{hx(c)}" for m, c in sorted(blocked))),
        "n" if password is None else "s," + hx(password), str(pw_limit), _j(":", map(hx, fail_lines)),
        _j(";", (f"{hx(a)},{hx(b)},{hx(c)}" for a, b, c in extras)),
        hx(login), hx(belief), enc_snaps(snaps), enc_hook(hooks[0] if hooks else []), enc_hook(hooks[1] if hooks else []),
        "0" if hooks else "1", _j(";", map(enc_op, ops))])


def unhx(s):
    return "" if s == "-" else bytes.fromhex(s).decode()


def decode_reply(line):
    """-> (records, log, ulog)"""
    if line == "bad-request":
        raise ValueError("model driver: bad-request")
    recs_s, log_s, ulog_s = line.split(" ")
    recs = []
    if recs_s != ".":
        for r in recs_s.split(";"):
            o, b, rounds, hz, ll, m = r.split(",")
            recs.append({"out": o, "belief": unhx(b), "rounds": int(rounds), "hazard": hz == "1", "loglen": int(ll), "mode": unhx(m)})
    log = [] if log_s == "." else [tuple(unhx(x) for x in e.split(",")) for e in log_s.split(";")]
    ulog = []
    if ulog_s != ".":
        for e in ulog_s.split(";"):
            a, act, ln, k = e.split(",")
            ulog.append((None if a == "n" else unhx(a[1:]), unhx(act), unhx(ln), k))
    return recs, log, ulog


# ---------- the tree of a table (for oracles; deliberately separate from scrapli's own search)
def tree_path(rows, a, b):
    """names on the path a .. b through the lowest common ancestor (parent pointers), or None"""
    par = {n: p for n, p, *_ in rows}

    def up(x):
        out, seen = [x], {x}
        while par.get(out[-1]):
            nx = par[out[-1]]
            if nx in seen or nx not in par:
                return None
            out.append(nx); seen.add(nx)
        return out
    ua, ub = up(a), up(b)
    if ua is None or ub is None:
        return None
    common = next((x for x in ua if x in ub), None)
    if common is None:
        return None
    return ua[:ua.index(common) + 1] + list(reversed(ub[:ub.index(common)]))


def path_commands(rows, path):
    """[(mode in which it is typed, command, target, needs auth)] along a path"""
    by = {n: (n, p, e, d, a) for n, p, e, d, a, *_ in rows}
    out = []
    for x, y in zip(path, path[1:]):
        if by[x][1] == y:
            out.append((x, by[x][3], y, False))      # deescalate of x
        else:
            out.append((x, by[y][2], y, by[y][4]))   # escalate of y
    return out
