"""C11 rig: drives the REAL scrapli drivers through histories of open / operate / close / with-blocks with
faults, records which statements of the driver methods were reached (instance-attribute wrappers, the source
is untouched) and observes the resource flags after every operation.

kinds:
  sim         harness.simtransport Sim transports (sync + asyncio), any platform
  faketelnet  the real TelnetTransport / AsynctelnetTransport over in-process fake sockets / streams
  (real rigs — fake ssh on a pty, loopback TCP telnet, loopback asyncssh server — are in c11real.py)
"""
import asyncio, io, os, sys, tempfile, threading, time
from typing import List, Optional

from harness.simdevice import CliDevice
from harness.simtransport import AsyncSimTransport, FaultPlan, SimStall, SimTransport, attach, DRIVERS

from scrapli.exceptions import ScrapliConnectionError, ScrapliConnectionNotOpened
from scrapli.settings import Settings as _Settings


class HookError(Exception):
    """raised by the harness' failing user hooks"""


class BodyError(Exception):
    """raised by the body of a with-block"""


class BodyBaseException(BaseException):
    """raised by the body of a with-block: a BaseException that is NOT an Exception (stands for KeyboardInterrupt / SystemExit)"""


# body letters -> the class user code in the with-body raises (besides 'r' = BodyError); 'Z' = the task is cancelled (asyncio)
BODY_RAISES = {"T": "ScrapliTimeout", "E": "ScrapliConnectionError", "N": "ScrapliConnectionNotOpened", "A": "ScrapliAuthenticationFailed",
               "P": "ScrapliPrivilegeError", "V": "ValueError", "K": "BodyBaseException", "Z": "CancelledError"}


def body_exception(letter):
    import scrapli.exceptions as E
    name = BODY_RAISES[letter]
    if name == "BodyBaseException":
        return BodyBaseException("body interrupted")
    if name == "CancelledError":
        return asyncio.CancelledError()
    if name == "ValueError":
        return ValueError("body failed")
    return getattr(E, name)("raised by the body of the with-block")


class RefusingLogin:
    """a device that never lets anybody in: it asks for the password (ssh) / login name (telnet) and answers every line with
    'Permission denied' and the same question -- in-channel authentication gives up with ScrapliAuthenticationFailed while the
    transport is up and the session alive"""
    exec_log: list = []

    def connect(self):
        return b"login: \nPassword: "

    def on_write(self, data):
        return b"\nPermission denied, please try again.\nlogin: \nPassword: " if b"\n" in data else b""


class TransportCloseError(Exception):
    """what an injected failing transport.close() raises (stands for PtyProcessError 'Could not terminate the child.')"""


class RigTrouble(Exception):
    """the rig itself misbehaved (=> exit 2, never 1)"""


PLAT = {"cisco_iosxe": "iosxe", "cisco_iosxr": "iosxr", "cisco_nxos": "nxos", "arista_eos": "eos", "juniper_junos": "junos"}
IAC, DO = 255, 253
EOF_SPIN_LIMIT = 4     # consecutive b"" reads of a Telnet transport at EOF before the operation timer "fires"


def fd_count():
    return len(os.listdir("/proc/self/fd"))


def fd_table():
    out = {}
    for f in os.listdir("/proc/self/fd"):
        try:
            out[int(f)] = os.readlink(f"/proc/self/fd/{f}")
        except OSError:
            pass
    return out


# ------------------------------------------------------------------ sim transports with open-refusal
class _RefuseMixin:
    refuse_next_open = False

    def _maybe_refuse(self):
        if self.refuse_next_open:
            self.refuse_next_open = False
            self.trace.append(("open-refused",))
            raise ScrapliConnectionNotOpened("sim: connection refused")


    def _new_session(self):
        # a new session starts with a responsive device and nothing in flight
        self.silent = False
        self.buf.clear()


class TSim(_RefuseMixin, SimTransport):
    def open(self) -> None:
        self._maybe_refuse()
        self._new_session()
        SimTransport.open(self)

    def read(self) -> bytes:
        if self.on_empty != "block":
            return SimTransport.read(self)
        # really blocking read for the runs with the real SIGALRM timer: plain sleeps, no threading.Event -- the signal
        # handler calls close() -> Event.set(), which dead-locks when the signal lands inside Event.wait() of the same thread
        self._pre_read()
        while not self.buf:
            time.sleep(0.005)
            if not self.opened:
                raise ScrapliConnectionError("transport closed while blocked in read")
        return self._take()


class TAsyncSim(_RefuseMixin, AsyncSimTransport):
    async def open(self) -> None:
        self._maybe_refuse()
        self._new_session()
        await AsyncSimTransport.open(self)


# ------------------------------------------------------------------ fake sockets for the real Telnet transports
class FakeNet:
    """the 'network' behind the fake sockets of one connection: a causal device per session, fault plans
    counted in recv()/send() calls of the current operation"""

    def __init__(self, platform, neg, partial=False, refuse_login=False):
        self.platform, self.neg, self.partial, self.refuse_login = platform, neg, partial, refuse_login
        self.sync_socket = False     # recv() is called by the real sync TelnetTransport._read (which handles socket.timeout)
        self.device = None
        self.buf = bytearray()
        self.connected = False       # a session exists at the device end and the link is up
        self.dead = False            # the device closed the session: recv() returns b"" (EOF)
        self.silent = False
        self.faults: List[FaultPlan] = []
        self.nreads = self.nwrites = 0
        self.trace: list = []
        self.socks: list = []        # every fake OS socket ever created: [open?]
        self.refuse_next_open = False
        self.rtimeout = False        # a silent device makes the socket read time out (socket.timeout), no operation timer involved

    def open_os_sockets(self):
        return sum(1 for s in self.socks if s[0])

    def connect(self):
        if self.refuse_next_open:
            self.refuse_next_open = False
            self.trace.append(("open-refused",))
            raise ConnectionRefusedError("fake: connection refused")
        self.device = RefusingLogin() if self.refuse_login else (CliDevice(self.platform) if self.platform != "generic" else CliDevice("cisco_iosxe"))
        self.buf = bytearray(bytes([IAC, DO, 1 + i % 40][j] for i in range(self.neg) for j in range(3)) + self.device.connect())
        self.connected, self.dead, self.silent = True, False, False
        handle = [True]
        self.socks.append(handle)
        self.trace.append(("open",))
        return handle

    def _fault(self, f):
        f.fired = True
        self.trace.append(("fault", f.action))
        if f.action == "eof":
            self.dead = True
            self.buf.clear()
            if self.partial:
                self.buf += bytes([IAC, DO])     # the session dies in the middle of an option command
        else:
            self.silent = True
            self.buf.clear()

    def recv(self):
        self.nreads += 1
        for f in self.faults:
            if not f.fired and f.at_read == self.nreads:
                self._fault(f)
        if self.dead and not self.buf:
            self.trace.append(("R", b""))
            return b""
        if not self.buf:
            self.trace.append(("stall",))
            if self.rtimeout and self.sync_socket:
                import socket as _socket
                self.trace.append(("stallfire", "keep"))
                raise _socket.timeout("timed out")     # TelnetTransport._read turns this into ScrapliTimeout itself
            raise SimStall()
        chunk = bytes(self.buf)
        self.buf.clear()
        self.trace.append(("R", chunk))
        return chunk

    def send(self, data):
        if not data:
            return 0
        self.nwrites += 1
        for f in self.faults:
            if not f.fired and f.at_write == self.nwrites:
                self._fault(f)
        self.trace.append(("W", bytes(data)))
        if self.dead or self.silent:
            return len(data)   # a TCP send to a peer that is gone is buffered by the kernel
        if bytes(data[:1]) == bytes([IAC]):
            return len(data)   # option replies are not terminal input
        self.buf += self.device.on_write(bytes(data))
        return len(data)


class _FakeRawSock:
    def __init__(self, net, handle):
        self.net, self.handle = net, handle

    def settimeout(self, t):
        pass

    def recv(self, n):
        if not self.handle[0]:
            raise OSError(9, "Bad file descriptor")
        return self.net.recv()

    def send(self, b):
        if not self.handle[0]:
            raise OSError(9, "Bad file descriptor")
        return self.net.send(b)

    def close(self):
        self.handle[0] = False
        self.net.trace.append(("close",))


def make_fake_socket_class(net):
    """stand-in for scrapli.transport.base.base_socket.Socket with the same surface (open/close/isalive/__bool__/sock)"""
    from scrapli.exceptions import ScrapliConnectionNotOpened as NotOpened

    class FakeSocket:
        def __init__(self, host, port, timeout):
            self.host, self.port, self.timeout = host, port, timeout
            self.sock = None

        def __bool__(self):
            return self.isalive()

        def open(self):
            try:
                handle = net.connect()
            except ConnectionRefusedError as exc:
                raise NotOpened("connection refused trying to open socket") from exc
            self.sock = _FakeRawSock(net, handle)

        def close(self):
            if self.isalive() and self.sock is not None:
                self.sock.close()

        def isalive(self):
            return self.sock is not None and self.sock.handle[0]

    return FakeSocket


class _FakeReader:
    def __init__(self, net, handle):
        self.net, self.handle = net, handle

    async def read(self, n):
        await asyncio.sleep(0)
        return self.net.recv()

    def at_eof(self):
        return self.net.dead and not self.net.buf


class _FakeWriter:
    def __init__(self, net, handle):
        self.net, self.handle = net, handle

    def write(self, b):
        self.net.send(b)

    def close(self):
        if self.handle[0]:
            self.net.trace.append(("close",))
        self.handle[0] = False


# ------------------------------------------------------------------ building a connection
def _driver_cls(platform, stack):
    import scrapli.driver as D
    import scrapli.driver.core as C
    name = DRIVERS[platform][0 if stack == "sync" else 1]
    return getattr(C, name, None) or getattr(D, name)


class Rig:
    """one real connection + its instrumentation"""
    rtimeout = False
    body_exc = body_exc_name = left_with = None

    def __init__(self, case, tmpdir):
        self.case = case
        self.stack = case["stack"]
        self.kind = case.get("kind", "sim")
        self.marks: List[str] = []
        self.events: List[str] = []
        self.depth = 0
        self.in_hook = False
        self.in_timeout = False
        self.rtimeout = False        # reads of a silent device end in ScrapliTimeout raised by the transport read itself (nothing closed)
        self.body_exc = None         # the exception object that left the body of the current with-block
        self.on_close_raised = False
        self.tclose_raised = False
        self.injected_hook_exc = None
        self.dead_seen = False
        self.body_exc_name = None    # class name of the exception the with-body of the current operation ended with
        self.left_with = None        # how that exception left the with statement: same | swallowed | replaced
        self.tmpdir = tmpdir
        self.user_bio: Optional[io.BytesIO] = None
        self.log_path = None
        platform = case["platform"]
        kw = dict(host="sim", auth_bypass=case.get("bypass", True), timeout_ops=case.get("timeout_ops", 0), timeout_transport=0,
                  auth_username="u", auth_password="p")
        sink = case.get("sink", "none")
        if sink == "path":
            self.log_path = os.path.join(tmpdir, "channel.log")
            kw["channel_log"] = self.log_path
        elif sink == "true":
            self.log_path = os.path.join(tmpdir, "scrapli_channel.log")
            kw["channel_log"] = True
        elif sink == "bytesio":
            self.user_bio = io.BytesIO()
            kw["channel_log"] = self.user_bio
        for which in ("on_open", "on_close"):
            h = case.get(which, "default")
            if h == "ok":
                kw[which] = self._user_hook(False)
            elif h == "raise":
                kw[which] = self._user_hook(True)
            elif h.startswith("raise:"):
                kw[which] = self._user_hook(h.split(":", 1)[1])
        if self.kind == "sim":
            kw["transport"] = case.get("tname") or ("system" if self.stack == "sync" else "asyncssh")
        else:
            kw["transport"] = "telnet" if self.stack == "sync" else "asynctelnet"
        self.conn = _driver_cls(platform, self.stack)(**kw)
        for which in ("on_open", "on_close"):
            if case.get(which, "default") == "none":
                setattr(self.conn, which, None)
        devplat = platform if platform in PLAT else "cisco_iosxe"
        self.device = CliDevice(devplat) if case.get("login") != "refuse" else RefusingLogin()
        if self.kind == "sim":
            tcls = TSim if self.stack == "sync" else TAsyncSim
            on_empty = "block" if case.get("stallmode") == "real" else "stall"
            self.t = tcls(self.conn._base_transport_args, self.device, on_empty=on_empty)
            attach(self.conn, self.t)
            self.net = self.t
        else:
            self.net = FakeNet(devplat, case.get("neg", 0), case.get("partial", False), case.get("login") == "refuse")
            self.net.sync_socket = self.stack == "sync"
            self.t = self.conn.transport
            self._install_fake_net()
        self._instrument()

    # ---- user hooks
    def _user_hook(self, raises):
        """raises: False | True (HookError) | name of the exception class the hook raises (a scrapli class or a builtin)"""
        rig = self

        def boom():
            if raises is True:
                raise HookError("user hook failed")
            import builtins
            import scrapli.exceptions as E
            cls = getattr(E, raises, None) or getattr(builtins, raises)
            rig.injected_hook_exc = raises
            raise cls("user hook failed")

        if self.stack == "sync":
            def hook(conn):
                if raises:
                    boom()
        else:
            async def hook(conn):
                if raises:
                    boom()
        return hook

    # ---- fake network for the real telnet transports
    def _install_fake_net(self):
        net = self.net
        if self.stack == "sync":
            import scrapli.transport.plugins.telnet.transport as mod
            self._patched = (mod, "Socket", mod.Socket)
            mod.Socket = make_fake_socket_class(net)
        else:
            import scrapli.transport.plugins.asynctelnet.transport as mod

            class _FakeAsyncio:
                """the names AsynctelnetTransport.open() uses from the asyncio module"""
                TimeoutError = asyncio.TimeoutError

                @staticmethod
                async def open_connection(host=None, port=None):
                    handle = net.connect()
                    return _FakeReader(net, handle), _FakeWriter(net, handle)

                @staticmethod
                async def wait_for(fut, timeout=None):
                    return await fut

            self._patched = (mod, "asyncio", mod.asyncio)
            mod.asyncio = _FakeAsyncio

    def dispose(self):
        p = getattr(self, "_patched", None)
        if p:
            setattr(p[0], p[1], p[2])
        for f in (self.user_bio,):
            if f is not None and not f.closed:
                f.close()
        cl = getattr(self.conn.channel, "channel_log", None)
        if cl is not None and not cl.closed:
            cl.close()
        if self.kind == "sim":
            self.t.opened = False
            self.t._wake.set()

    def holds_session(self):
        return bool(self.flags()["os"])

    def note_step_exception(self, exc):
        """a device-facing step ended with exc: once the transport itself reported the lost connection, later steps
        fail without the device's doing"""
        if exc is not None and type(exc).__name__ == "ScrapliConnectionError":
            self.dead_seen = True

    # ---- instrumentation (instance attributes only)
    def mark(self, m):
        if m == "topen":
            self.dead_seen = False
        if m == "topen" or m == "operate" or m.startswith("a:") or m.startswith("auth:"):
            for c in (getattr(self, "_spin", None), getattr(self, "_errs", None)):
                if c is not None:
                    c[0] = 0
        self.marks.append(m)
        self.net.trace.append(("mark", m, self.usable()))

    def usable(self):
        if self.kind == "sim":
            return bool(self.t.opened and not self.t.dead)
        if self.stack == "sync":
            return bool(self.t.socket) and not self.dead_seen
        return self.t.stdin is not None and self.t.stdout is not None and not self.dead_seen

    def _instrument(self):
        conn, t, rig = self.conn, self.t, self
        sync = self.stack == "sync"
        # log statements
        pre, post = conn._pre_open_closing_log, conn._post_open_closing_log

        def _pre(closing=False):
            rig.mark("pre:c" if closing else "pre:o")
            return pre(closing=closing)

        def _post(closing=False):
            rig.mark("post:c" if closing else "post:o")
            return post(closing=closing)

        conn._pre_open_closing_log, conn._post_open_closing_log = _pre, _post
        crit = conn.logger.critical

        def _crit(*a, **k):
            rig.mark("crit")
            return crit(*a, **k)

        conn.logger.critical = _crit
        # transport open / close
        topen, tclose = t.open, t.close
        if sync:
            def _topen():
                rig.mark("topen")
                try:
                    return topen()
                except BaseException as e:
                    rig.net.trace.append(("topen-raised", type(e).__name__))
                    raise
        else:
            async def _topen():
                rig.mark("topen")
                try:
                    return await topen()
                except BaseException as e:
                    rig.net.trace.append(("topen-raised", type(e).__name__))
                    raise

        def _tclose():
            # transport.close() called by the timeout decorator is not a statement of the driver methods
            by_timer = rig.in_timeout or sys._getframe(1).f_code.co_name == "_handle_timeout"
            if not by_timer:
                rig.mark("tclose")
            elif not rig.in_timeout:
                rig.net.trace.append(("stallfire",))     # a real timer fired
            if rig.case.get("tclose_raises") and rig.holds_session():
                # injected: the transport cannot close its session (PtyProcess.close(): "Could not terminate the child.")
                rig.tclose_raised = True
                raise TransportCloseError("could not terminate the child")
            return tclose()

        t.open, t.close = _topen, _tclose
        # channel open / close
        copen, cclose = conn.channel.open, conn.channel.close

        def _copen():
            rig.mark("copen")
            return copen()

        def _cclose():
            rig.mark("cclose")
            return cclose()

        conn.channel.open, conn.channel.close = _copen, _cclose
        # stall -> what the timeout decorator does when the operation's timer fires
        if self.case.get("stallmode") != "real":
            self._wrap_read()
        # device facing acts (top level inside a hook only) and in-channel authentication
        self._wrap_act(conn, "acquire_priv", "a:acquire_priv", hook_only=True)
        self._wrap_act(conn, "send_command", "a:send_command", hook_only=True)
        self._wrap_act(conn, "get_prompt", "a:get_prompt", hook_only=True)
        self._wrap_act(conn.channel, "send_input", "a:send_input", hook_only=True)
        self._wrap_act(conn.channel, "write", "a:write", hook_only=True, force_sync=True)
        self._wrap_act(conn.channel, "send_return", "a:send_return", hook_only=True, force_sync=True)
        if hasattr(conn.channel, "channel_authenticate_ssh"):
            self._wrap_act(conn.channel, "channel_authenticate_ssh", "auth:ssh", hook_only=False)
        self._wrap_act(conn.channel, "channel_authenticate_telnet", "auth:telnet", hook_only=False)
        # hooks
        for which in ("on_open", "on_close"):
            h = getattr(conn, which)
            if h is None:
                continue
            setattr(conn, which, self._wrap_hook(h, which))

    def _wrap_hook(self, h, which):
        rig = self
        if self.stack == "sync":
            def hook(c):
                rig.mark(which)
                rig.in_hook = True
                try:
                    return h(c)
                except BaseException:
                    if which == "on_close":
                        rig.on_close_raised = True
                    raise
                finally:
                    rig.in_hook = False
        else:
            async def hook(c):
                rig.mark(which)
                rig.in_hook = True
                try:
                    return await h(c)
                except BaseException:
                    if which == "on_close":
                        rig.on_close_raised = True
                    raise
                finally:
                    rig.in_hook = False
        return hook

    def _wrap_act(self, obj, name, tag, hook_only, force_sync=False):
        rig = self
        orig = getattr(obj, name, None)
        if orig is None:
            return
        is_async = self.stack == "async" and not force_sync and asyncio.iscoroutinefunction(orig)

        def enter():
            top = rig.depth == 0 and (rig.in_hook or not hook_only)
            rig.depth += 1
            if top:
                rig.mark(tag)
            return top

        def leave(top, exc):
            rig.depth -= 1
            if top:
                rig.net.trace.append(("actend", tag, type(exc).__name__ if exc is not None else None))
                rig.note_step_exception(exc)

        if is_async:
            async def w(*a, **k):
                top = enter()
                try:
                    r = await orig(*a, **k)
                except BaseException as e:
                    leave(top, e)
                    raise
                leave(top, None)
                return r
        else:
            def w(*a, **k):
                top = enter()
                try:
                    r = orig(*a, **k)
                except BaseException as e:
                    leave(top, e)
                    raise
                leave(top, None)
                return r
        setattr(obj, name, w)

    def _timeout_fires(self):
        """the running operation's timer fires: exactly what scrapli.decorators does then"""
        from scrapli.decorators import _handle_timeout
        from scrapli.settings import Settings
        self.net.trace.append(("stallfire", "keep") if Settings.NO_TERMINATE_ON_TIMEOUT else ("stallfire",))
        self.in_timeout = True
        try:
            _handle_timeout(transport=self.t, logger=self.t.logger, message="timed out (simulated timer)")
        finally:
            self.in_timeout = False

    def _read_times_out(self):
        """the transport's own read gives up on a silent device: ScrapliTimeout from the read, no handler, nothing closed
        (what TelnetTransport._read does on socket.timeout; any plugin transport may)"""
        from scrapli.exceptions import ScrapliTimeout
        self.net.trace.append(("stallfire", "keep"))
        raise ScrapliTimeout("timed out reading from transport")

    def _wrap_read(self):
        rig, t = self, self.t
        read = t.read
        # both counters measure ONE device-facing step going round in circles; mark() zeroes them when a new step starts
        spin = self._spin = [0]
        telnet = self.kind != "sim"
        errs = self._errs = [0]

        def conn_error():
            # a caller that swallows the connection error and tries again (in-channel telnet login) would go round
            # for ever on a peer that is gone: the operation's timer ends that
            errs[0] += 1
            if errs[0] >= EOF_SPIN_LIMIT:
                errs[0] = 0
                rig._timeout_fires()

        if self.stack == "sync":
            def _read():
                try:
                    buf = read()
                except SimStall:
                    if rig.rtimeout:
                        rig._read_times_out()
                    rig._timeout_fires()
                except ScrapliConnectionError:
                    if telnet:
                        conn_error()
                    raise
                errs[0] = 0
                if telnet and not buf and t._eof:
                    spin[0] += 1
                    if spin[0] >= EOF_SPIN_LIMIT:
                        spin[0] = 0
                        rig._timeout_fires()
                else:
                    spin[0] = 0
                return buf
        else:
            async def _read():
                try:
                    buf = await read()
                except SimStall:
                    if rig.rtimeout:
                        rig._read_times_out()
                    rig._timeout_fires()
                except ScrapliConnectionError:
                    if telnet:
                        conn_error()
                    raise
                errs[0] = 0
                if telnet and not buf and t._eof:
                    spin[0] += 1
                    if spin[0] >= EOF_SPIN_LIMIT:
                        spin[0] = 0
                        rig._timeout_fires()
                else:
                    spin[0] = 0
                return buf
        t.read = _read

    # ---- observation
    def settle(self):
        """give asynchronous releases (event loop callbacks, library threads) time to finish; nothing to wait for on Sim"""

    async def asettle(self):
        pass

    def flags(self):
        ch = self.conn.channel.channel_log
        file_open = ch is not None and ch is not self.user_bio and not ch.closed
        att = ch is not None
        bio = bool(self.user_bio is not None and self.user_bio.closed)
        if self.kind == "sim":
            sess = chan = osr = bool(self.t.opened)
            alive = bool(self.t.opened and not self.t.dead)
            tn = None
        else:
            t = self.t
            if self.stack == "sync":
                sess = chan = bool(t.socket)     # the transport's own test: Socket.__bool__ is isalive()
            else:
                sess, chan = t.stdout is not None, t.stdin is not None
            osr = self.net.open_os_sockets() > 0
            alive = bool(sess and chan and self.net.connected and not self.net.dead and osr)
            tn = (bool(t._eof), len(t._raw_buf), len(t._cooked_buf), len(t._control_buf), int(t._control_char_sent_counter))
        return dict(sess=sess, chan=chan, os=osr, alive=alive, file=bool(file_open), att=bool(att), bio=bio, tn=tn,
                    isalive=bool(self.t.isalive()))

    # ---- fault installation for the next operation
    def arm(self, fault):
        net = self.net
        net.faults = []
        if not fault:
            return
        if fault[0] == "open":
            net.refuse_next_open = True
        elif fault[0] == "read" and fault[2] == "rtimeout":
            net.faults = [FaultPlan(at_read=net.nreads + fault[1], action="silent")]
            self.rtimeout = net.rtimeout = True
        elif fault[0] == "read":
            net.faults = [FaultPlan(at_read=net.nreads + fault[1], action=fault[2])]
        elif fault[0] == "write":
            net.faults = [FaultPlan(at_write=net.nwrites + fault[1], action=fault[2])]

    def disarm(self):
        self.net.faults = []
        self.net.refuse_next_open = False
        self.rtimeout = self.net.rtimeout = False


def exc_name(e):
    return type(e).__name__


def derive_events(seg, kind):
    """environment events of one operation, read off the transport trace segment:
    one event for transport.open() and one for every device-facing step that found the transport usable"""
    evs = []
    cur = None      # index into evs of the step in progress
    for x in seg:
        if x[0] == "mark":
            m, usable = x[1], x[2]
            if m == "topen":
                evs.append(["o", None])
                cur = len(evs) - 1
            elif m.startswith("a:") or m.startswith("auth:") or m == "operate":
                if usable:
                    evs.append(["o", None])
                    cur = len(evs) - 1
                else:
                    cur = None
            elif m in ("tclose", "cclose", "copen", "crit", "exit", "body", "raise") or m.startswith("pre:") or m.startswith("post:") or m.startswith("on_"):
                pass
        elif x[0] == "open-refused":
            if cur is not None:
                evs[cur][0] = "r"
        elif x[0] == "fault" and x[1] == "eof" and kind == "sim":
            if cur is not None:
                evs[cur][0] = "d"
        elif x[0] == "stallfire":
            if cur is not None:
                # "keep": ScrapliTimeout with the transport left as it is (NO_TERMINATE_ON_TIMEOUT / the transport read's own timeout)
                evs[cur][0] = "k" if len(x) > 1 and x[1] == "keep" else "s"
        elif x[0] == "actend" and x[2] == "ScrapliAuthenticationFailed" and cur is not None and evs[cur][0] == "o":
            evs[cur][0] = "a"       # the device refused the login during this step
        elif x[0] == "actend" and kind != "sim":
            # the Telnet transport reported the lost connection itself (no timer involved)
            if cur is not None and x[2] == "ScrapliConnectionError" and evs[cur][0] == "o":
                evs[cur][0] = "d"
        elif x[0] == "R" and kind != "sim" and cur is not None:
            # what this recv() result does to the Telnet byte machine, computed from the bytes alone
            tn = evs[cur][1] or [0, 0, 0, 0, 0]
            chunk = x[1]
            tn[0] = 0 if chunk else 1
            i, part = 0, 0
            while i < len(chunk):
                if chunk[i] == IAC:
                    if i + 2 < len(chunk):
                        tn[4] += 1
                        i += 3
                        continue
                    part = len(chunk) - i
                    break
                i += 1
            tn[3] = part if chunk else tn[3]
            evs[cur][1] = tn
    return evs


# ------------------------------------------------------------------ running histories
def _result(rig, op, out, seg_start, fds0, thr0):
    fl = rig.flags()
    fl["fd_delta"] = fd_count() - fds0
    fl["thr_delta"] = threading.active_count() - thr0
    return dict(op=op, out=out, marks=list(rig.marks), flags=fl, body_exc=rig.body_exc_name, left_with=rig.left_with, seg=list(rig.net.trace[seg_start:]),
                on_close_raised=rig.on_close_raised, tclose_raised=rig.tclose_raised, injected_hook_exc=rig.injected_hook_exc, nreads=rig.net.nreads, nwrites=rig.net.nwrites)


def _operate_sync(rig, conn):
    rig.mark("operate")
    try:
        conn.send_command("show version")
    except Exception as e:
        rig.net.trace.append(("actend", "operate", type(e).__name__))
        rig.note_step_exception(e)
        raise
    rig.net.trace.append(("actend", "operate", None))


async def _operate_async(rig, conn):
    rig.mark("operate")
    try:
        await conn.send_command("show version")
    except Exception as e:
        rig.net.trace.append(("actend", "operate", type(e).__name__))
        rig.note_step_exception(e)
        raise
    rig.net.trace.append(("actend", "operate", None))


def run_case_sync(case, rig_factory=None):
    """returns list of per-op results; raises RigTrouble on harness problems"""
    cwd = os.getcwd()
    with tempfile.TemporaryDirectory(prefix="c11-") as tmp:
        os.chdir(tmp)
        rig = None
        try:
            fds0, thr0 = fd_count(), threading.active_count()
            _Settings.NO_TERMINATE_ON_TIMEOUT = bool(case.get("no_terminate"))
            rig = (rig_factory or Rig)(case, tmp)
            conn = rig.conn
            results = []
            for spec in case["ops"]:
                rig.marks = []
                rig.on_close_raised = False
                rig.tclose_raised = False
                rig.injected_hook_exc = None
                rig.body_exc = rig.body_exc_name = rig.left_with = None
                seg_start = len(rig.net.trace)
                r0, w0 = rig.net.nreads, rig.net.nwrites
                rig.arm(spec.get("fault"))
                op = spec["op"]
                out = "ret"
                try:
                    if op == "O":
                        conn.open()
                    elif op == "C":
                        conn.close()
                    elif op == "X":
                        _operate_sync(rig, conn)
                    elif op == "W":
                        entered = False
                        try:
                            with conn:
                                entered = True
                                rig.mark("body")
                                try:
                                    for b in spec.get("body", ""):
                                        if b == "x":
                                            _operate_sync(rig, conn)
                                        elif b == "c":
                                            conn.close()
                                        elif b == "o":
                                            conn.open()
                                        elif b == "r":
                                            rig.mark("raise")
                                            raise BodyError("body failed")
                                        elif b in BODY_RAISES:
                                            rig.mark("raise")
                                            raise body_exception(b)
                                except BaseException as be:
                                    rig.body_exc = be
                                    rig.body_exc_name = exc_name(be)
                                    raise
                                finally:
                                    rig.mark("exit")
                            if rig.body_exc is not None:
                                rig.left_with = "swallowed"
                        except BaseException as we:
                            if not entered:
                                rig.mark("enter-raised")
                            elif rig.body_exc is not None:
                                rig.left_with = "same" if we is rig.body_exc else "replaced"
                            raise
                    else:
                        raise RigTrouble(f"unknown op {op}")
                except RigTrouble:
                    raise
                except SimStall as e:
                    raise RigTrouble(f"unconverted stall in {op}") from e
                except Exception as e:   # noqa
                    out = exc_name(e)
                except (BodyBaseException, asyncio.CancelledError) as e:
                    out = exc_name(e)
                    t_ = asyncio.current_task() if rig.stack == "async" else None
                    if t_ is not None and hasattr(t_, "uncancel"):
                        t_.uncancel()
                rig.body_exc = None
                rig.disarm()
                rig.net.trace.append(("opend", op, None if out == "ret" else out))
                rig.settle()
                res = _result(rig, op, out, seg_start, fds0, thr0)
                res["reads"], res["writes"] = rig.net.nreads - r0, rig.net.nwrites - w0
                results.append(res)
            return results
        finally:
            _Settings.NO_TERMINATE_ON_TIMEOUT = False
            if rig is not None:
                rig.dispose()
            os.chdir(cwd)


async def run_case_async(case, rig_factory=None):
    cwd = os.getcwd()
    with tempfile.TemporaryDirectory(prefix="c11-") as tmp:
        os.chdir(tmp)
        rig = None
        try:
            fds0, thr0 = fd_count(), threading.active_count()
            _Settings.NO_TERMINATE_ON_TIMEOUT = bool(case.get("no_terminate"))
            rig = (rig_factory or Rig)(case, tmp)
            conn = rig.conn
            results = []
            for spec in case["ops"]:
                rig.marks = []
                rig.on_close_raised = False
                rig.tclose_raised = False
                rig.injected_hook_exc = None
                rig.body_exc = rig.body_exc_name = rig.left_with = None
                seg_start = len(rig.net.trace)
                r0, w0 = rig.net.nreads, rig.net.nwrites
                rig.arm(spec.get("fault"))
                op = spec["op"]
                out = "ret"
                try:
                    if op == "O":
                        await conn.open()
                    elif op == "C":
                        await conn.close()
                    elif op == "X":
                        await _operate_async(rig, conn)
                    elif op == "W":
                        entered = False
                        try:
                            async with conn:
                                entered = True
                                rig.mark("body")
                                try:
                                    for b in spec.get("body", ""):
                                        if b == "x":
                                            await _operate_async(rig, conn)
                                        elif b == "c":
                                            await conn.close()
                                        elif b == "o":
                                            await conn.open()
                                        elif b == "r":
                                            rig.mark("raise")
                                            raise BodyError("body failed")
                                        elif b == "Z":
                                            # a real cancellation: the task running the with-block is cancelled while the body awaits
                                            rig.mark("raise")
                                            asyncio.current_task().cancel()
                                            await asyncio.sleep(0)
                                            raise RigTrouble("cancellation was not delivered")
                                        elif b in BODY_RAISES:
                                            rig.mark("raise")
                                            raise body_exception(b)
                                except BaseException as be:
                                    rig.body_exc = be
                                    rig.body_exc_name = exc_name(be)
                                    raise
                                finally:
                                    rig.mark("exit")
                            if rig.body_exc is not None:
                                rig.left_with = "swallowed"
                        except BaseException as we:
                            if not entered:
                                rig.mark("enter-raised")
                            elif rig.body_exc is not None:
                                rig.left_with = "same" if we is rig.body_exc else "replaced"
                            raise
                    else:
                        raise RigTrouble(f"unknown op {op}")
                except RigTrouble:
                    raise
                except SimStall as e:
                    raise RigTrouble(f"unconverted stall in {op}") from e
                except Exception as e:   # noqa
                    out = exc_name(e)
                except (BodyBaseException, asyncio.CancelledError) as e:
                    out = exc_name(e)
                    t_ = asyncio.current_task() if rig.stack == "async" else None
                    if t_ is not None and hasattr(t_, "uncancel"):
                        t_.uncancel()
                rig.body_exc = None
                rig.disarm()
                rig.net.trace.append(("opend", op, None if out == "ret" else out))
                await rig.asettle()
                res = _result(rig, op, out, seg_start, fds0, thr0)
                res["reads"], res["writes"] = rig.net.nreads - r0, rig.net.nwrites - w0
                results.append(res)
            return results
        finally:
            _Settings.NO_TERMINATE_ON_TIMEOUT = False
            if rig is not None:
                rig.dispose()
            os.chdir(cwd)
