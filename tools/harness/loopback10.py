"""C10 rig: an in-process *recording* asyncssh SERVER on 127.0.0.1 (host keys generated at run time)
and helpers that drive the REAL ParamikoTransport (sync; the server lives in a background thread's
event loop) and the REAL AsyncsshTransport against it.

The server records every authentication attempt it is shown (begin_auth, validate_password,
validate_public_key, keyboard-interactive start), tagged with the user name -- each case uses its own
user name, so late events of an earlier connection can never be attributed to a later case.

known_hosts files are written to a temp dir: plain, comma-listed, hashed (real HMAC-SHA1), holding
the server's key / another key / nothing for the dialled host.

Trouble with the rig itself raises RigError (=> exit 2 in the check, never 1)."""
import asyncio, base64, hashlib, hmac, os, tempfile, threading, time

import asyncssh

HOST = "127.0.0.1"
PASSWORD = "S3cret-pw"


class RigError(Exception):
    pass


def key_fields(key):
    """(key_type, base64) of an asyncssh key's public half"""
    kt, b64 = key.export_public_key().decode().split()[:2]
    return kt, b64


def hashed_host(host, salt):
    digest = hmac.new(salt, host.encode(), hashlib.sha1).digest()
    return "|1|" + base64.b64encode(salt).decode() + "|" + base64.b64encode(digest).decode()


def known_hosts_text(fmt, content, host, right, other, decoy, salt=b"0123456789abcdefghij"):
    """fmt: plain | comma | hashed ; content: absent | right | other
    A decoy line for a different host (holding the RIGHT key, the worst case) is always present."""
    lines = []
    dk, db = right
    decoy_host = {"plain": decoy, "comma": decoy + ",192.0.2.9", "hashed": hashed_host(decoy, salt[::-1])}[fmt]
    lines.append(f"{decoy_host} {dk} {db}")
    if content != "absent":
        kt, b64 = right if content == "right" else other
        hid = {"plain": host, "comma": f"router9,{host},192.0.2.77", "hashed": hashed_host(host, salt)}[fmt]
        lines.append(f"{hid} {kt} {b64}")
    return "\n".join(lines) + "\n"


class _Server(asyncssh.SSHServer):
    def __init__(self, rig):
        self.rig = rig

    def begin_auth(self, username):
        self.rig.record(username, "begin_auth")
        return True

    def password_auth_supported(self):
        return True

    def validate_password(self, username, password):
        self.rig.record(username, "password", password)
        return self.rig.accept_password and password == PASSWORD

    def public_key_auth_supported(self):
        return True

    def validate_public_key(self, username, key):
        self.rig.record(username, "publickey")
        return self.rig.accept_key and key_fields(key) == self.rig.client_pub

    def kbdint_auth_supported(self):
        return False


async def _shell(process):
    process.stdout.write("r1#")
    try:
        await process.stdin.read(1)
    except Exception:
        pass
    process.exit(0)


class Rig:
    """start(): generates keys, starts the server in a background thread; stop()"""

    def __init__(self, host_key_type="ssh-rsa"):
        self.events = []
        self.lock = threading.Lock()
        self.accept_password = True
        self.accept_key = True
        self.host_key_type = host_key_type
        self.loop = None
        self.port = None
        self.tmp = tempfile.mkdtemp(prefix="c10rig")
        self._n = 0

    def record(self, username, kind, detail=None):
        with self.lock:
            self.events.append((username, kind, detail))

    def seen(self, username):
        with self.lock:
            return [(k, d) for u, k, d in self.events if u == username]

    def start(self):
        # rig tuning of the LIBRARY (not of the code under test): paramiko waits 15 s for an ssh banner; a retry on a
        # socket that already carried a handshake (histories) never gets one, 4 s is plenty on loopback
        import logging, paramiko
        logging.getLogger("paramiko").addHandler(logging.NullHandler())
        logging.getLogger("paramiko").propagate = False
        self._orig_init = paramiko.Transport.__init__

        def quick_banner(tself, *a, _orig=self._orig_init, **k):
            _orig(tself, *a, **k)
            tself.banner_timeout = 4
        paramiko.Transport.__init__ = quick_banner
        try:
            kw = {"key_size": 2048} if self.host_key_type == "ssh-rsa" else {}
            self.host_key = asyncssh.generate_private_key(self.host_key_type, **kw)
            self.other_key = asyncssh.generate_private_key("ssh-rsa", key_size=2048)
            self.other_key_ed = asyncssh.generate_private_key("ssh-ed25519")
            self.client_key = asyncssh.generate_private_key("ssh-rsa", key_size=2048)
            self.client_pub = key_fields(self.client_key)
            self.client_key_file = os.path.join(self.tmp, "id_rsa")
            with open(self.client_key_file, "wb") as f:
                f.write(self.client_key.export_private_key("pkcs1-pem"))
            os.chmod(self.client_key_file, 0o600)
            self.right = key_fields(self.host_key)
            self.other = key_fields(self.other_key)
            self.other_ed = key_fields(self.other_key_ed)
        except Exception as e:
            raise RigError(f"key generation failed: {e!r}")
        ready = threading.Event()
        err = []

        def run():
            self.loop = asyncio.new_event_loop()
            asyncio.set_event_loop(self.loop)

            async def up():
                self.server = await asyncssh.listen(HOST, 0, server_factory=lambda: _Server(self),
                                                    server_host_keys=[self.host_key], process_factory=_shell)
                self.port = self.server.sockets[0].getsockname()[1]
            try:
                self.loop.run_until_complete(up())
            except Exception as e:  # pragma: no cover
                err.append(e)
                ready.set()
                return
            ready.set()
            self.loop.run_forever()

        self.thread = threading.Thread(target=run, daemon=True, name="c10-loopback-server")
        self.thread.start()
        if not ready.wait(20) or err or not self.port:
            raise RigError(f"loopback ssh server did not start: {err!r}")
        return self

    def stop(self):
        import paramiko
        if getattr(self, "_orig_init", None):
            paramiko.Transport.__init__ = self._orig_init
            self._orig_init = None
        if self.loop:
            def down():
                self.server.close()
                self.loop.stop()
            self.loop.call_soon_threadsafe(down)
            self.thread.join(5)

    # ---- files
    def known_hosts_file(self, fmt, content, other="rsa"):
        self._n += 1
        p = os.path.join(self.tmp, f"kh{self._n}")
        with open(p, "w") as f:
            f.write(known_hosts_text(fmt, content, HOST, self.right, self.other if other == "rsa" else self.other_ed,
                                     decoy="192.0.2.1"))
        return p

    def write(self, text):
        """a known_hosts file with exactly this content"""
        self._n += 1
        p = os.path.join(self.tmp, f"kh{self._n}")
        with open(p, "w") as f:
            f.write(text)
        return p

    def next_user(self):
        self._n += 1
        return f"u{self._n}"

    # ---- the real transports
    def _args(self, auth, user, strict, kh):
        return dict(auth_username=user,
                    auth_password=PASSWORD if auth in ("password", "both") else "",
                    auth_private_key=self.client_key_file if auth in ("key", "both") else "",
                    auth_strict_key=strict, ssh_known_hosts_file=kh)

    def _base(self, unpin=False):
        from scrapli.transport.base import BaseTransportArgs
        return BaseTransportArgs(transport_options={"asyncssh": {"known_hosts": None}} if unpin else {}, host=HOST, port=self.port, timeout_socket=10,
                                 timeout_transport=10, logging_uid="")

    def run_paramiko(self, auth, strict, kh, unpin=False):
        """-> (outcome, events seen by the server for this case's user)"""
        from scrapli.transport.plugins.paramiko.transport import ParamikoTransport, PluginTransportArgs
        user = self.next_user()
        t = ParamikoTransport(self._base(unpin), PluginTransportArgs(**self._args(auth, user, strict, kh)))
        try:
            t.open()
            out = "ok"
        except Exception as e:
            out = type(e).__name__
        finally:
            try:
                if t.session:
                    t.session.close()
                if t.socket:
                    t.socket.close()
            except Exception:
                pass
        return out, self._settle(user)

    async def run_asyncssh(self, auth, strict, kh, unpin=False):
        from scrapli.transport.plugins.asyncssh.transport import AsyncsshTransport, PluginTransportArgs
        user = self.next_user()
        t = AsyncsshTransport(self._base(unpin), PluginTransportArgs(**self._args(auth, user, strict, kh)))
        try:
            await t.open()
            out = "ok"
        except Exception as e:
            out = type(e).__name__
        finally:
            try:
                t.close()
            except Exception:
                pass
        return out, self._settle(user)

    # ---- histories: several open() attempts on ONE transport object
    def _delta(self, user, before):
        cur = self._settle(user)
        return cur[before:], len(cur)

    def history_paramiko(self, auth, strict, kh, attempts):
        """attempts: [{"close": bool, "text": known_hosts content}] -> [(outcome, server events during that attempt)]"""
        from scrapli.transport.plugins.paramiko.transport import ParamikoTransport, PluginTransportArgs
        user = self.next_user()
        base = self._base()
        base.timeout_socket = 5
        t = ParamikoTransport(base, PluginTransportArgs(**self._args(auth, user, strict, kh)))
        res, n = [], 0
        olds = []
        try:
            for att in attempts:
                if att.get("new"):
                    olds.append(t)
                    t = ParamikoTransport(base, PluginTransportArgs(**self._args(auth, user, strict, kh)))
                if att.get("close"):
                    try:
                        t.close()
                    except Exception:
                        pass
                with open(kh, "w") as f:
                    f.write(att["text"])
                try:
                    t.open()
                    out = "ok"
                except Exception as e:
                    out = type(e).__name__
                seen, n = self._delta(user, n)
                res.append((out, seen))
        finally:
            for x in olds + [t]:
                try:
                    if x.session:
                        x.session.close()
                    if x.socket:
                        x.socket.close()
                except Exception:
                    pass
        return res

    async def history_asyncssh(self, auth, strict, kh, attempts):
        from scrapli.transport.plugins.asyncssh.transport import AsyncsshTransport, PluginTransportArgs
        user = self.next_user()
        t = AsyncsshTransport(self._base(), PluginTransportArgs(**self._args(auth, user, strict, kh)))
        res, n = [], 0
        olds = []
        try:
            for att in attempts:
                if att.get("new"):
                    olds.append(t)
                    t = AsyncsshTransport(self._base(), PluginTransportArgs(**self._args(auth, user, strict, kh)))
                if att.get("close"):
                    try:
                        t.close()
                    except Exception:
                        pass
                with open(kh, "w") as f:
                    f.write(att["text"])
                try:
                    await t.open()
                    out = "ok"
                except Exception as e:
                    out = type(e).__name__
                await asyncio.sleep(0)
                seen, n = self._delta(user, n)
                res.append((out, seen))
        finally:
            for x in olds + [t]:
                try:
                    x.close()
                except Exception:
                    pass
        return res

    def _settle(self, user):
        """the client call has returned, so every auth request it sent has been *sent*; give the
        server loop a moment to have processed what is in flight (two equal snapshots)"""
        prev = None
        for _ in range(50):
            cur = self.seen(user)
            if cur == prev:
                return cur
            prev = cur
            time.sleep(0.01)
        return prev
