"""Deterministic scheduler for concurrent callers of ONE scrapli connection (C19).

Yield points — the only places where control can pass from one caller to another — are
  * `SchedTransport.read/write` (threads) / `AsyncSchedTransport.read` (asyncio; `write` is a plain function
    there, a task cannot be suspended before it), and
  * acquiring the instrumented lock assigned to `conn.channel.channel_lock`
    (with channel_lock off the harness pauses once before each operation instead).
A schedule is a list of entries: an id c (0..9) = run caller c; 10+c = CANCEL caller c if it is parked waiting for the lock
(asyncio only: task.cancel() and nothing else — a real timeout additionally closes the transport, see c19_timed.py; not enabled otherwise).  At every run entry the controller releases exactly that caller, which runs
until it parks at its next yield point or finishes its program; a caller that is finished, or parked at the
lock while the lock is held, is *not enabled* and the entry is skipped.  Exactly one caller runs at any
time, so a run is a function of (programs, schedule, fault): no wall clock, no OS scheduling.
A caller that does not park within `step_timeout` makes the controller raise HarnessStuck (=> exit 2).
If no unfinished caller is enabled the run is reported as `deadlock` (code under test kept the lock)."""
import asyncio, threading
from typing import Any, Callable, List, Optional, Tuple

from scrapli.exceptions import ScrapliConnectionError

from harness.simtransport import AsyncSimTransport, SimStall, SimTransport


class HarnessStuck(Exception):
    """a released caller did not reach its next yield point in time (harness trouble, never a violation)"""


class SchedAbort(BaseException):
    """thrown into parked callers when a run is torn down"""


INJECTED = "injected transport fault"


class RunResult:
    def __init__(self, n):
        self.wire: List[Tuple[int, int, str, bytes, bool]] = []   # (caller, op index, "W"|"R", bytes, failed)
        self.results: List[List[tuple]] = [[] for _ in range(n)]   # per caller, per op: ("ok", value) | ("exc", type, msg) | ("stall",)
        self.steps: List[Tuple[int, str]] = []                     # per schedule entry: (caller, "acquire"|"W"|"R") or (caller, "-done"|"-blocked") when skipped
        self.lock_events: List[Tuple[str, int, int]] = []          # ("acq"|"rel", caller, op index)
        self.orphans: List[dict] = []                              # operations that ended for their caller while part of them is still live
        self.cancelled = set()                                     # (caller, op index) abandoned by a cancel-while-waiting event
        self.deadlock = False
        self.all_done = False
        self.lock_free_at_end = True
        self.max_holders = 0


# --------------------------------------------------------------------------- threads
class Controller:
    def __init__(self, n: int, step_timeout: float = 60.0):
        self.n = n
        self.step_timeout = step_timeout
        self.cv = threading.Condition()
        self.state: List[Any] = ["new"] * n     # "new" | ("at", kind) | "running" | "done"
        self.go = [threading.Semaphore(0) for _ in range(n)]
        self.running: Optional[int] = None
        self.abort = False
        self.opidx = [0] * n
        self.nact = [0] * n
        self.lock: Optional["SchedLock"] = None
        self.res = RunResult(n)
        self.parked_for: dict = {}

    # ---- caller side (any thread working for the caller that is currently released)
    def pause(self, kind: str) -> int:
        c = self.running
        if c is None:
            raise RuntimeError("yield point reached while no caller is released")
        key = (c, self.opidx[c])
        with self.cv:
            self.state[c] = ("at", kind)
            self.running = None
            self.parked_for[key] = self.parked_for.get(key, []) + [kind]
            self.cv.notify_all()
        try:
            self.go[c].acquire()
        finally:
            with self.cv:
                self.parked_for[key].remove(kind)
        if self.abort:
            raise SchedAbort()
        return c

    def operation_ended(self, c: int, k: int, outcome: tuple) -> bool:
        """see AsyncController.operation_ended"""
        left = []
        if self.lock is not None and self.lock.locked() and self.lock.owner_op == (c, k):
            left.append("it still holds the channel lock")
        for kind in list(self.parked_for.get((c, k), [])):
            left.append({"acquire": "a thread of it is still queued on the channel lock", "R": "a thread of it is still about to call transport.read()",
                         "W": "a thread of it is still about to call transport.write()"}.get(kind, kind))
        if left:
            self.res.orphans.append({"op": [c, k], "outcome": [str(x) for x in outcome], "left": left})
        return bool(left)

    def current(self) -> int:
        c = self.running
        if c is None:
            raise RuntimeError("transport used while no caller is released")
        return c

    def finished(self, c: int) -> None:
        with self.cv:
            self.state[c] = "done"
            self.running = None
            self.cv.notify_all()

    # ---- controller side
    def _wait_parked(self) -> None:
        with self.cv:
            if not self.cv.wait_for(lambda: self.running is None, self.step_timeout):
                raise HarnessStuck(f"caller {self.running} did not reach a yield point within {self.step_timeout}s")

    def launch(self, c: int, target: Callable[[int], None]) -> threading.Thread:
        self.running = c
        self.state[c] = "running"
        t = threading.Thread(target=target, args=(c,), daemon=True, name=f"caller-{c}")
        t.start()
        self._wait_parked()
        return t

    def enabled(self, c: int) -> bool:
        st = self.state[c]
        if st == "done":
            return False
        if st[1] == "acquire" and self.lock is not None and self.lock.locked():
            return False
        return True

    def step(self, c: int) -> bool:
        if not self.enabled(c):
            self.res.steps.append((c, "-done" if self.state[c] == "done" else "-blocked"))
            return False
        kind = self.state[c][1]
        with self.cv:
            self.running = c
            self.state[c] = "running"
        self.go[c].release()
        self._wait_parked()
        self.res.steps.append((c, kind))
        return True

    def teardown(self) -> None:
        self.abort = True
        for g in self.go:
            g.release()


class SchedLock:
    """stands in for threading.Lock in `conn.channel.channel_lock`: acquiring first parks ("wants the lock"); the
    controller releases the caller only while the lock is free, so the non-blocking acquire below cannot fail
    and the controller never waits for a thread that cannot run"""

    def __init__(self, ctrl: Controller):
        self.ctrl = ctrl
        self.real = threading.Lock()
        self.holders = 0
        self.owner: Optional[int] = None
        self.owner_op: Optional[Tuple[int, int]] = None
        ctrl.lock = self

    def acquire(self, blocking: bool = True, timeout: float = -1) -> bool:
        c = self.ctrl.pause("acquire")
        if not self.real.acquire(blocking=False):
            raise RuntimeError("controller released a caller although the lock is taken")
        self.holders += 1
        self.owner = c
        self.owner_op = (c, self.ctrl.opidx[c])
        self.ctrl.res.max_holders = max(self.ctrl.res.max_holders, self.holders)
        self.ctrl.res.lock_events.append(("acq", c, self.ctrl.opidx[c]))
        return True

    def release(self) -> None:
        c = self.owner if self.owner is not None else -1
        self.holders -= 1
        self.owner = None
        self.owner_op = None
        self.ctrl.res.lock_events.append(("rel", c, self.ctrl.opidx[c] if c >= 0 else -1))
        self.real.release()

    def locked(self) -> bool:
        return self.real.locked()

    def __enter__(self):
        self.acquire()
        return self

    def __exit__(self, *a):
        self.release()
        return False


class SchedTransport(SimTransport):
    """SimTransport whose read/write are yield points; tags every call with the caller; can fail the k-th call
    of one caller (the call raises ScrapliConnectionError and has no effect on the device)"""

    def __init__(self, base_transport_args, device, cuts=None, faults=None, on_empty="stall"):
        super().__init__(base_transport_args, device, cuts=cuts, faults=faults, on_empty=on_empty)
        self.ctrl: Optional[Controller] = None
        self.fault: Optional[Tuple[int, int]] = None

    def _gate(self, kind: str) -> int:
        ctrl = self.ctrl
        c = ctrl.pause(kind)
        ctrl.nact[c] += 1
        if self.fault == (c, ctrl.nact[c]):
            ctrl.res.wire.append((c, ctrl.opidx[c], kind, b"", True))
            raise ScrapliConnectionError(INJECTED)
        return c

    def read(self) -> bytes:
        if self.ctrl is None:
            return SimTransport.read(self)
        c = self._gate("R")
        data = SimTransport.read(self)      # the real timeout decorator applies here
        self.ctrl.res.wire.append((c, self.ctrl.opidx[c], "R", data, False))
        return data

    def write(self, channel_input: bytes) -> None:
        if self.ctrl is None:
            return SimTransport.write(self, channel_input)
        c = self._gate("W")
        SimTransport.write(self, channel_input)
        self.ctrl.res.wire.append((c, self.ctrl.opidx[c], "W", bytes(channel_input), False))


def run_threads(conn, transport: SchedTransport, programs: List[List[Callable[[Any], Any]]], schedule: List[int], lock_on: bool,
                fault: Optional[Tuple[int, int]] = None, step_timeout: float = 60.0) -> RunResult:
    """programs[c] = list of callables op(conn) -> value.  The connection must be open and quiet."""
    n = len(programs)
    ctrl = Controller(n, step_timeout)
    transport.ctrl, transport.fault = ctrl, fault
    conn.channel.channel_lock = SchedLock(ctrl) if lock_on else None
    res = ctrl.res

    def caller_main(c: int) -> None:
        try:
            for k, op in enumerate(programs[c]):
                ctrl.opidx[c] = k
                if not lock_on:
                    ctrl.pause("acquire")
                try:
                    res.results[c].append(("ok", op(conn)))
                except SchedAbort:
                    raise
                except SimStall:
                    res.results[c].append(("stall",))
                    break
                except Exception as e:  # noqa: BLE001 — the outcome of the operation is data here
                    res.results[c].append(("exc", type(e).__name__, str(e)))
                if ctrl.operation_ended(c, k, res.results[c][-1]):
                    break
        except SchedAbort:
            return
        except BaseException as e:  # noqa: BLE001
            res.results[c].append(("harness", type(e).__name__, str(e)))
        ctrl.finished(c)

    threads = []
    try:
        for c in range(n):
            threads.append(ctrl.launch(c, caller_main))
        for c in schedule:
            if res.orphans:
                break
            if c >= 10:
                raise ValueError("cancel events exist for asyncio tasks only (a thread cannot be cancelled)")
            ctrl.step(c)
        res.all_done = all(s == "done" for s in ctrl.state)
        res.deadlock = (not res.all_done) and not any(ctrl.enabled(c) for c in range(n))
        res.lock_free_at_end = (ctrl.lock is None) or (not ctrl.lock.locked())
    finally:
        ctrl.teardown()
        for t in threads:
            t.join(5)
        transport.ctrl, transport.fault = None, None
        conn.channel.channel_lock = None
    return res


# --------------------------------------------------------------------------- asyncio
class AsyncController:
    def __init__(self, n: int, step_timeout: float = 60.0):
        self.n = n
        self.step_timeout = step_timeout
        self.state: List[Any] = ["new"] * n
        self.go = [asyncio.Event() for _ in range(n)]
        self.parked = asyncio.Event()
        self.running: Optional[int] = None
        self.abort = False
        self.opidx = [0] * n
        self.nact = [0] * n
        self.lock: Optional["AsyncSchedLock"] = None
        self.res = RunResult(n)
        self.cancel_req = [False] * n
        self.tasks: List[Any] = [None] * n
        self.parked_for: dict = {}

    async def pause(self, kind: str) -> int:
        c = self.running
        if c is None:
            raise RuntimeError("yield point reached while no task is released")
        self.state[c] = ("at", kind)
        self.running = None
        self.parked.set()
        key = (c, self.opidx[c])
        self.parked_for[key] = self.parked_for.get(key, []) + [kind]     # who is suspended here works for operation `key`
        try:
            await self.go[c].wait()
        finally:
            self.parked_for[key].remove(kind)
        self.go[c].clear()
        if self.abort:
            raise SchedAbort()
        return c

    def operation_ended(self, c: int, k: int, outcome: tuple) -> bool:
        """called by the caller the moment operation (c, k) has returned / raised to it: nothing of that operation may be left —
        it must not hold the lock and nobody may be suspended at a yield point on its behalf.  True = something is left
        (recorded in res.orphans; the run stops: from here on the run is not a function of the schedule any more)"""
        left = []
        if self.lock is not None and self.lock.locked() and self.lock.owner_op == (c, k):
            left.append("it still holds the channel lock")
        for kind in self.parked_for.get((c, k), []):
            left.append({"acquire": "a coroutine of it is still queued on the channel lock", "R": "a coroutine of it is still suspended in transport.read()",
                         "W": "a thread of it is still about to call transport.write()"}.get(kind, kind))
        if left:
            self.res.orphans.append({"op": [c, k], "outcome": [str(x) for x in outcome], "left": left})
        return bool(left)

    def current(self) -> int:
        c = self.running
        if c is None:
            raise RuntimeError("transport used while no task is released")
        return c

    def finished(self, c: int) -> None:
        self.state[c] = "done"
        self.running = None
        self.parked.set()

    async def _wait_parked(self) -> None:
        try:
            await asyncio.wait_for(self.parked.wait(), self.step_timeout)
        except asyncio.TimeoutError:
            raise HarnessStuck(f"task {self.running} did not reach a yield point within {self.step_timeout}s") from None

    async def launch(self, c: int, target) -> "asyncio.Task":
        self.running = c
        self.state[c] = "running"
        self.parked.clear()
        t = asyncio.ensure_future(target(c))
        self.tasks[c] = t
        await self._wait_parked()
        return t

    def enabled(self, c: int) -> bool:
        st = self.state[c]
        if st == "done":
            return False
        if st[1] == "acquire" and self.lock is not None and self.lock.locked():
            return False
        return True

    async def step(self, c: int) -> bool:
        if not self.enabled(c):
            self.res.steps.append((c, "-done" if self.state[c] == "done" else "-blocked"))
            return False
        kind = self.state[c][1]
        self.running = c
        self.state[c] = "running"
        self.parked.clear()
        self.go[c].set()
        await self._wait_parked()
        self.res.steps.append((c, kind))
        return True

    async def cancel(self, c: int) -> bool:
        """cancel task c while it is parked at the lock (waiting or about to take it); it then runs on to its next yield point"""
        if self.state[c] == "done" or self.state[c][1] != "acquire" or self.lock is None:
            self.res.steps.append((c, "-nocancel"))
            return False
        self.cancel_req[c] = True
        self.running = c
        self.state[c] = "running"
        self.parked.clear()
        self.tasks[c].cancel()
        await self._wait_parked()
        self.res.steps.append((c, "cancel"))
        return True

    def teardown(self) -> None:
        self.abort = True
        for g in self.go:
            g.set()


class AsyncSchedLock:
    """stands in for asyncio.Lock in `conn.channel.channel_lock`"""

    def __init__(self, ctrl: AsyncController):
        self.ctrl = ctrl
        self.real = asyncio.Lock()
        self.holders = 0
        self.owner: Optional[int] = None
        self.owner_op: Optional[Tuple[int, int]] = None
        ctrl.lock = self

    async def acquire(self) -> bool:
        c = await self.ctrl.pause("acquire")
        if self.real.locked():
            raise RuntimeError("controller released a task although the lock is taken")
        await self.real.acquire()
        self.holders += 1
        self.owner = c
        self.owner_op = (c, self.ctrl.opidx[c])
        self.ctrl.res.max_holders = max(self.ctrl.res.max_holders, self.holders)
        self.ctrl.res.lock_events.append(("acq", c, self.ctrl.opidx[c]))
        return True

    def release(self) -> None:
        c = self.owner if self.owner is not None else -1
        self.holders -= 1
        self.owner = None
        self.owner_op = None
        self.ctrl.res.lock_events.append(("rel", c, self.ctrl.opidx[c] if c >= 0 else -1))
        self.real.release()

    def locked(self) -> bool:
        return self.real.locked()

    async def __aenter__(self):
        await self.acquire()
        return None

    async def __aexit__(self, *a):
        self.release()
        return False


class AsyncSchedTransport(AsyncSimTransport):
    def __init__(self, base_transport_args, device, cuts=None, faults=None, on_empty="stall"):
        super().__init__(base_transport_args, device, cuts=cuts, faults=faults, on_empty=on_empty)
        self.ctrl: Optional[AsyncController] = None
        self.fault: Optional[Tuple[int, int]] = None

    def _count(self, c: int, kind: str) -> None:
        ctrl = self.ctrl
        ctrl.nact[c] += 1
        if self.fault == (c, ctrl.nact[c]):
            ctrl.res.wire.append((c, ctrl.opidx[c], kind, b"", True))
            raise ScrapliConnectionError(INJECTED)

    async def read(self) -> bytes:
        if self.ctrl is None:
            return await AsyncSimTransport.read(self)
        c = await self.ctrl.pause("R")
        self._count(c, "R")
        data = await AsyncSimTransport.read(self)
        self.ctrl.res.wire.append((c, self.ctrl.opidx[c], "R", data, False))
        return data

    def write(self, channel_input: bytes) -> None:
        if self.ctrl is None:
            return AsyncSimTransport.write(self, channel_input)
        c = self.ctrl.current()          # no yield point: asyncio cannot switch tasks inside a plain call
        self._count(c, "W")
        AsyncSimTransport.write(self, channel_input)
        self.ctrl.res.wire.append((c, self.ctrl.opidx[c], "W", bytes(channel_input), False))


async def run_tasks(conn, transport: AsyncSchedTransport, programs, schedule: List[int], lock_on: bool,
                    fault: Optional[Tuple[int, int]] = None, step_timeout: float = 60.0) -> RunResult:
    """programs[c] = list of callables op(conn) -> awaitable"""
    n = len(programs)
    ctrl = AsyncController(n, step_timeout)
    transport.ctrl, transport.fault = ctrl, fault
    conn.channel.channel_lock = AsyncSchedLock(ctrl) if lock_on else None
    res = ctrl.res

    async def caller_main(c: int) -> None:
        try:
            for k, op in enumerate(programs[c]):
                ctrl.opidx[c] = k
                try:
                    if not lock_on:
                        await ctrl.pause("acquire")
                    res.results[c].append(("ok", await op(conn)))
                except SchedAbort:
                    raise
                except asyncio.CancelledError:
                    if not ctrl.cancel_req[c]:
                        raise
                    ctrl.cancel_req[c] = False
                    asyncio.current_task().uncancel()
                    res.results[c].append(("cancelled",))
                    res.cancelled.add((c, k))
                except SimStall:
                    res.results[c].append(("stall",))
                    break
                except Exception as e:  # noqa: BLE001
                    res.results[c].append(("exc", type(e).__name__, str(e)))
                if ctrl.operation_ended(c, k, res.results[c][-1]):
                    break
        except SchedAbort:
            return
        except asyncio.CancelledError:
            raise
        except BaseException as e:  # noqa: BLE001
            res.results[c].append(("harness", type(e).__name__, str(e)))
        ctrl.finished(c)

    tasks = []
    base_tasks = set(asyncio.all_tasks())
    try:
        for c in range(n):
            tasks.append(await ctrl.launch(c, caller_main))
        try:
            for e in schedule:
                if res.orphans:
                    break
                if e >= 10:
                    await ctrl.cancel(e - 10)
                else:
                    await ctrl.step(e)
        except HarnessStuck:
            # a released task never came back.  If the lock is held by an operation that has already ended for its caller, that is
            # not rig trouble: it is what C19 excludes.  Anything else stays a harness problem.
            lk = ctrl.lock
            if lk is not None and lk.locked() and lk.owner_op is not None and len(res.results[lk.owner_op[0]]) > lk.owner_op[1]:
                res.orphans.append({"op": list(lk.owner_op), "outcome": [str(x) for x in res.results[lk.owner_op[0]][lk.owner_op[1]]],
                                    "left": ["it still holds the channel lock and a caller waiting for it never got it"]})
            else:
                raise
        res.all_done = all(s == "done" for s in ctrl.state)
        res.deadlock = (not res.all_done) and not any(ctrl.enabled(c) for c in range(n))
        res.lock_free_at_end = (ctrl.lock is None) or (not ctrl.lock.locked())
    finally:
        ctrl.teardown()
        stray = [t for t in asyncio.all_tasks() if t is not asyncio.current_task() and t not in base_tasks]
        for t in list(tasks) + stray:
            try:
                await asyncio.wait_for(t, 5)
            except BaseException:  # noqa: BLE001
                pass
        transport.ctrl, transport.fault = None, None
        conn.channel.channel_lock = None
    return res


# --------------------------------------------------------------------------- schedules
def all_schedules(n: int, length: int):
    """every list of `length` caller ids"""
    import itertools
    return itertools.product(range(n), repeat=length)


def round_robin(n: int, rounds: int) -> List[int]:
    return [c for _ in range(rounds) for c in range(n)]


def bounded_preemption(n: int, preemptions: int, max_run: int):
    """schedules made of preemptions+1 segments (caller, number of consecutive entries), adjacent segments of
    different callers; the last segment is left to the completion tail"""
    import itertools

    def seqs(k, prev):
        if k == 0:
            yield ()
            return
        for c in range(n):
            if c != prev:
                for rest in seqs(k - 1, c):
                    yield (c,) + rest

    for p in range(preemptions + 1):
        for callers in seqs(p + 1, None):
            for lens in itertools.product(range(1, max_run + 1), repeat=p):
                s = []
                for c, ln in zip(callers, lens):
                    s += [c] * ln
                s.append(callers[-1])
                yield s


def random_schedule(rng, n: int, length: int, stick: float = 0.5) -> List[int]:
    s, c = [], rng.randrange(n)
    for _ in range(length):
        if rng.random() > stick:
            c = rng.randrange(n)
        s.append(c)
    return s


def with_cancels(rng, sched: List[int], n: int, p: float = 0.15) -> List[int]:
    """sprinkle cancel-while-waiting events (10 + caller) into a schedule"""
    out = []
    for c in sched:
        if rng.random() < p:
            out.append(10 + rng.randrange(n))
        out.append(c)
    return out
