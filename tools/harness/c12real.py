"""C12 — the REAL transport plugins (telnet, asynctelnet, system, paramiko, asyncssh) over a scripted line.
Only the third-party / OS boundary is replaced (socket object, asyncio streams, PtyProcess, paramiko session,
asyncssh connection); behind it sits a causal device (harness/secretdevice.py, simdevice.CliDevice).

Line(dev, fault): the byte line.  fault = (where, k, action):
  where "write": at the k-th send      action "epipe" | "reset"  -> the send raises BrokenPipeError / ConnectionResetError
                                              "silent"           -> the device gets the bytes and never answers again
                                              "eof"              -> the peer closes: bytes are taken, every later read is EOF
  where "read":  at the k-th recv      action "eof" | "reset" | "silent"
An empty line blocks the reader (poll) until bytes arrive, the line is closed (by transport.close(), e.g. from the
timeout handler) or HARD_CAP seconds have passed (then RigStall, a BaseException: rig trouble, never a verdict)."""
import asyncio, errno, socket, time

HARD_CAP = 8.0


class RigStall(BaseException):
    """a read blocked longer than HARD_CAP: no operation timeout fired (harness trouble)"""


class Line:
    def __init__(self, dev, fault=None):
        self.dev, self.fault = dev, tuple(fault) if fault else None
        self.buf = bytearray()
        self.trace = []          # ("W", bytes) | ("R", bytes) | ("fault", action)
        self.nreads = self.nwrites = 0
        self.closed = self.silent = self.eof = self.broken = False
        self.fired = False

    def connect(self):
        self.closed = False
        self.buf += self.dev.connect()

    def _hit(self, where, n):
        f = self.fault
        if f and not self.fired and f[0] == where and f[1] == n:
            self.fired = True
            self.trace.append(("fault", f[2]))
            return f[2]
        return None

    def send(self, data):
        data = bytes(data)
        if self.closed:
            raise OSError(errno.EBADF, "Bad file descriptor")
        if self.broken:
            raise BrokenPipeError(errno.EPIPE, "Broken pipe")
        self.nwrites += 1
        act = self._hit("write", self.nwrites)
        if act == "epipe":
            self.broken = True
            raise BrokenPipeError(errno.EPIPE, "Broken pipe")
        if act == "reset":
            self.broken = True
            raise ConnectionResetError(errno.ECONNRESET, "Connection reset by peer")
        if act == "silent":
            self.silent = True
            self.buf.clear()
        if act == "eof":
            self.eof = True
            self.buf.clear()
        self.trace.append(("W", data))
        if not (self.silent or self.eof):
            self.buf += self.dev.on_write(data)
        return len(data)

    def _pre_recv(self):
        if self.closed:
            raise OSError(errno.EBADF, "Bad file descriptor")
        self.nreads += 1
        act = self._hit("read", self.nreads)
        if act == "eof":
            self.eof = True
            self.buf.clear()
        elif act == "silent":
            self.silent = True
            self.buf.clear()
        elif act == "reset":
            self.broken = True
            self.buf.clear()
            raise ConnectionResetError(errno.ECONNRESET, "Connection reset by peer")
        if self.broken:
            raise ConnectionResetError(errno.ECONNRESET, "Connection reset by peer")

    def _take(self, n):
        out = bytes(self.buf[:n])
        del self.buf[:n]
        self.trace.append(("R", out))
        return out

    def recv(self, n=65535):
        """blocking; b"" = EOF"""
        self._pre_recv()
        t0 = time.monotonic()
        while not self.buf:
            if self.eof:
                return b""
            if self.closed:
                raise OSError(errno.EBADF, "Bad file descriptor")
            if time.monotonic() - t0 > HARD_CAP:
                raise RigStall()
            time.sleep(0.002)
        return self._take(n)

    async def arecv(self, n=65535):
        self._pre_recv()
        t0 = time.monotonic()
        while not self.buf:
            if self.eof:
                return b""
            if self.closed:
                raise OSError(errno.EBADF, "Bad file descriptor")
            if time.monotonic() - t0 > HARD_CAP:
                raise RigStall()
            await asyncio.sleep(0.002)
        return self._take(n)

    def close(self):
        self.closed = True

    def writes(self):
        return b"".join(x[1] for x in self.trace if x[0] == "W")

    def reads(self):
        return [x[1] for x in self.trace if x[0] == "R"]

    def secret_steps(self, cores):
        """[(write index, reads done before it)] of the writes that carry one of `cores` (bytes)"""
        out, nw, nr = [], 0, 0
        for x in self.trace:
            if x[0] == "W":
                nw += 1
                if any(c in x[1] for c in cores):
                    out.append((nw, nr))
            elif x[0] == "R":
                nr += 1
        return out


# ------------------------------------------------------------------ telnet / paramiko: scrapli's Socket wrapper
class _RawSock:
    def __init__(self, line):
        self.line = line

    def send(self, data, *a):
        return self.line.send(data)

    def recv(self, n, *a):
        return self.line.recv(n)

    def settimeout(self, t):
        pass

    def close(self):
        self.line.close()


class FakeSocket:
    """stands in for scrapli.transport.base.base_socket.Socket"""

    def __init__(self, line):
        self.line, self.sock = line, None

    def open(self):
        self.sock = _RawSock(self.line)
        self.line.connect()

    def close(self):
        self.line.close()
        self.sock = None

    def isalive(self):
        return self.sock is not None and not self.line.closed

    def __bool__(self):
        return self.isalive()


# ------------------------------------------------------------------ asynctelnet: asyncio streams
class FakeReader:
    def __init__(self, line):
        self.line = line

    async def read(self, n=65535):
        return await self.line.arecv(n)

    def at_eof(self):
        return self.line.eof and not self.line.buf


class FakeWriter:
    def __init__(self, line):
        self.line = line

    def write(self, data):
        self.line.send(data)

    def close(self):
        self.line.close()

    async def wait_closed(self):
        return None


class AsyncioWithLine:
    """the `asyncio` name inside the asynctelnet plugin: open_connection gives the scripted line"""

    def __init__(self, line):
        self._line = line

    def __getattr__(self, name):
        return getattr(asyncio, name)

    async def open_connection(self, host=None, port=None, **kw):
        self._line.connect()
        return FakeReader(self._line), FakeWriter(self._line)


# ------------------------------------------------------------------ system: PtyProcess
class FakePty:
    def __init__(self, line):
        self.line = line
        line.connect()

    def read(self, n):
        try:
            out = self.line.recv(n)
        except ConnectionResetError:
            raise EOFError("End Of File (EOF). Exception style platform.") from None
        if not out:
            raise EOFError("End Of File (EOF). Empty string style platform.")
        return out

    def write(self, data):
        try:
            return self.line.send(data)
        except OSError:
            raise OSError(errno.EIO, "Input/output error") from None

    def close(self):
        self.line.close()

    def isalive(self):
        return not (self.line.closed or self.line.eof or self.line.broken)

    def eof(self):
        return self.line.eof


def fake_ptyprocess(line, spawned):
    class FakePtyProcess:
        @staticmethod
        def spawn(cmd, echo=True, rows=80, cols=256):
            spawned["cmd"] = list(cmd)
            return FakePty(line)
    return FakePtyProcess


# ------------------------------------------------------------------ paramiko
class FakeParamikoChannel:
    def __init__(self, line):
        self.line = line
        self.closed = False

    @property
    def eof_received(self):
        return self.line.eof

    def get_pty(self, *a, **k):
        pass

    def invoke_shell(self):
        self.line.connect()

    def settimeout(self, v):
        pass

    def send(self, data):
        try:
            return self.line.send(data)
        except OSError:
            raise socket.error("Socket is closed") from None

    def recv(self, n):
        return self.line.recv(n)

    def close(self):
        self.closed = True
        self.line.close()


def fake_paramiko_session(line, seen):
    class FakeSession:
        def __init__(self, sock):
            self.authed = False
            self.disabled_algorithms = {}

        def start_client(self):
            pass

        def auth_password(self, username, password):
            seen["password"] = password
            self.authed = True

        def auth_publickey(self, username, key):
            self.authed = True

        def is_authenticated(self):
            return self.authed

        def is_alive(self):
            return not line.closed

        def open_session(self):
            return FakeParamikoChannel(line)

        def close(self):
            line.close()
    return FakeSession


class PlainSocket:
    """Socket stand-in for paramiko (the session, not the socket, carries the bytes)"""

    def __init__(self, **kw):
        self.sock, self.alive = object(), False

    def isalive(self):
        return self.alive

    def open(self):
        self.alive = True

    def close(self):
        self.alive = False


# ------------------------------------------------------------------ asyncssh
class _SshStdin:
    def __init__(self, line):
        self.line = line

    def write(self, data):
        try:
            self.line.send(data)
        except OSError:
            raise BrokenPipeError("Channel not open for sending") from None


class _SshStdout:
    def __init__(self, line):
        self.line = line

    async def read(self, n):
        return await self.line.arecv(n)

    def at_eof(self):
        return self.line.eof and not self.line.buf


class _LoopTransport:
    def __init__(self, line):
        self.line = line

    def is_closing(self):
        return self.line.closed


def fake_asyncssh_connect(line, seen):
    class Session:
        _auth_complete = True

        def __init__(self):
            self._transport = _LoopTransport(line)

        async def open_session(self, **kw):
            line.connect()
            return _SshStdin(line), _SshStdout(line), _SshStdout(line)

        def get_server_host_key(self):
            return None

        def close(self):
            line.close()

    async def connect(**kw):
        seen.update(kw)
        return Session()
    return connect
