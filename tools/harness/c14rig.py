"""C14 rig: Sim transports with soft faults / a recorded `_set_timeout`, a site-level probe that is hung
on a constructed real driver from outside (instance attributes only), and the case runner.

A *case* is JSON-serialisable:
  {"driver": "generic"|"iosxe"|"network", "stack": "sync"|"async", "push": bool, "base": [timeout_ops, timeout_transport],
   "ops": [opspec...], "faults": [{"at_read": k | "at_write": k, "exc": "timeout"|"conn"|"other"|"eof"|"silent", "soft": bool}],
   "on_empty": "empty"|"block"}
opspec: {"op": "send_command"|"send_commands"|"send_commands_from_file"|"send_and_read"|"send_interactive"|
               "send_configs"|"send_config"|"send_configs_from_file"|"read_callback", ...}   (see `_call`)
The probe logs one entry per *model-level call site* (outermost instrumented call only) with the timeouts in force."""
import asyncio, inspect, os, re, tempfile, time
from copy import deepcopy

from harness.simdevice import CliDevice
from harness.simtransport import AsyncSimTransport, FaultPlan, SimTransport, make_conn
from scrapli.decorators import timeout_wrapper
from scrapli.exceptions import (ScrapliConnectionError, ScrapliConnectionNotOpened, ScrapliPrivilegeError, ScrapliTimeout, ScrapliTypeError)

FAIL_TEXT = "% Invalid input"
BUDGET = 60          # transport reads per operation before the rig declares a runaway loop


class RigRunaway(Exception):
    """the operation keeps reading although the device has nothing more to say"""


class RigFault(Exception):
    """an exception class scrapli knows nothing about"""


class _RigMixin:
    op_reads = 0
    session_timeout = None
    pushes = None

    def _fire(self, f):
        if f.action == "timeout_close":
            # what decorators._handle_timeout does when a real timer expires: close the transport, raise ScrapliTimeout
            f.fired = True
            self.trace.append(("fault", "timeout_close"))
            self._do_close()
            raise ScrapliTimeout("rig: timed out, transport closed")
        if getattr(f, "soft", False) and not isinstance(f.action, str):
            f.fired = True
            self.trace.append(("fault", type(f.action).__name__))
            raise f.action
        return super()._fire(f)

    def _pre_read(self):
        self.op_reads += 1
        if self.op_reads > BUDGET:
            raise RigRunaway(f"more than {BUDGET} reads in one operation")
        return super()._pre_read()


BLOCK_MAX = 3.0     # a read that really blocks gives up after this long (the harness must never hang)


class RigTransport(_RigMixin, SimTransport):
    @timeout_wrapper
    def read(self) -> bytes:
        self._pre_read()
        if not self.buf:
            if self.on_empty == "empty":
                self.trace.append(("R", b""))
                return b""
            t0 = time.time()
            while not self.buf:   # "block"
                if self._wake.wait(0.005) or not self.opened:
                    raise ScrapliConnectionError("transport closed while blocked in read")
                if time.time() - t0 > BLOCK_MAX:
                    raise RigRunaway("read blocked and nothing woke it")
        return self._take()


class AsyncRigTransport(_RigMixin, AsyncSimTransport):
    @timeout_wrapper
    async def read(self) -> bytes:
        self._pre_read()
        if not self.buf:
            if self.on_empty == "empty":
                self.trace.append(("R", b""))
                await asyncio.sleep(0)
                return b""
            t0 = time.time()
            while not self.buf:
                await asyncio.sleep(0.005)
                if not self.opened:
                    raise ScrapliConnectionError("transport closed while blocked in read")
                if time.time() - t0 > BLOCK_MAX:
                    raise RigRunaway("read blocked and nothing woke it")
        return self._take()


class _PushMixin:
    """a library-session transport: the driver's timeout_transport setter calls `_set_timeout` (paramiko / ssh2)"""

    def _set_timeout(self, value):
        if not self.opened:
            raise ScrapliConnectionNotOpened     # paramiko/transport.py `if not self.session_channel`, ssh2 `if not self.session`
        self.session_timeout = value
        if self.pushes is None:
            self.pushes = []
        self.pushes.append(value)


class RigPushTransport(_PushMixin, RigTransport):
    def open(self):
        super().open()
        self._set_timeout(self._base_transport_args.timeout_transport)   # paramiko/transport.py:248


class AsyncRigPushTransport(_PushMixin, AsyncRigTransport):
    async def open(self):
        await super().open()
        self._set_timeout(self._base_transport_args.timeout_transport)


def exc_code(e):
    """exception -> the model's class code"""
    if e is None:
        return "-"
    if isinstance(e, ScrapliTimeout):
        return "t"
    if isinstance(e, ScrapliConnectionError):
        return "c"
    if isinstance(e, ScrapliPrivilegeError):
        return "p"
    if isinstance(e, ScrapliTypeError):
        return "y"
    table = {"IndexError": 0, "RigFault": 1, "error": 3, "PatternError": 3, "ValueError": 4, "CancelledError": 5, "RigRunaway": 6,
             "UnicodeDecodeError": 7, "TimeoutError": 8}
    return f"o{table.get(type(e).__name__, 9)}"


class Probe:
    """logs the outermost instrumented call sites of one operation"""

    def __init__(self, conn, transport, swap_in_try=False):
        self.conn, self.t = conn, transport
        self.swap_in_try = swap_in_try      # (from the translator) names the region of read_callback's first push
        self.cb_frames = []                 # pushes seen so far, per active read_callback level
        self.chan_swapped = False
        self.log = []
        self.depth = 0
        self.in_chan = 0
        self.chan_reads = []
        self.is_async = inspect.iscoroutinefunction(conn.channel.read)

    # -- observation
    def obs(self):
        c = self.conn
        return (c.timeout_ops, c.timeout_transport, c._base_transport_args.timeout_transport, c._base_channel_args.timeout_ops,
                self.t.session_timeout if hasattr(self.t, "_set_timeout") else None)

    def _enter(self, site):
        if site == "push":
            if self.cb_frames and self.cb_frames[-1] == 0:
                region = "cb" if self.swap_in_try else "swap"
            else:
                region = "n"
            if self.cb_frames:
                self.cb_frames[-1] += 1
        elif site == "read":
            region = "chan" if self.in_chan else "cb"
        elif site == "check":
            region = "cb"
        else:
            region = "n"
        o = self.obs()
        e = {"site": site, "region": region, "ops": o[3], "tr": o[2], "sess": o[4], "exc": None, "flag": False}
        self.log.append(e)
        if site == "read" and self.in_chan:
            self.chan_reads.append(e)
        return e

    # -- wrappers
    def _site(self, obj, name, site, post=None):
        orig = getattr(obj, name)
        probe = self
        if inspect.iscoroutinefunction(orig):
            async def w(*a, **k):
                if probe.depth:
                    return await orig(*a, **k)
                e = probe._enter(site)
                probe.depth += 1
                try:
                    r = await orig(*a, **k)
                except BaseException as x:
                    e["exc"] = exc_code(x)
                    raise
                finally:
                    probe.depth -= 1
                if post:
                    post(e, r)
                return r
        else:
            def w(*a, **k):
                if probe.depth:
                    return orig(*a, **k)
                e = probe._enter(site)
                probe.depth += 1
                try:
                    r = orig(*a, **k)
                except BaseException as x:
                    e["exc"] = exc_code(x)
                    raise
                finally:
                    probe.depth -= 1
                if post:
                    post(e, r)
                return r
        setattr(obj, name, w)

    def _bracket_chan(self, ch):
        orig = ch._read_until_prompt_or_time
        probe = self
        if inspect.iscoroutinefunction(orig):
            async def w(*a, **k):
                probe.in_chan += 1
                probe.chan_reads = []
                probe.chan_swapped = False
                try:
                    r = await orig(*a, **k)
                finally:
                    probe.in_chan -= 1
                if probe.chan_reads:
                    probe.chan_reads[-1]["flag"] = True      # the loop ended after this read
                return r
        else:
            def w(*a, **k):
                probe.in_chan += 1
                probe.chan_reads = []
                probe.chan_swapped = False
                try:
                    r = orig(*a, **k)
                finally:
                    probe.in_chan -= 1
                if probe.chan_reads:
                    probe.chan_reads[-1]["flag"] = True
                return r
        ch._read_until_prompt_or_time = w

    def _post(self):
        orig = self.conn._post_send_command
        probe = self

        def w(*a, **k):
            r = orig(*a, **k)
            for e in reversed(probe.log):
                if e["site"] == "send_input":
                    e["flag"] = bool(r.failed)
                    break
            return r
        self.conn._post_send_command = w

    def _bracket_read_callback(self):
        orig = self.conn.read_callback
        probe = self
        if inspect.iscoroutinefunction(orig):
            async def w(*a, **k):
                level = k.get("initial_input") is None and len(a) < 2
                if level:
                    probe.cb_frames.append(0)
                try:
                    return await orig(*a, **k)
                finally:
                    if level:
                        probe.cb_frames.pop()
        else:
            def w(*a, **k):
                level = k.get("initial_input") is None and len(a) < 2
                if level:
                    probe.cb_frames.append(0)
                try:
                    return orig(*a, **k)
                finally:
                    if level:
                        probe.cb_frames.pop()
        self.conn.read_callback = w

    def hostile_args(self, raise_at):
        """emulation of an asynchronous exception (SIGALRM handler) arriving right after the swapping store of
        `_read_until_prompt_or_time` and before its `try`: the args object raises ScrapliTimeout from inside the store,
        AFTER storing, at the raise_at-th swap (0 = never).  Every swap is logged as a `gap` site."""
        args = self.conn._base_transport_args
        probe = self
        probe.gaps = 0

        class Hostile(type(args)):
            def __setattr__(self, name, value):
                object.__setattr__(self, name, value)
                if name == "timeout_transport" and probe.in_chan and not probe.chan_swapped:
                    probe.chan_swapped = True
                    probe.gaps += 1
                    o = probe.obs()
                    e = {"site": "gap", "region": "gap", "ops": o[3], "tr": o[2], "sess": o[4], "exc": None, "flag": False}
                    probe.log.append(e)
                    if probe.gaps == raise_at:
                        e["exc"] = "t"
                        raise ScrapliTimeout("rig: asynchronous timeout between the swap and the try")
        args.__class__ = Hostile

    def install(self):
        c, ch = self.conn, self.conn.channel
        if hasattr(self.t, "_set_timeout"):
            self._site(self.t, "_set_timeout", "push")
        self._bracket_read_callback()
        for name, site in (("send_input", "send_input"), ("send_inputs_interact", "interact"), ("write", "write"),
                           ("_read_until_input", "read_until_input"), ("send_return", "send_return"), ("read", "read")):
            self._site(ch, name, site)
        self._bracket_chan(ch)
        self._site(c, "_pre_send_command", "pre")
        self._site(c, "_pre_send_interactive", "pre")
        self._post()
        if hasattr(c, "acquire_priv"):
            self._site(c, "_acquire_appropriate_privilege_level", "acquire")
            self._site(c, "acquire_priv", "acquire")
            self._site(c, "_abort_config", "abort")
            self._site(c, "_pre_send_configs", "pre")
        return self

    def callback(self, cb):
        """instrument one ReadCallback object"""
        probe = self

        def post_check(e, r):
            e["flag"] = (r is True) and not (cb.only_once is True and cb._triggered is True)
        self._site(cb, "check", "check", post=post_check)
        orig_run = cb.run

        def run_w(*a, **k):
            if probe.depth:
                return orig_run(*a, **k)
            e = probe._enter("run")
            probe.depth += 1
            try:
                r = orig_run(*a, **k)
            except BaseException as x:
                e["exc"] = exc_code(x)
                probe.depth -= 1
                raise
            if inspect.isawaitable(r):
                async def co():
                    try:
                        return await r
                    except BaseException as x:
                        e["exc"] = exc_code(x)
                        raise
                    finally:
                        probe.depth -= 1
                return co()
            probe.depth -= 1
            return r
        cb.run = run_w
        return cb


# ---------------------------------------------------------------- building a connection for a case
def _outputs(mode, line):
    line = line.strip()
    if line == "show clock":
        return "clock-output 12:00"
    if line == "show version":
        return "version-output 1.0"
    return None


def _mk_exc(kind):
    return {"timeout": ScrapliTimeout("rig: injected timeout"), "conn": ScrapliConnectionError("rig: injected connection error"),
            "other": RigFault("rig: injected")}.get(kind, kind)


def build(case):
    stack = case["stack"]
    dev = CliDevice("cisco_iosxe", outputs=_outputs, fail_lines={"bad cmd"},
                    refuse={("privilege_exec", "configure terminal")} if case.get("refuse_config") else None)
    faults = []
    for f in case.get("faults", []):
        fp = FaultPlan(at_read=f.get("at_read"), at_write=f.get("at_write"), action=_mk_exc(f["exc"]))
        fp.soft = bool(f.get("soft"))
        faults.append(fp)
    push = case.get("push")
    tcls = ((RigPushTransport if push else RigTransport) if stack == "sync" else (AsyncRigPushTransport if push else AsyncRigTransport))
    kw = {"timeout_ops": case["base"][0], "timeout_transport": case["base"][1]}
    drv = case["driver"]
    if drv == "network":
        from scrapli.driver.core.cisco_iosxe.base_driver import PRIVS
        kw.update(privilege_levels=deepcopy(PRIVS), default_desired_privilege_level="privilege_exec")
    platform = {"generic": "generic", "iosxe": "cisco_iosxe", "network": "network"}[drv]
    conn, t = make_conn(platform, dev, stack=stack, faults=faults, on_empty=case.get("on_empty", "empty"), transport_cls=tcls, **kw)
    return conn, t, dev


_TMP = {}


def _tmpfile(lines):
    key = tuple(lines)
    if key not in _TMP:
        fd, p = tempfile.mkstemp(prefix="c14-", suffix=".txt")
        os.write(fd, ("\n".join(lines) + "\n").encode())
        os.close(fd)
        _TMP[key] = p
    return _TMP[key]


def cleanup():
    for p in _TMP.values():
        try:
            os.unlink(p)
        except OSError:
            pass
    _TMP.clear()


def _lines(spec, good):
    n, fail_at = spec.get("n", 1), spec.get("fail_at")
    return ["bad cmd" if i == fail_at else good for i in range(n)]


def _callbacks(spec, probe, is_async):
    from scrapli.driver.generic.base_driver import ReadCallback
    out = []
    for c in spec["cbs"]:
        send, rz = c.get("send"), c.get("raise")

        def fn(drv, output, send=send, rz=rz):
            if rz == "run":
                raise ValueError("rig: callback failed")
            if send:
                drv.channel.write(send + "\n")

        async def afn(drv, output, send=send, rz=rz):
            await asyncio.sleep(0)
            if rz == "run":
                raise ValueError("rig: callback failed")
            if send:
                drv.channel.write(send + "\n")
        kw = dict(callback=afn if (is_async and c.get("async_cb", True)) else fn, complete=bool(c.get("complete")),
                  only_once=bool(c.get("only_once")), name=c.get("name", "cb"), next_delay=0.0001)
        if "next" in c:
            kw["next_timeout"] = c["next"]
        if rz == "check":
            kw["contains_re"] = "("                      # re.error when the check compiles it
        else:
            kw["contains"] = c["contains"]
        out.append(probe.callback(ReadCallback(**kw)))
    return out


def _call(conn, spec, probe, is_async):
    """the bound call for one opspec: a thunk returning the result (sync) or a coroutine (async)"""
    op = spec["op"]
    kw = {}
    ov = spec.get("ov")
    if ov is not None:
        kw["timeout_ops"] = "5" if ov == "bad" else ov
    generic = not hasattr(conn, "acquire_priv")
    fwc = {"failed_when_contains": [FAIL_TEXT]} if generic else {}
    if op == "send_command":
        return lambda: conn.send_command("bad cmd" if spec.get("fail_at") == 0 else "show version", **fwc, **kw)
    if op == "send_commands":
        return lambda: conn.send_commands(_lines(spec, "show version"), stop_on_failed=bool(spec.get("stop")), **fwc, **kw)
    if op == "send_commands_from_file":
        return lambda: conn.send_commands_from_file(_tmpfile(_lines(spec, "show version")), stop_on_failed=bool(spec.get("stop")), **fwc, **kw)
    if op == "send_and_read":
        if spec.get("rd", "omit") != "omit":
            kw["read_duration"] = spec["rd"]
        if spec.get("expect"):
            kw["expected_outputs"] = [spec["expect"]]
        return lambda: conn.send_and_read("show version", **kw)
    if op == "send_interactive":
        if spec.get("priv") is not None and not generic:
            kw["privilege_level"] = spec["priv"]
        return lambda: conn.send_interactive([("show clock", "r1#", False)], **kw)
    if op == "send_configs":
        if spec.get("priv"):
            kw["privilege_level"] = spec["priv"]
        return lambda: conn.send_configs(_lines(spec, "interface lo0"), stop_on_failed=bool(spec.get("stop")), **kw)
    if op == "send_config":
        if spec.get("priv"):
            kw["privilege_level"] = spec["priv"]
        return lambda: conn.send_config("\n".join(_lines(spec, "interface lo0")), stop_on_failed=bool(spec.get("stop")), **kw)
    if op == "send_configs_from_file":
        return lambda: conn.send_configs_from_file(_tmpfile(_lines(spec, "interface lo0")), stop_on_failed=bool(spec.get("stop")), **kw)
    if op == "read_callback":
        cbs = _callbacks(spec, probe, is_async)
        a = dict(callbacks=cbs, initial_input="show version" if spec.get("init") else None, read_delay=0.0001)
        if spec.get("rt", "omit") != "omit":
            a["read_timeout"] = spec["rt"]
        return lambda: conn.read_callback(**a)
    raise ValueError(f"unknown op {op}")


def _step(probe, t, before, exc):
    last = probe.log[-1] if probe.log else None
    escape = None
    if exc is not None and last is not None and last["exc"] is not None and last["region"] in ("chan", "cb", "swap", "gap"):
        escape = {"site": last["site"], "region": last["region"], "exc": last["exc"]}
    return {"res": exc_code(exc), "exc_repr": repr(exc)[:120] if exc is not None else None, "before": before, "after": probe.obs(),
            "log": probe.log, "escape": escape, "reads": t.nreads, "writes": t.nwrites, "session_open": bool(t.opened)}


def _second(case):
    """the commandeering driver B of a `commandeer` case: same stack, its own configured timeouts, its own (unused) transport"""
    spec = case["commandeer"]
    c2 = dict(case, driver=spec.get("driver", case["driver"]), base=spec["base"], faults=[], push=False)
    c2.pop("commandeer", None)
    conn_b, t_b, _ = build(c2)
    return conn_b


def _targets(case, conn, t):
    """-> {'A': (conn, probe)[, 'B': (conn_b, probe_b)]}; after B.commandeer(A) both drivers talk through A's transport"""
    probe = Probe(conn, t, bool(case.get("swap_in_try"))).install()
    if case.get("gap") is not None:
        probe.hostile_args(case["gap"])
    return {"A": (conn, probe)}


def _reset(probes, t):
    for _, pr in probes.values():
        pr.log, pr.depth, pr.in_chan, pr.cb_frames = [], 0, 0, []
    t.op_reads = 0


def _obs_all(targets, who):
    """the observables of the driver the call is made on, then those of the other driver(s)"""
    out = tuple(targets[who][1].obs())
    for k in sorted(targets):
        if k != who:
            out += tuple(targets[k][1].obs())
    return out


def _set_step(conn, spec):
    """the user reconfigures the connection through the public setter"""
    setattr(conn, spec["attr"], spec["value"])


def _finish(step, targets, who, spec):
    step["after"] = _obs_all(targets, who)
    if spec.get("op") == "set":
        step["set"] = [spec["attr"], spec["value"]]
    step["on"] = who
    return step


def run_case_sync(case):
    conn, t, dev = build(case)
    t.open()
    targets = _targets(case, conn, t)
    if case.get("commandeer"):
        conn_b = _second(case)
        conn_b.commandeer(conn, execute_on_open=False)
        targets["B"] = (conn_b, Probe(conn_b, t, bool(case.get("swap_in_try"))).install())
    steps = []
    for spec in case["ops"]:
        who = spec.get("on", "B" if "B" in targets else "A")
        c, probe = targets[who]
        _reset(targets, t)
        before = _obs_all(targets, who)
        exc = None
        try:
            if spec["op"] == "set":
                _set_step(c, spec)
            else:
                thunk = _call(c, spec, probe, False)
                thunk()
        except Exception as e:      # noqa: every outcome is an observation
            exc = e
        steps.append(_finish(_step(probe, t, before, exc), targets, who, spec))
    return steps


async def run_case_async(case):
    conn, t, dev = build(case)
    await t.open()
    targets = _targets(case, conn, t)
    if case.get("commandeer"):
        conn_b = _second(case)
        await conn_b.commandeer(conn, execute_on_open=False)
        targets["B"] = (conn_b, Probe(conn_b, t, bool(case.get("swap_in_try"))).install())
    steps = []
    for spec in case["ops"]:
        who = spec.get("on", "B" if "B" in targets else "A")
        c, probe = targets[who]
        _reset(targets, t)
        before = _obs_all(targets, who)
        exc = None
        try:
            if spec["op"] == "set":
                _set_step(c, spec)
            else:
                thunk = _call(c, spec, probe, True)
                if spec.get("cancel_after") is not None:
                    await asyncio.wait_for(thunk(), timeout=spec["cancel_after"])
                else:
                    await thunk()
        except (Exception, asyncio.CancelledError) as e:
            exc = e
        steps.append(_finish(_step(probe, t, before, exc), targets, who, spec))
    t.close()
    return steps
