"""Devices for C12 (secrets): a login front-end that does NOT echo what is typed at password / passphrase
prompts (as real devices and OpenSSH do), wrapped around any causal device (CliDevice), and a scripted
device for send_interactive dialogues.  Written for C12 only; independent of the C09 login device.

LoginDevice(inner, mode="telnet" | "ssh", username, password, passphrase=None)
  telnet: "Username: " (typed name is echoed) -> "Password: " (no echo) -> inner.connect()
          wrong name/password -> "% Login invalid" and the dialogue starts again
  ssh:    [ "Enter passphrase for key '/k/id_rsa': " (no echo) -> ] "<user>@<host>'s password: " (no echo)
          -> inner.connect();  wrong password -> "Permission denied, please try again." + prompt again,
          after `max_tries` -> "<user>@<host>: Permission denied (publickey,password)." and silence
typed records what was typed at each prompt: [("username"|"password"|"passphrase", text)]"""
from typing import List, Optional, Tuple

from harness.simdevice import CliDevice


class LoginDevice:
    def __init__(self, inner, mode: str = "telnet", username: str = "admin", password: str = "pw", passphrase: Optional[str] = None,
                 host: str = "sim", max_tries: int = 3, nl: bytes = b"\n", banner: bytes = b"", retry: str = "default",
                 deny_text: str = "Permission denied, please try again."):
        self.inner, self.mode, self.username, self.password, self.passphrase = inner, mode, username, password, passphrase
        self.host, self.max_tries, self.nl, self.banner = host, max_tries, nl, banner
        # retry="password": after a wrong password only the password is asked again (also for telnet)
        self.retry, self.deny_text = retry, deny_text
        self.state = "init"
        self.linebuf = bytearray()
        self.tries = 0
        self.typed: List[Tuple[str, str]] = []
        self.got_user = ""
        self.logged_in = False

    # prompts
    def _p_user(self) -> bytes:
        return b"Username: "

    def _p_pass(self) -> bytes:
        return b"Password: " if self.mode == "telnet" else f"{self.username}@{self.host}'s password: ".encode()

    def _p_phrase(self) -> bytes:
        return b"Enter passphrase for key '/k/id_rsa': "

    def connect(self) -> bytes:
        if self.mode == "telnet":
            self.state = "username"
            return self.banner + self._p_user()
        if self.passphrase is not None:
            self.state = "passphrase"
            return self.banner + self._p_phrase()
        self.state = "password"
        return self.banner + self._p_pass()

    def on_write(self, data: bytes) -> bytes:
        if self.state == "shell":
            return self.inner.on_write(data)
        out = bytearray()
        for i, b in enumerate(data):
            if self.state == "shell":
                out += self.inner.on_write(data[i:])
                break
            if self.state == "dead":
                break
            if b == 0x0A:
                out += self._line(bytes(self.linebuf).decode("utf-8", "replace"))
                self.linebuf.clear()
            elif b == 0x0D:
                continue
            else:
                self.linebuf.append(b)
                if self.state == "username":
                    out.append(b)          # only the user name is echoed
        return bytes(out)

    def _line(self, line: str) -> bytes:
        nl = self.nl
        self.typed.append((self.state, line))
        if self.state == "username":
            if line == "":
                return nl + self._p_user()
            self.got_user = line
            self.state = "password"
            return nl + self._p_pass()
        if self.state == "passphrase":
            if line == self.passphrase:
                self.state = "password"
                return nl + self._p_pass()
            self.tries += 1
            if self.tries >= self.max_tries:
                self.state = "dead"
                return nl + f"{self.username}@{self.host}: Permission denied (publickey,password).".encode() + nl
            return nl + self._p_phrase()
        if self.state == "password":
            ok = line == self.password and (self.mode != "telnet" or self.got_user == self.username)
            if ok:
                self.state, self.logged_in = "shell", True
                return nl + self.inner.connect()
            self.tries += 1
            if self.mode == "telnet" and self.retry == "password":
                return nl + b"% Bad password" + nl + self._p_pass()
            if self.mode == "telnet":
                self.state = "username"
                return nl + b"% Login invalid" + nl + nl + self._p_user()
            if self.tries >= self.max_tries:
                self.state = "dead"
                return nl + f"{self.username}@{self.host}: Permission denied (publickey,password).".encode() + nl
            return nl + self.deny_text.encode() + nl + self._p_pass()
        return b""


class DialogueDevice:
    """scripted dialogue for send_interactive: after the k-th non-empty typed line the device prints replies[k]
    (the expected prompt of event k).  Typed characters are echoed unless the k-th entry of `hidden`
    is true (devices do not echo at password prompts); echo_all=True echoes everything."""

    def __init__(self, first_prompt: str, replies: List[str], hidden: List[bool], echo_all: bool = False, nl: bytes = b"\n"):
        self.first_prompt, self.replies, self.hidden, self.echo_all, self.nl = first_prompt, replies, hidden, echo_all, nl
        self.k = 0
        self.current = first_prompt
        self.linebuf = bytearray()
        self.lines: List[str] = []

    def connect(self) -> bytes:
        return self.first_prompt.encode()

    def on_write(self, data: bytes) -> bytes:
        out = bytearray()
        for b in data:
            if b == 0x0A:
                line = bytes(self.linebuf).decode("utf-8", "replace")
                self.linebuf.clear()
                if line == "":                      # a bare return: the current prompt again
                    out += self.nl + self.current.encode()
                    continue
                self.lines.append(line)
                self.current = self.replies[self.k] if self.k < len(self.replies) else self.first_prompt
                self.k += 1
                out += self.nl + self.current.encode()
            elif b == 0x0D:
                continue
            else:
                self.linebuf.append(b)
                hid = self.k < len(self.hidden) and self.hidden[self.k]
                if self.echo_all or not hid:
                    out.append(b)
        return bytes(out)


class BadSecretDevice(CliDevice):
    """a CliDevice that gives ONE try at a password prompt (enable / root shell): a wrong password is answered with an
    error line and the prompt of the mode the device was in before (EOS style "% Bad secret" and back at `>`), i.e.
    the read after the hidden input ends on the previous privilege level's prompt, not on the expected one.
    Nothing typed at the password prompt is echoed (inherited)."""

    def __init__(self, *a, deny_text: str = "% Bad secret", **kw):
        super().__init__(*a, **kw)
        self.deny_text = deny_text

    def _execute(self, raw: bytes) -> bytes:
        if self.pending is not None:
            line = raw.decode("utf-8", "replace")
            if line != self.enable_password:
                self.pending = None
                self.pw_tries = 0
                self.events.append(("password", False))
                return self._frame(self.deny_text)
        return super()._execute(raw)
