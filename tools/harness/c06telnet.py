"""C06 real-transport rigs: the REAL TelnetTransport / AsynctelnetTransport under the real driver stacks against
an in-process loopback TCP device (a thread playing harness.c06scen.LoginDev behind Telnet option negotiation),
plus the connection-establishment failure cases (refused / unresolvable / silent listener).
Wall-clock is involved here (sockets, the 0.1 s sleeps of the asyncio login loop): every time-out is generous
and harness trouble is reported as such (never as a violation)."""
import asyncio, socket, threading, time

from harness import c06scen as S

IAC = 255
# DO TTYPE, WILL ECHO, WILL SGA, DO NAWS, DO SGA, DONT ECHO, WONT TTYPE  (every verb, the special-cased option 3; < 10 commands)
NEGO = bytes([255, 253, 24, 255, 251, 1, 255, 251, 3, 255, 253, 31, 255, 253, 3, 255, 254, 1, 255, 252, 24])
# variant 4: TRANSMIT-BINARY (option 0) in both directions, option 255, NUL padding right behind a command
NEGO_VARIANTS = [NEGO, b"", bytes([255, 253, 3]), bytes([255, 251, 3, 255, 254, 3, 255, 252, 1, 255, 253, 1]),
                 bytes([255, 253, 0, 255, 251, 0, 255, 253, 24, 0, 255, 251, 255, 13, 0, 10])]


class TelnetServer(threading.Thread):
    """one-connection loopback device; records application bytes and IAC replies it receives"""

    def __init__(self, dev, nego=NEGO, drop_after=None, seg=None):
        super().__init__(daemon=True)
        self.dev, self.nego, self.drop_after, self.seg = dev, nego, drop_after, seg
        self.lsock = socket.socket()
        self.lsock.bind(("127.0.0.1", 0))
        self.lsock.listen(1)
        self.port = self.lsock.getsockname()[1]
        self.app, self.iac, self.err, self.dropped = bytearray(), [], None, False
        self._ctrl = bytearray()

    def _send(self, conn, data):
        if not data:
            return
        if self.seg:
            for i in range(0, len(data), self.seg):
                conn.sendall(data[i:i + self.seg])
        else:
            conn.sendall(data)

    def run(self):
        try:
            self.lsock.settimeout(10)
            conn, _ = self.lsock.accept()
            conn.setsockopt(socket.IPPROTO_TCP, socket.TCP_NODELAY, 1)
            conn.settimeout(10)
            self._send(conn, self.nego + self.dev.connect())
            while True:
                data = conn.recv(65535)
                if not data:
                    break
                app = bytearray()
                for b in data:
                    if self._ctrl or b == IAC:
                        self._ctrl.append(b)
                        if len(self._ctrl) == 3:
                            self.iac.append(bytes(self._ctrl))
                            self._ctrl.clear()
                    else:
                        app.append(b)
                self.app += app
                out = self.dev.on_write(bytes(app))
                if self.drop_after is not None and len(self.app) >= self.drop_after:
                    self.dropped = True
                    break
                self._send(conn, out)
            conn.close()
        except Exception as e:      # noqa
            self.err = repr(e)
        finally:
            self.lsock.close()


def _ops_sync(conn, ops):
    obs = []
    for op in ops:
        name, args = op[0], list(op[1:])
        kw = dict(args.pop()) if args and isinstance(args[-1], dict) else {}
        rec = {"op": name}
        try:
            rec["ret"] = S.norm(getattr(conn, name)(*args, **kw))
        except Exception as e:      # noqa
            rec["exc"] = type(e).__name__
        p = getattr(conn, "_current_priv_level", None)
        rec["priv"] = getattr(p, "name", None)
        obs.append(rec)
    return obs


async def _ops_async(conn, ops):
    obs = []
    for op in ops:
        name, args = op[0], list(op[1:])
        kw = dict(args.pop()) if args and isinstance(args[-1], dict) else {}
        rec = {"op": name}
        try:
            r = getattr(conn, name)(*args, **kw)
            if asyncio.iscoroutine(r):
                r = await r
            rec["ret"] = S.norm(r)
        except Exception as e:      # noqa
            rec["exc"] = type(e).__name__
        p = getattr(conn, "_current_priv_level", None)
        rec["priv"] = getattr(p, "name", None)
        obs.append(rec)
    return obs


def _driver(platform, stack):
    import scrapli.driver as D
    import scrapli.driver.core as C
    from harness.simtransport import DRIVERS
    name = DRIVERS[platform][0 if stack == "sync" else 1]
    return getattr(C, name, None) or getattr(D, name)


def run_pair(scn):
    """scn: platform, dev, telnet{user,password,dev{...}}, ops, conn{timeout_ops,...}, server{drop_after, seg}
    -> (sync observation, async observation)"""
    res = []
    for stack in ("sync", "async"):
        dev = S.make_device(scn)
        sk = dict(scn.get("server") or {})
        if "nego" in sk:
            sk["nego"] = NEGO_VARIANTS[sk["nego"]]
        srv = TelnetServer(dev, **sk)
        srv.start()
        kw = dict(host="127.0.0.1", port=srv.port, transport="telnet" if stack == "sync" else "asynctelnet",
                  auth_username=scn["telnet"].get("user", "admin"), auth_password=scn["telnet"].get("password", "pw"),
                  timeout_socket=5, timeout_transport=10, timeout_ops=10)
        kw.update(scn.get("conn") or {})
        if scn["platform"] == "network":
            kw.setdefault("privilege_levels", S.custom_privs())
            kw.setdefault("default_desired_privilege_level", "privilege_exec")
        conn = _driver(scn["platform"], stack)(**kw)
        t0 = time.time()
        if stack == "sync":
            obs = _ops_sync(conn, scn["ops"])
            try:
                conn.transport.close()
            except Exception:      # noqa
                pass
        else:
            async def go():
                o = await _ops_async(conn, scn["ops"])
                try:
                    conn.transport.close()
                except Exception:      # noqa
                    pass
                return o
            obs = asyncio.run(go())
        srv.join(12)
        res.append({"ops": obs, "app": bytes(srv.app).decode("latin-1"), "iac": [x.hex() for x in srv.iac],
                    "exec_log": [list(x) for x in dev.exec_log], "server_err": srv.err, "wall": round(time.time() - t0, 2),
                    "server_alive": srv.is_alive()})
    return res[0], res[1]


def compare_pair(s, a):
    d = []
    for k in ("app", "iac", "exec_log"):
        if s[k] != a[k]:
            d.append(("session", k, s[k][-80:] if isinstance(s[k], str) else s[k][-3:], a[k][-80:] if isinstance(a[k], str) else a[k][-3:]))
    for i, (x, y) in enumerate(zip(s["ops"], a["ops"])):
        for f in ("exc", "ret", "priv"):
            if x.get(f) != y.get(f):
                if f == "ret":
                    d.extend(S._ret_diff(i, x["op"], x.get(f), y.get(f)))
                else:
                    d.append((f"op{i}:{x['op']}", f, x.get(f), y.get(f)))
    return d


# ---------------------------------------------------------------- connection cannot be established
def open_failure(mode, timeout_socket=0.4):
    """-> (sync exception class name | 'ok', async ...) for GenericDriver(...).open() over the real Telnet transports"""
    from scrapli.driver import AsyncGenericDriver, GenericDriver
    keep = []
    if mode == "refused":
        s = socket.socket(); s.bind(("127.0.0.1", 0)); port = s.getsockname()[1]; s.close()
        host = "127.0.0.1"
    elif mode == "unresolvable":
        host, port = "no-such-host.invalid", 23
    elif mode == "timeout":
        l = socket.socket(); l.bind(("127.0.0.1", 0)); l.listen(0); port = l.getsockname()[1]
        keep.append(l)
        for _ in range(4):                      # fill the accept queue: further SYNs are not answered
            c = socket.socket(); c.setblocking(False)
            try:
                c.connect(("127.0.0.1", port))
            except (BlockingIOError, OSError):
                pass
            keep.append(c)
        time.sleep(0.05)
        host = "127.0.0.1"
    else:
        raise ValueError(mode)
    kw = dict(host=host, port=port, auth_username="a", auth_password="b", timeout_socket=timeout_socket, timeout_ops=3, timeout_transport=3)

    def sy():
        try:
            GenericDriver(transport="telnet", **kw).open()
            return "ok"
        except Exception as e:      # noqa
            return type(e).__name__

    async def asy():
        try:
            await AsyncGenericDriver(transport="asynctelnet", **kw).open()
            return "ok"
        except Exception as e:      # noqa
            return type(e).__name__
    r = sy(), asyncio.run(asy())
    for k in keep:
        k.close()
    return r


# ---------------------------------------------------------------- a console that stays silent until it gets a return
class KickDev(S.LoginDev):
    def __init__(self, *a, **k):
        super().__init__(*a, **k)
        self.kicked = False

    def connect(self):
        return b""

    def on_write(self, data):
        if not self.kicked:
            if b"\n" in data:
                self.kicked = True
                return self.l_pre + self.l_uprompt
            return b""
        return super().on_write(data)


def kick_pair(timeout_ops=2.0):
    """Sim transports that really block; in-channel telnet login to a console that needs a return first.
    -> ((sync outcome, writes), (async outcome, writes), wall seconds)"""
    from harness.simtransport import make_conn
    t0 = time.time()
    out = []
    for stack in ("sync", "async"):
        dev = KickDev(platform="cisco_iosxe")
        conn, t = make_conn("generic", dev, stack=stack, on_empty="block", transport="telnet" if stack == "sync" else "asynctelnet",
                            auth_bypass=False, auth_username="admin", auth_password="pw", timeout_ops=timeout_ops)
        if stack == "sync":
            try:
                conn.open()
                r = "ok"
            except Exception as e:      # noqa
                r = type(e).__name__
        else:
            async def go():
                try:
                    await conn.open()
                    return "ok"
                except Exception as e:      # noqa
                    return type(e).__name__
            r = asyncio.run(go())
        try:
            t.close()
        except Exception:      # noqa
            pass
        out.append((r, [x[1].decode("latin-1") for x in t.trace if x[0] == "W"]))
    return out[0], out[1], round(time.time() - t0, 2)


# ---------------------------------------------------------------- the peer closes the session (run in a child process with a hard
# time limit: before /repo a610fb2 the asyncio stack never returned from such a scenario)
def drop_pair_subprocess(drop_after=20, limit_s=25):
    """-> (sync exception classes per op, async ..., None) or (None, None, reason)"""
    import json, os, subprocess, sys
    scn = {"platform": "cisco_iosxe", "dev": {"platform": "cisco_iosxe", "trailing": ""}, "telnet": {"user": "admin", "password": "pw"},
           "conn": {"timeout_socket": 2, "timeout_ops": 3, "timeout_transport": 3}, "server": {"drop_after": drop_after},
           "ops": [["open"], ["send_command", "show version"]]}
    code = ("import sys, json; sys.path.insert(0, %r); from vlib import common; common.use_repo(); from harness import c06telnet as T; "
            "s, a = T.run_pair(json.loads(sys.argv[1])); print('RESULT' + json.dumps([[o.get('exc') for o in s['ops']], [o.get('exc') for o in a['ops']]]))"
            % os.path.dirname(os.path.dirname(os.path.abspath(__file__))))
    try:
        p = subprocess.run([sys.executable, "-c", code, json.dumps(scn)], capture_output=True, text=True, timeout=limit_s)
    except subprocess.TimeoutExpired:
        return None, None, "did not finish within %d s (an operation never returned)" % limit_s
    for line in p.stdout.splitlines():
        if line.startswith("RESULT"):
            es, ea = json.loads(line[6:])
            return es, ea, None
    return None, None, (p.stderr or "no result")[-300:]


# ---------------------------------------------------------------- scripted socket / StreamReader pair rig (no sockets, no time):
# the same recv()/read() results fed to the real TelnetTransport and the real AsynctelnetTransport
class _RawSock:
    def __init__(self, chunks):
        self.chunks, self.sent = list(chunks), []

    def recv(self, n):
        return self.chunks.pop(0) if self.chunks else b""

    def send(self, b):
        self.sent.append(bytes(b))
        return len(b)

    def settimeout(self, t):
        pass


class _Sock:
    def __init__(self, chunks):
        self.sock = _RawSock(chunks)

    def isalive(self):
        return True

    def __bool__(self):
        return True

    def close(self):
        pass


class _Reader:
    def __init__(self, chunks):
        self.chunks = list(chunks)

    async def read(self, n):
        return self.chunks.pop(0) if self.chunks else b""

    def at_eof(self):
        return False


class _Writer:
    def __init__(self):
        self.sent = []

    def write(self, b):
        self.sent.append(bytes(b))

    def close(self):
        pass


def _targs():
    from scrapli.transport.base import BaseTransportArgs
    return BaseTransportArgs(transport_options={}, host="h", port=23, timeout_socket=1, timeout_transport=0, logging_uid="")


def scripted_pair(chunks):
    """-> ((sync data, sync replies), (async data, async replies)); reads as long as scripted chunks remain"""
    from scrapli.transport.plugins.asynctelnet.transport import AsynctelnetTransport
    from scrapli.transport.plugins.asynctelnet.transport import PluginTransportArgs as PA
    from scrapli.transport.plugins.telnet.transport import PluginTransportArgs as PS
    from scrapli.transport.plugins.telnet.transport import TelnetTransport

    def sy():
        t = TelnetTransport(_targs(), PS())
        t.socket = _Sock(chunks)
        data = b""
        try:
            while t.socket.sock.chunks:
                data += t.read()
        except Exception as e:      # noqa
            return ("EXC:" + type(e).__name__, data), b"".join(t.socket.sock.sent)
        return data, b"".join(t.socket.sock.sent)

    async def asy():
        t = AsynctelnetTransport(_targs(), PA())
        t.stdout, t.stdin = _Reader(chunks), _Writer()
        data = b""
        try:
            while t.stdout.chunks:
                data += await t.read()
        except Exception as e:      # noqa
            return ("EXC:" + type(e).__name__, data), b"".join(t.stdin.sent)
        return data, b"".join(t.stdin.sent)
    return sy(), asyncio.run(asy())


def gen_stream(rng, max_cmds=10):
    """a Telnet byte stream: data (incl. NUL, CR NUL LF) and IAC verb option commands (incl. option 0 and 255), <= max_cmds commands,
    cut into recv() results at PRNG positions (incl. inside commands)"""
    out = bytearray()
    ncmd = 0
    for _ in range(rng.randint(1, 14)):
        r = rng.random()
        if r < 0.45 and ncmd < max_cmds:
            out += bytes([255, rng.choice([251, 252, 253, 254]), rng.choice([0, 0, 1, 3, 24, 31, 255, rng.randrange(256)])])
            ncmd += 1
        elif r < 0.6:
            out += rng.choice([b"\r\x00\n", b"\x00", b"\x00\x00", b"a\x00b"])
        else:
            out += rng.choice([b"login: ", b"User Access Verification", b"\r\n", b"x", b"Password: ", b"r1#", b"\xfe\xfb"])
    s = bytes(out)
    n = len(s)
    mode = rng.random()
    if n < 2 or mode < 0.25:
        cuts = []
    elif mode < 0.4:
        cuts = list(range(1, n))
    else:
        cuts = sorted(rng.sample(range(1, n), min(n - 1, rng.randint(1, 6))))
    pts = [0, *cuts, n]
    return [s[a:b] for a, b in zip(pts, pts[1:])]
