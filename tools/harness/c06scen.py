"""C06 scenario engine: ONE scenario interpreter (a generator that yields the calls to make) driven by two
tiny trampolines — a plain one for the sync stack and an awaiting one for the asyncio stack — so that both
real driver stacks see exactly the same operation sequence, device behaviour, cut schedule and fault plan.
Scenarios are plain JSON (replayable).  Nothing here consults any model."""
import asyncio, inspect, os, random, tempfile

from harness.simdevice import CliDevice
from harness.simtransport import (AsyncSimTransport, CutOne, CutRng, Cuts, FaultPlan, SimStall, SimTransport, make_conn)

# ------------------------------------------------------------------ devices
SHOW_VERSION = "Cisco IOS XE Software, Version 16.12.03\nuptime is 1 day\nProcessor board ID 9ABC"
LONG = "\n".join(f"interface GigabitEthernet0/{i}\n description link {i} % of #total > none" for i in range(40))


def std_outputs(mode, line):
    c = line.strip()
    if c in ("show version", "show version | i Software"):
        return SHOW_VERSION
    if c == "show run":
        return LONG
    if c == "show ansi":
        # escape sequences all over the output, so that 1-byte / PRNG cuts end reads inside a sequence (Channel.read -> _strip_ansi_read,
        # the held-back beginning of a cut sequence): CSI colour, cursor movement, erase line, a bare ESC 7/8 pair
        return "\x1b[1mInterface\x1b[0m  \x1b[32;1mup\x1b[0m\n\x1b[2K\x1b[1;24rGi0/1 \x1b[31mdown\x1b[39m\x1b7 saved\x1b8\n\x1b[?25lend\x1b[?25h"
    if c == "show clock":
        return "*00:00:01.000 UTC Mon Jan 1 2024"
    if c == "show ambiguous":
        return "% Ambiguous command:  \"show ambiguous\""
    if c == "show custom-bad":
        return "result: BADWORD here"
    if c == "show blank":
        return "\n\n"
    if c.startswith("echo "):
        return c[5:]
    return None


class Dev(CliDevice):
    """CliDevice + confirmation questions (for send_interactive / send_and_read / read_callback)"""

    def __init__(self, *a, confirms=None, pw_attempts=3, reject_text="% Bad secrets", **k):
        super().__init__(*a, **k)
        self.confirms = dict(confirms or {})      # command -> (question text, answer is hidden)
        self._q = None
        self.probe = None                         # callable -> the driver's timeout settings right now
        self.in_effect = []                       # (line, timeout_ops, timeout_transport) whenever a line reaches the device
        self.pw_attempts = pw_attempts            # how many passwords the device asks for before it gives up and re-displays the OLD prompt
        self.reject_text = reject_text

    def on_write(self, data):
        out = bytearray()
        for b in data:
            if b == 0x0A:
                out += self._execute(bytes(self.linebuf))
                self.linebuf.clear()
            elif b == 0x0D:
                continue
            else:
                self.linebuf.append(b)
                if self.echo and self.pending is None and not (self._q and self._q[1]):
                    out.append(b)
        return bytes(out)

    def _execute(self, raw):
        line = raw.decode("utf-8", "replace")
        if self.probe is not None:
            try:
                self.in_effect.append([line if self.pending is None and not (self._q and self._q[1]) else "<hidden>", *self.probe()])
            except Exception:      # noqa
                pass
        if self.pending is not None and line != self.enable_password and self.pw_tries + 1 >= self.pw_attempts:
            # rejected for the last time: error text, then the prompt of the level the session is still in
            self.pending, self.pw_tries = None, 0
            self.events.append(("password", False))
            return self._frame(self.reject_text)
        if self._q is not None and self.pending is None:
            q, self._q = self._q, None
            self.exec_log.append((self.mode_name(), "<answer>" + ("*" if q[1] else line)))
            return self._frame("answered " + ("(hidden)" if q[1] else line))
        cmd = line.strip()
        if self.pending is None and cmd in self.confirms:
            self._q = self.confirms[cmd]
            self.exec_log.append((self.mode_name(), line))
            return self.nl + self._q[0].encode()
        return super()._execute(raw)


class LoginDev(Dev):
    """a Dev behind a telnet login dialogue (user name echoed, password not)"""

    def __init__(self, *a, login=None, **k):
        super().__init__(*a, **k)
        lg = dict(login or {})
        self.l_user, self.l_pass = lg.get("user", "admin"), lg.get("password", "pw")
        self.l_uprompt = lg.get("uprompt", "login: ").encode()
        self.l_pprompt = lg.get("pprompt", "Password: ").encode()
        self.l_motd = lg.get("motd", "Welcome\nLast login: Mon Jan  1 00:00:00 from 10.0.0.1").encode()
        self.l_pre = lg.get("pre", "\nUser Access Verification\n\n").encode()
        self.stage, self.lbuf, self.got_user, self.logins = "user", bytearray(), "", 0

    def connect(self):
        return self.l_pre + self.l_uprompt

    def on_write(self, data):
        if self.stage == "ok":
            return super().on_write(data)
        out = bytearray()
        for i, b in enumerate(data):
            if self.stage == "ok":
                out += super().on_write(data[i:])
                break
            if b == 0x0A:
                line = bytes(self.lbuf).decode("utf-8", "replace")
                self.lbuf.clear()
                if self.stage == "user":
                    if line == "":
                        out += self.nl + self.l_uprompt
                    else:
                        self.got_user, self.stage = line, "pass"
                        out += self.nl + self.l_pprompt
                else:
                    self.logins += 1
                    if self.got_user == self.l_user and line == self.l_pass:
                        self.stage = "ok"
                        out += self.nl + self.l_motd.replace(b"\n", self.nl) + self.nl + self.prompt() + self.trailing
                    else:
                        self.stage = "user"
                        out += self.nl + b"Login incorrect" + self.nl + self.l_uprompt
            elif b != 0x0D:
                self.lbuf.append(b)
                if self.stage == "user":
                    out.append(b)
        return bytes(out)


def make_device(scn):
    d = dict(scn.get("dev") or {})
    kw = dict(platform=d.get("platform", "cisco_iosxe"), hostname=d.get("hostname", "r1"), user=d.get("user", "admin"),
              login_mode=d.get("login_mode"), outputs=std_outputs, nl=d.get("nl", "\n").encode(),
              enable_password=d.get("enable_password"), refuse={tuple(x) for x in d.get("refuse", [])},
              fail_lines=set(d.get("fail_lines", [])), banner=d.get("banner", "").encode(),
              confirms={k: tuple(v) for k, v in (d.get("confirms") or {}).items()}, trailing=d.get("trailing"),
              pw_attempts=d.get("pw_attempts", 3), reject_text=d.get("reject_text", "% Bad secrets"))
    if scn.get("telnet"):
        return LoginDev(login=scn["telnet"].get("dev"), **kw)
    return Dev(**kw)


# ------------------------------------------------------------------ connections
def custom_privs():
    """a user-supplied privilege table for the plain NetworkDriver pair (IOS-like device, own patterns)"""
    from scrapli.driver.network.base_driver import PrivilegeLevel
    return {
        "exec": PrivilegeLevel(r"^[a-z0-9.\-]{1,40}>$", "exec", "", "", "", False, ""),
        "privilege_exec": PrivilegeLevel(r"^[a-z0-9.\-]{1,40}#$", "privilege_exec", "exec", "disable", "enable", True,
                                         r"^password:\s?$"),
        "configuration": PrivilegeLevel(r"^[a-z0-9.\-]{1,40}\(config[a-z\-]*\)#$", "configuration", "privilege_exec", "end",
                                        "configure terminal", False, ""),
    }


def make_cuts(spec):
    if spec in (None, "whole"):
        return Cuts()
    if spec == "one":
        return CutOne()
    if isinstance(spec, (list, tuple)) and spec[0] == "rng":
        return CutRng(random.Random(spec[1]), maxn=spec[2] if len(spec) > 2 else 7)
    if isinstance(spec, (list, tuple)) and spec[0] == "list":          # explicit read sizes, then whole reads
        from harness.simtransport import CutList
        return CutList(spec[1])
    if isinstance(spec, (list, tuple)) and spec[0] == "bulk":          # PRNG bursts: every read returns between lo and hi bytes
        r, lo, hi = random.Random(spec[1]), spec[2], spec[3]

        class _Bulk(Cuts):
            def take(self, avail):
                return min(avail, r.randint(lo, hi))
        return _Bulk()
    raise ValueError(spec)


EXC = {}


def _exc(name):
    import scrapli.exceptions as E
    if name in ("OSError", "ValueError", "EOFError", "RuntimeError", "ConnectionResetError", "TimeoutError"):
        return __builtins__[name] if isinstance(__builtins__, dict) else getattr(__builtins__, name)
    return getattr(E, name)


def make_faults(spec):
    out = []
    for f in spec or []:
        act = f.get("action", "eof")
        if act.startswith("exc:"):
            act = _exc(act[4:])("injected")
        out.append(FaultPlan(at_read=f.get("at_read"), at_write=f.get("at_write"), after_bytes=f.get("after_bytes"), action=act))
    return out


def build(scn, stack):
    dev = make_device(scn)
    plat = scn["platform"]
    kw = dict(scn.get("conn") or {})
    if plat == "network":
        kw.setdefault("privilege_levels", custom_privs())
        kw.setdefault("default_desired_privilege_level", "privilege_exec")
    tel = scn.get("telnet")
    if tel:
        kw.update(transport="telnet" if stack == "sync" else "asynctelnet", auth_bypass=False,
                  auth_username=tel.get("user", "admin"), auth_password=tel.get("password", "pw"))
        kw.setdefault("timeout_ops", 600)
    donor = None
    if scn.get("commandeer"):
        # a GenericDriver owns the (simulated) session; the platform driver takes it over with commandeer()
        donor, t = make_conn("generic", dev, stack=stack, cuts=make_cuts(scn.get("cuts")), faults=make_faults(scn.get("faults")),
                             on_empty="stall", **{k: v for k, v in kw.items() if k in ("timeout_ops", "transport", "auth_bypass", "auth_username", "auth_password")})
        conn, _unused = make_conn(plat, Dev(), stack=stack, **kw)
    else:
        conn, t = make_conn(plat, dev, stack=stack, cuts=make_cuts(scn.get("cuts")), faults=make_faults(scn.get("faults")),
                            on_empty="stall", **kw)
    if "_search_depth" in scn:
        conn.comms_prompt_search_depth = scn["_search_depth"]            # the driver's own setter (BaseChannelArgs.comms_prompt_search_depth)
    dev.probe = lambda: (conn.timeout_ops, conn.timeout_transport)
    return conn, t, dev, donor


# ------------------------------------------------------------------ observations
def norm_response(r):
    return {"result": r.result, "raw": r.raw_result.decode("latin-1"), "failed": bool(r.failed), "channel_input": r.channel_input,
            "host": r.host, "textfsm_platform": r.textfsm_platform, "genie_platform": r.genie_platform,
            "failed_when_contains": list(r.failed_when_contains or [])}


def norm(r):
    from scrapli.response import MultiResponse, Response
    if isinstance(r, MultiResponse):
        return {"multi": [norm_response(x) for x in r]}
    if isinstance(r, Response):
        return {"response": norm_response(r)}
    if r is None or isinstance(r, (str, int, bool)):
        return {"value": r}
    if isinstance(r, bytes):
        return {"bytes": r.decode("latin-1")}
    if isinstance(r, tuple):
        return {"tuple": [norm(x) for x in r]}
    return {"type": type(r).__name__}


_TMP = None


def _tmpfile(lines):
    global _TMP
    if _TMP is None:
        _TMP = tempfile.mkdtemp(prefix="c06-")
    p = os.path.join(_TMP, "f%08x.txt" % (hash(tuple(lines)) & 0xFFFFFFFF))
    with open(p, "w") as f:
        f.write("\n".join(lines) + "\n")
    return p


def _callbacks(spec, is_async, log=None):
    """read_callback callbacks.  Each logs its invocation (name, run number, what it was given), may RAISE on listed run numbers, and
    otherwise writes its `send` line.  On the asyncio stack a callback is a coroutine function unless `coro` is false."""
    from scrapli.driver.generic.base_driver import ReadCallback
    log = log if log is not None else []
    cbs = []
    for c in spec:
        def mk(c=c):
            state = {"n": 0}

            def body(conn, out):
                state["n"] += 1
                log.append([c.get("name", "cb"), state["n"], out[-60:]])
                if state["n"] > 8:
                    # a callback that keeps matching what its own input produces would recurse until Python's recursion limit, which the two
                    # stacks reach at different depths; end such histories at the same run on both stacks instead
                    raise RuntimeError("callback loop guard")
                if state["n"] in (c.get("raise_on") or []):
                    raise _exc(c.get("raise_exc", "ValueError"))(f"callback {c.get('name', 'cb')} run {state['n']}")
                if c.get("send") is not None:
                    conn.channel.write(c["send"])
                    conn.channel.send_return()
            if is_async and c.get("coro", True):
                async def cb(conn, out):
                    body(conn, out)
                return cb

            def cb(conn, out):
                body(conn, out)
            return cb
        kw = {}
        for k in ("not_contains", "case_insensitive", "multiline", "next_timeout"):
            if k in c:
                kw[k] = c[k]
        cbs.append(ReadCallback(callback=mk(), contains=c.get("contains", ""), contains_re=c.get("contains_re", ""),
                                complete=c.get("complete", False), only_once=c.get("only_once", False),
                                reset_output=c.get("reset_output", True), name=c.get("name", "cb"),
                                next_delay=c.get("next_delay", 1e-6), **kw))
    return cbs


def interp(conn, scn, obs, is_async, donor=None):
    """the scenario interpreter: yields (callable, args, kwargs); is sent the (awaited) result or thrown the exception"""
    cbsets, shared_log = {}, []
    for op in scn["ops"]:
        name, args = op[0], list(op[1:])
        kw = dict(args.pop()) if args and isinstance(args[-1], dict) else {}
        rec = {"op": name}
        try:
            if name in ("open", "close", "get_prompt"):
                r = yield (getattr(conn, name), (), {})
            elif name == "enter":
                r = yield (getattr(conn, "__aenter__" if is_async else "__enter__"), (), {})
                r = r is conn
            elif name == "exit":
                r = yield (getattr(conn, "__aexit__" if is_async else "__exit__"), (None, None, None), {})
            elif name in ("send_command", "send_commands", "send_config", "send_configs", "acquire_priv",
                          "register_configuration_session", "send_and_read"):
                r = yield (getattr(conn, name), tuple(args), kw)
            elif name in ("send_commands_from_file", "send_configs_from_file"):
                r = yield (getattr(conn, name), (_tmpfile(args[0]),), kw)
            elif name == "send_interactive":
                ev = [tuple(e) for e in args[0]]
                r = yield (conn.send_interactive, (ev,), kw)
            elif name == "read_callback":
                kw = dict(kw)
                kw.setdefault("read_delay", 1e-6)
                cb_log = rec["cb_log"] = []
                if isinstance(args[0], str):            # a NAMED callbacks list of the scenario: the same objects on every call
                    if args[0] not in cbsets:
                        cbsets[args[0]] = [_callbacks(scn["cbsets"][args[0]], is_async, shared_log), shared_log]
                    cbs, lg = cbsets[args[0]]
                    mark = len(lg)
                else:
                    lg = []
                    cbs, mark = _callbacks(args[0], is_async, lg), 0
                try:
                    r = yield (conn.read_callback, (), {"callbacks": cbs, **kw})
                finally:
                    cb_log.extend(lg[mark:])
                    rec["cb_state"] = [[c.name, bool(c._triggered)] for c in cbs]
            elif name == "channel_send_input":
                r = yield (conn.channel.send_input, tuple(args), kw)
            elif name == "set":                      # attribute assignment on the driver (e.g. _generic_driver_mode, timeout_ops)
                setattr(conn, args[0], args[1])
                r = None
            elif name == "donor_open":
                r = yield (donor.open, (), {})
            elif name == "commandeer":               # the platform driver takes the donor's connection over
                r = yield (conn.commandeer, (donor,), kw)
            else:
                raise ValueError(f"unknown op {name}")
        except SimStall:
            rec["exc"] = "SimStall"
            obs.append(_after(rec, conn))
            return
        except Exception as e:      # noqa
            rec["exc"] = type(e).__name__
            rec["msg"] = str(e)[:200]
        else:
            rec["ret"] = norm(r)
        obs.append(_after(rec, conn))


def _after(rec, conn):
    p = getattr(conn, "_current_priv_level", None)
    rec["priv"] = getattr(p, "name", None)
    rec["nw"] = len([x for x in getattr(conn.transport, "trace", []) if x[0] == "W"])
    rec["timeout_ops"] = conn.timeout_ops
    rec["timeout_transport"] = conn.timeout_transport
    return rec


def finish(obs, t, dev):
    return {"ops": obs, "writes": [x[1].decode("latin-1") for x in t.trace if x[0] == "W"],
            "exec_log": [list(x) for x in dev.exec_log], "mode": dev.mode_name(), "in_effect": [list(x) for x in dev.in_effect],
            "events": [x[0] for x in t.trace if x[0] not in ("W", "R")],
            "reads": len([x for x in t.trace if x[0] == "R"]),
            "alive": t.isalive()}


def run_sync(scn):
    conn, t, dev, donor = build(scn, "sync")
    obs = []
    g = interp(conn, scn, obs, False, donor)
    try:
        req = next(g)
        while True:
            f, a, k = req
            try:
                r = f(*a, **k)
            except BaseException as e:      # noqa  (SimStall is a BaseException)
                if isinstance(e, (KeyboardInterrupt, SystemExit)):
                    raise
                req = g.throw(e)
            else:
                req = g.send(r)
    except StopIteration:
        pass
    return finish(obs, t, dev)


async def run_async(scn):
    conn, t, dev, donor = build(scn, "async")
    obs = []
    g = interp(conn, scn, obs, True, donor)
    try:
        req = next(g)
        while True:
            f, a, k = req
            try:
                r = f(*a, **k)
                if inspect.isawaitable(r):
                    r = await r
            except BaseException as e:      # noqa
                if isinstance(e, (KeyboardInterrupt, SystemExit, asyncio.CancelledError)):
                    raise
                req = g.throw(e)
            else:
                req = g.send(r)
    except StopIteration:
        pass
    return finish(obs, t, dev)


# ------------------------------------------------------------------ pairwise oracle
PRIMARY_OP_FIELDS = ("exc", "ret", "priv", "nw", "timeout_ops", "timeout_transport", "cb_log", "cb_state")


def compare(s, a):
    """-> list of (where, field, sync value, async value): the property's observables only"""
    d = []
    if s["writes"] != a["writes"]:
        i = next((i for i, (x, y) in enumerate(zip(s["writes"], a["writes"])) if x != y), min(len(s["writes"]), len(a["writes"])))
        d.append(("session", "writes", s["writes"][i:i + 3], a["writes"][i:i + 3]))
    if len(s["ops"]) != len(a["ops"]):
        d.append(("session", "ops_executed", len(s["ops"]), len(a["ops"])))
    for i, (x, y) in enumerate(zip(s["ops"], a["ops"])):
        for f in PRIMARY_OP_FIELDS:
            if x.get(f) != y.get(f):
                if f == "ret":
                    d.extend(_ret_diff(i, x["op"], x.get(f), y.get(f)))
                else:
                    d.append((f"op{i}:{x['op']}", f, x.get(f), y.get(f)))
    if s["exec_log"] != a["exec_log"]:
        d.append(("session", "exec_log", s["exec_log"][-3:], a["exec_log"][-3:]))
    if s.get("in_effect") != a.get("in_effect"):
        i = next((i for i, (x, y) in enumerate(zip(s["in_effect"], a["in_effect"])) if x != y), min(len(s["in_effect"]), len(a["in_effect"])))
        d.append(("session", "timeout_ops/timeout_transport in effect while the device executed a line [line, timeout_ops, timeout_transport]",
                  s["in_effect"][i:i + 1], a["in_effect"][i:i + 1]))
    if s["mode"] != a["mode"]:
        d.append(("session", "device_mode", s["mode"], a["mode"]))
    if s["alive"] != a["alive"]:
        d.append(("session", "transport_alive", s["alive"], a["alive"]))
    if s["events"] != a["events"]:
        d.append(("session", "transport_events", s["events"], a["events"]))
    return d


def _ret_diff(i, op, x, y):
    out = []

    def resp(tag, p, q_):
        for k in sorted(set(p) | set(q_)):
            if p.get(k) != q_.get(k):
                out.append((tag, k, p.get(k), q_.get(k)))
    if x and y and "response" in x and "response" in y:
        resp(f"op{i}:{op}", x["response"], y["response"])
    elif x and y and "multi" in x and "multi" in y and len(x["multi"]) == len(y["multi"]):
        for j, (p, q_) in enumerate(zip(x["multi"], y["multi"])):
            resp(f"op{i}:{op}[{j}]", p, q_)
    else:
        out.append((f"op{i}:{op}", "ret", x, y))
    return out
