"""SimTransport / AsyncSimTransport: in-process transports that serve bytes from a causal device.
Attached to a real driver by `attach(conn, t)`.  Every call is appended to `trace`.

read() on an empty buffer:  on_empty="stall" raises SimStall (a BaseException: the operation would
block forever; logic runs), "empty" returns b"", "block" sleeps (timing runs; woken by close()).
Faults: FaultPlan(at_read=k | at_write=k | after_bytes=n, action=exception instance | "eof" | "silent").
Pauses: `t.pauses = {offsets}`: when exactly that many bytes of the session have been read, the read ends there and the NEXT read raises
ScrapliTimeout once (the line was quiet for a whole transport timeout); the session goes on afterwards."""
import asyncio, threading, time
from typing import List, Optional

from scrapli.decorators import timeout_wrapper
from scrapli.exceptions import ScrapliConnectionError, ScrapliConnectionNotOpened, ScrapliTimeout
from scrapli.transport.base import AsyncTransport, Transport


class SimStall(BaseException):
    """the driver is waiting for bytes the device will never send"""


class Cuts:
    """how many of the `avail` buffered bytes one read() returns"""

    def take(self, avail: int) -> int:
        return avail


class CutOne(Cuts):
    def take(self, avail):
        return 1


class CutList(Cuts):
    def __init__(self, sizes):
        self.sizes = list(sizes)

    def take(self, avail):
        return min(avail, self.sizes.pop(0)) if self.sizes else avail


class CutRng(Cuts):
    def __init__(self, rng, maxn=7):
        self.rng, self.maxn = rng, maxn

    def take(self, avail):
        return self.rng.randint(1, min(avail, self.maxn)) if self.rng.random() < 0.8 else avail


class CutAt(Cuts):
    """cut the *global* output stream at the given absolute byte offsets (and only there)"""

    def __init__(self, offsets):
        self.offsets = sorted(set(offsets))
        self.pos = 0

    def take(self, avail):
        for o in self.offsets:
            if self.pos < o < self.pos + avail:
                n = o - self.pos
                self.pos = o
                return n
        self.pos += avail
        return avail


class FaultPlan:
    def __init__(self, at_read: Optional[int] = None, at_write: Optional[int] = None, after_bytes: Optional[int] = None, action="eof"):
        self.at_read, self.at_write, self.after_bytes, self.action = at_read, at_write, after_bytes, action
        self.fired = False


class _SimCore:
    def _init_sim(self, device, cuts=None, faults=None, on_empty="stall"):
        self.device = device
        self.cuts = cuts or Cuts()
        self.faults: List[FaultPlan] = list(faults or [])
        self.on_empty = on_empty
        self.buf = bytearray()
        self.trace: list = []
        self.opened = False
        self.dead = False         # session dropped by a fault
        self.silent = False
        self.nreads = self.nwrites = self.nbytes = 0
        self.pauses = set()
        self._wake = threading.Event()

    # --- helpers
    def _fire(self, f: FaultPlan):
        f.fired = True
        self.trace.append(("fault", f.action if isinstance(f.action, str) else type(f.action).__name__))
        if f.action == "eof":
            self.dead = True
            raise ScrapliConnectionError("encountered EOF reading from transport; typically means the device closed the connection")
        if f.action == "silent":
            self.silent = True
            self.buf.clear()
            return
        self.dead = True
        raise f.action

    def _pre_read(self):
        if not self.opened:
            raise ScrapliConnectionNotOpened
        if self.dead:
            raise ScrapliConnectionError("encountered EOF reading from transport; typically means the device closed the connection")
        if self.nbytes in self.pauses:
            self.pauses.discard(self.nbytes)
            self.trace.append(("pause", self.nbytes))
            raise ScrapliTimeout("sim: nothing arrived for a whole transport timeout")
        self.nreads += 1
        for f in self.faults:
            if not f.fired and (f.at_read == self.nreads or (f.after_bytes is not None and self.nbytes >= f.after_bytes)):
                self._fire(f)

    def _take(self) -> bytes:
        avail = len(self.buf)
        for f in self.faults:
            if not f.fired and f.after_bytes is not None and self.nbytes + avail > f.after_bytes:
                avail = max(f.after_bytes - self.nbytes, 0)
        n = max(1, min(avail, self.cuts.take(avail))) if avail else 0
        nxt = min((p for p in self.pauses if p > self.nbytes), default=None)
        if nxt is not None and self.nbytes + n > nxt:
            n = nxt - self.nbytes      # a read ends where the line goes quiet
        chunk = bytes(self.buf[:n])
        del self.buf[:n]
        self.nbytes += n
        self.trace.append(("R", chunk))
        return chunk

    def _do_write(self, data: bytes):
        if not self.opened:
            raise ScrapliConnectionNotOpened
        if self.dead:
            raise ScrapliConnectionError("transport closed")
        self.nwrites += 1
        for f in self.faults:
            if not f.fired and f.at_write == self.nwrites:
                self._fire(f)
        self.trace.append(("W", bytes(data)))
        if not self.silent:
            self.buf += self.device.on_write(bytes(data))

    def _do_open(self):
        self.trace.append(("open",))
        self.opened, self.dead = True, False
        self._wake.clear()
        self.buf += self.device.connect()

    def _do_close(self):
        self.trace.append(("close",))
        self.opened = False
        self._wake.set()

    def isalive(self) -> bool:
        return self.opened and not self.dead

    def writes(self) -> bytes:
        return b"".join(x[1] for x in self.trace if x[0] == "W")

    def reads(self):
        return [x[1] for x in self.trace if x[0] == "R"]


class SimTransport(_SimCore, Transport):
    def __init__(self, base_transport_args, device, cuts=None, faults=None, on_empty="stall"):
        Transport.__init__(self, base_transport_args=base_transport_args)
        self._init_sim(device, cuts, faults, on_empty)

    def open(self) -> None:
        self._do_open()

    def close(self) -> None:
        self._do_close()

    @timeout_wrapper
    def read(self) -> bytes:
        self._pre_read()
        if not self.buf:
            if self.on_empty == "stall":
                self.trace.append(("stall",))
                raise SimStall()
            if self.on_empty == "empty":
                self.trace.append(("R", b""))
                return b""
            while not self.buf:   # "block"
                # poll without ever holding the Event's lock: close() may run inside a SIGALRM handler that interrupts this very
                # thread (signal timeout mechanism); Event.wait() holds the condition's lock for a moment, Event.set() in the handler
                # would then wait for it for ever (rig deadlock seen by the C12 strengthening; never a scrapli defect)
                if self._wake.is_set() or not self.opened:
                    raise ScrapliConnectionError("transport closed while blocked in read")
                time.sleep(0.005)
        return self._take()

    def write(self, channel_input: bytes) -> None:
        self._do_write(channel_input)


class AsyncSimTransport(_SimCore, AsyncTransport):
    def __init__(self, base_transport_args, device, cuts=None, faults=None, on_empty="stall"):
        AsyncTransport.__init__(self, base_transport_args=base_transport_args)
        self._init_sim(device, cuts, faults, on_empty)

    async def open(self) -> None:
        self._do_open()

    def close(self) -> None:
        self._do_close()

    @timeout_wrapper
    async def read(self) -> bytes:
        self._pre_read()
        if not self.buf:
            if self.on_empty == "stall":
                self.trace.append(("stall",))
                raise SimStall()
            if self.on_empty == "empty":
                self.trace.append(("R", b""))
                await asyncio.sleep(0)
                return b""
            while not self.buf:
                await asyncio.sleep(0.01)
                if not self.opened:
                    raise ScrapliConnectionError("transport closed while blocked in read")
        return self._take()

    def write(self, channel_input: bytes) -> None:
        self._do_write(channel_input)


def named(cls, name):
    """same transport class under another __name__ (the timeout decorator selects its mechanism by class name)"""
    return type(name, (cls,), {})


def attach(conn, transport):
    """make a constructed real driver talk to `transport`"""
    conn.transport = transport
    conn.channel.transport = transport
    return conn


DRIVERS = {
    "cisco_iosxe": ("IOSXEDriver", "AsyncIOSXEDriver"), "cisco_iosxr": ("IOSXRDriver", "AsyncIOSXRDriver"),
    "cisco_nxos": ("NXOSDriver", "AsyncNXOSDriver"), "arista_eos": ("EOSDriver", "AsyncEOSDriver"),
    "juniper_junos": ("JunosDriver", "AsyncJunosDriver"), "generic": ("GenericDriver", "AsyncGenericDriver"),
    "network": ("NetworkDriver", "AsyncNetworkDriver"),
}


def make_conn(platform, device, stack="sync", cuts=None, faults=None, on_empty="stall", transport_cls=None, **kw):
    """construct the real driver of `platform` (sync or asyncio stack) wired to a Sim transport.
    Timeouts default to 0 (decorators call straight through); auth is bypassed unless stated."""
    import scrapli.driver as D
    import scrapli.driver.core as C
    name = DRIVERS[platform][0 if stack == "sync" else 1]
    cls = getattr(C, name, None) or getattr(D, name)
    kw.setdefault("host", "sim")
    kw.setdefault("auth_bypass", True)
    kw.setdefault("timeout_ops", 0)
    kw.setdefault("timeout_transport", 0)
    kw.setdefault("transport", "system" if stack == "sync" else "asyncssh")
    conn = cls(**kw)
    tcls = transport_cls or (SimTransport if stack == "sync" else AsyncSimTransport)
    t = tcls(conn._base_transport_args, device, cuts=cuts, faults=faults, on_empty=on_empty)
    return attach(conn, t), t
