"""C06: the REAL Channel.channel_authenticate_telnet / AsyncChannel.channel_authenticate_telnet driven over a
scripted read tape, with a scripted clock and (asyncio) scripted poll time-outs, so that the two login loops
can be compared with the Lean machines authTelnetSync / authTelnetAsync event by event.

Injected from outside (module attribute assignment, restored afterwards):
  * `datetime` in scrapli.channel.{base,sync,async}_channel -> a clock whose reading is set by the tape;
  * `asyncio` in scrapli.channel.async_channel -> a pass-through shim whose `wait_for` turns the tape's
    "poll" event into asyncio.TimeoutError (what a timed-out read poll raises) and whose `sleep` does not wait.
Tape events: ("d", bytes, now) a read returning bytes | ("p", now) asyncio only: the read poll times out |
("e",) the read raises ScrapliConnectionError."""
import asyncio, contextlib

from harness.simtransport import SimStall
from scrapli.exceptions import ScrapliAuthenticationFailed, ScrapliConnectionError


class _Poll(BaseException):
    pass


class Clock:
    t = 0


class _FakeDatetime:
    def __init__(self, clock):
        self.clock = clock

    def now(self):
        return self

    def timestamp(self):
        return float(self.clock.t)


class AsyncioShim:
    """everything is real asyncio except wait_for (scripted poll time-outs) and sleep (no waiting)"""

    def __getattr__(self, n):
        return getattr(asyncio, n)

    async def wait_for(self, aw, timeout=None):
        try:
            return await aw
        except _Poll:
            raise asyncio.TimeoutError from None

    async def sleep(self, delay, result=None):
        await asyncio.sleep(0)
        return result


class SleepShim:
    """real asyncio except that sleep does not wait"""

    def __getattr__(self, n):
        return getattr(asyncio, n)

    async def sleep(self, delay, result=None):
        await asyncio.sleep(0)
        return result


@contextlib.contextmanager
def patched(clock=None, shim=True):
    """shim: True = scripted poll time-outs + no waiting; "sleep" = only no waiting; False = untouched"""
    import scrapli.channel.async_channel as A
    import scrapli.channel.base_channel as B
    import scrapli.channel.sync_channel as S
    saved = [(m, "datetime", m.datetime) for m in (A, B, S)] + [(A, "asyncio", A.asyncio)]
    try:
        if clock is not None:
            for m in (A, B, S):
                m.datetime = _FakeDatetime(clock)
        if shim == "sleep":
            A.asyncio = SleepShim()
        elif shim:
            A.asyncio = AsyncioShim()
        yield
    finally:
        for m, k, v in saved:
            setattr(m, k, v)


def _targs():
    from scrapli.transport.base import BaseTransportArgs
    return BaseTransportArgs(transport_options={}, host="h", port=23, timeout_socket=1, timeout_transport=0, logging_uid="")


def _mk_transport(base, tape, clock, is_async):
    class T(base):
        def __init__(self):
            base.__init__(self, _targs())
            self.tape, self.writes = list(tape), []

        def close(self):
            pass

        def isalive(self):
            return True

        def write(self, channel_input):
            self.writes.append(bytes(channel_input))

        def _next(self):
            if not self.tape:
                raise SimStall()
            ev = self.tape.pop(0)
            if ev[0] == "e":
                raise ScrapliConnectionError("encountered EOF reading from transport; typically means the device closed the connection")
            clock.t = ev[-1]
            if ev[0] == "p":
                raise _Poll()
            return ev[1]

    if is_async:
        class TA(T):
            async def open(self):
                pass

            async def read(self):
                return self._next()
        return TA()

    class TS(T):
        def open(self):
            pass

        def read(self):
            return self._next()
    return TS()


def _outcome(fn):
    try:
        fn()
        return "done"
    except SimStall:
        return "pending"
    except ScrapliAuthenticationFailed:
        return "authFailed"
    except ScrapliConnectionError:
        return "connError"


def run_sync(tape, user, password, interval, ret="\n"):
    from scrapli.channel import Channel
    from scrapli.channel.base_channel import BaseChannelArgs
    from scrapli.transport.base import Transport
    clock = Clock()
    t = _mk_transport(Transport, tape, clock, False)
    with patched(clock):
        ch = Channel(transport=t, base_channel_args=BaseChannelArgs(timeout_ops=float(10 * interval), comms_return_char=ret))
        out = _outcome(lambda: ch.channel_authenticate_telnet(auth_username=user, auth_password=password))
    return out, t.writes


async def run_async(tape, user, password, interval, ret="\n"):
    from scrapli.channel import AsyncChannel
    from scrapli.channel.base_channel import BaseChannelArgs
    from scrapli.transport.base import AsyncTransport
    clock = Clock()
    t = _mk_transport(AsyncTransport, tape, clock, True)
    with patched(clock):
        ch = AsyncChannel(transport=t, base_channel_args=BaseChannelArgs(timeout_ops=float(10 * interval), comms_return_char=ret))
        try:
            await ch.channel_authenticate_telnet(auth_username=user, auth_password=password)
            out = "done"
        except SimStall:
            out = "pending"
        except ScrapliAuthenticationFailed:
            out = "authFailed"
        except ScrapliConnectionError:
            out = "connError"
    return out, t.writes


def real_patterns():
    """the three compiled patterns a default Channel searches with"""
    from scrapli.channel import Channel
    from scrapli.channel.base_channel import BaseChannelArgs
    from scrapli.transport.base import Transport
    t = _mk_transport(Transport, [], Clock(), False)
    ch = Channel(transport=t, base_channel_args=BaseChannelArgs())
    return {"login": ch.auth_telnet_login_pattern, "password": ch.auth_password_pattern,
            "prompt": ch._get_prompt_pattern(class_pattern=ch._base_channel_args.comms_prompt_pattern)}


# ---------------------------------------------------------------- in-channel ssh authentication (public twin methods of the
# channel pair; no asyncio DRIVER ever calls the async one — compared directly at channel level)
def run_ssh_sync(tape, password, passphrase):
    from scrapli.channel import Channel
    from scrapli.channel.base_channel import BaseChannelArgs
    from scrapli.transport.base import Transport
    clock = Clock()
    t = _mk_transport(Transport, tape, clock, False)
    with patched(clock):
        ch = Channel(transport=t, base_channel_args=BaseChannelArgs(timeout_ops=1000.0))
        out = _outcome(lambda: ch.channel_authenticate_ssh(auth_password=password, auth_private_key_passphrase=passphrase))
    return out, t.writes


async def run_ssh_async(tape, password, passphrase):
    from scrapli.channel import AsyncChannel
    from scrapli.channel.base_channel import BaseChannelArgs
    from scrapli.transport.base import AsyncTransport
    clock = Clock()
    t = _mk_transport(AsyncTransport, tape, clock, True)
    with patched(clock):
        ch = AsyncChannel(transport=t, base_channel_args=BaseChannelArgs(timeout_ops=1000.0))
        try:
            await ch.channel_authenticate_ssh(auth_password=password, auth_private_key_passphrase=passphrase)
            out = "done"
        except SimStall:
            out = "pending"
        except ScrapliAuthenticationFailed:
            out = "authFailed"
        except ScrapliConnectionError:
            out = "connError"
    return out, t.writes
