"""Causal simulated CLI device — the environment assumption of C01/C03/C04/C13 (see DESIGN.md §3.3).

The device reacts only to bytes written to it: it echoes typed characters, and on a return it prints a
newline, the command's output and the prompt of its (possibly new) mode.  Its mode changes only on the
vendor commands in the tables below, which are written by hand from vendor behaviour and are deliberately
NOT derived from scrapli's PRIVS (a wrong command in PRIVS must show up as the device not moving).

exec_log records (mode at execution, line) for every line the device executed — the observable that
C03/C13 speak about."""
from dataclasses import dataclass, field
from typing import Callable, Dict, List, Optional, Set, Tuple


@dataclass
class Move:
    to: str
    password: bool = False      # device asks "Password: " first (only if device.enable_password is not None)


def _iosxe():
    return dict(
        prompts={"exec": "{h}>", "privilege_exec": "{h}#", "configuration": "{h}(config)#", "tclsh": "{h}(tcl)#"},
        moves={("exec", "enable"): Move("privilege_exec", True), ("privilege_exec", "disable"): Move("exec"),
               ("privilege_exec", "configure terminal"): Move("configuration"), ("configuration", "end"): Move("privilege_exec"),
               ("privilege_exec", "tclsh"): Move("tclsh"), ("tclsh", "tclquit"): Move("privilege_exec"),
               ("configuration", "exit"): Move("privilege_exec")},
        fail="% Invalid input detected at '^' marker.", default="privilege_exec", trailing="",
    )


def _iosxr():
    p = "RP/0/RP0/CPU0:"
    return dict(
        prompts={"privilege_exec": p + "{h}#", "configuration": p + "{h}(config)#", "configuration_exclusive": p + "{h}(config)#"},
        moves={("privilege_exec", "configure terminal"): Move("configuration"), ("privilege_exec", "configure exclusive"): Move("configuration_exclusive"),
               ("configuration", "end"): Move("privilege_exec"), ("configuration_exclusive", "end"): Move("privilege_exec"),
               ("configuration", "abort"): Move("privilege_exec"), ("configuration_exclusive", "abort"): Move("privilege_exec"),
               ("configuration", "exit"): Move("privilege_exec"), ("configuration_exclusive", "exit"): Move("privilege_exec")},
        fail="% Invalid input detected at '^' marker.", default="privilege_exec", trailing="",
    )


def _nxos():
    return dict(
        prompts={"exec": "{h}>", "privilege_exec": "{h}#", "configuration": "{h}(config)#", "tclsh": "{h}-tcl#",
                 "session": "{h}(config-s)#"},
        moves={("exec", "enable"): Move("privilege_exec", True), ("privilege_exec", "disable"): Move("exec"),
               ("privilege_exec", "configure terminal"): Move("configuration"), ("configuration", "end"): Move("privilege_exec"),
               ("privilege_exec", "tclsh"): Move("tclsh"), ("tclsh", "tclquit"): Move("privilege_exec"),
               ("configuration", "exit"): Move("privilege_exec")},
        fail="% Invalid command at '^' marker.", default="privilege_exec", trailing=" ", sessions=True,
    )


def _eos():
    return dict(
        prompts={"exec": "{h}>", "privilege_exec": "{h}#", "configuration": "{h}(config)#", "session": "{h}(config-s-{s6})#"},
        moves={("exec", "enable"): Move("privilege_exec", True), ("privilege_exec", "disable"): Move("exec"),
               ("privilege_exec", "configure terminal"): Move("configuration"), ("configuration", "end"): Move("privilege_exec"),
               ("configuration", "exit"): Move("privilege_exec")},
        fail="% Invalid input", default="privilege_exec", trailing="", sessions=True,
    )


def _junos():
    cfg = "[edit]\n{u}@{h}#"
    m = {("exec", "configure"): Move("configuration"), ("exec", "configure exclusive"): Move("configuration_exclusive"),
         ("exec", "configure private"): Move("configuration_private"), ("exec", "start shell"): Move("shell"),
         ("exec", "start shell user root"): Move("root_shell", True), ("shell", "exit"): Move("exec"), ("root_shell", "exit"): Move("exec")}
    for c in ("configuration", "configuration_exclusive", "configuration_private"):
        m[(c, "exit configuration-mode")] = Move("exec")
        m[(c, "exit")] = Move("exec")
    return dict(
        prompts={"exec": "{u}@{h}>", "configuration": cfg, "configuration_exclusive": cfg, "configuration_private": cfg,
                 "shell": "%", "root_shell": "root@{h}:~ #"},
        moves=m, fail="syntax error.", default="exec", trailing=" ",
    )


PLATFORMS: Dict[str, Callable[[], dict]] = {
    "cisco_iosxe": _iosxe, "cisco_iosxr": _iosxr, "cisco_nxos": _nxos, "arista_eos": _eos, "juniper_junos": _junos,
}


class CliDevice:
    """mode machine + echo + output framing.  All text is bytes on the wire; `nl` is the device's newline."""

    def __init__(self, platform: str = "cisco_iosxe", hostname: str = "r1", user: str = "admin", login_mode: Optional[str] = None,
                 outputs: Optional[Callable[[str, str], Optional[str]]] = None, nl: bytes = b"\n", trailing: Optional[str] = None,
                 echo: bool = True, enable_password: Optional[str] = None, refuse: Optional[Set[Tuple[str, str]]] = None,
                 ignore: Optional[Set[Tuple[str, str]]] = None, fail_lines: Optional[Set[str]] = None, banner: bytes = b"",
                 prompts: Optional[Dict[str, str]] = None, moves: Optional[Dict[Tuple[str, str], Move]] = None):
        spec = PLATFORMS[platform]() if platform in PLATFORMS else dict(prompts={"exec": "{h}>"}, moves={}, fail="% error", default="exec", trailing="")
        self.platform, self.hostname, self.user = platform, hostname, user
        self.prompts = dict(spec["prompts"]); self.prompts.update(prompts or {})
        self.moves = dict(spec["moves"]); self.moves.update(moves or {})
        self.fail_text = spec["fail"]
        self.sessions = spec.get("sessions", False)
        self.mode = login_mode or spec["default"]
        self.session_name = ""
        self.outputs = outputs
        self.nl, self.echo = nl, echo
        self.trailing = (spec["trailing"] if trailing is None else trailing).encode()
        self.enable_password = enable_password
        self.refuse, self.ignore, self.fail_lines = refuse or set(), ignore or set(), fail_lines or set()
        self.banner = banner
        self.linebuf = bytearray()
        self.pending: Optional[Move] = None      # waiting for a password for this move
        self.pw_tries = 0
        self.exec_log: List[Tuple[str, str]] = []     # (mode, line) of every executed line (not passwords)
        self.events: List[tuple] = []                 # finer log: ("exec", mode, line) | ("password", ok) | ("move", a, b)
        self.closed = False

    # ---- rendering
    def prompt(self, mode: Optional[str] = None) -> bytes:
        mode = mode or self.mode
        t = self.prompts["session" if mode.startswith("session:") else mode]
        s = t.format(h=self.hostname, u=self.user, s6=self.session_name[:6])
        return s.encode().replace(b"\n", self.nl)

    def mode_name(self) -> str:
        """name as scrapli's privilege tables would call it (sessions by their registered name)"""
        return self.session_name if self.mode.startswith("session:") else self.mode

    def connect(self) -> bytes:
        return self.banner + self.prompt() + self.trailing

    # ---- reaction to written bytes
    def on_write(self, data: bytes) -> bytes:
        out = bytearray()
        for b in data:
            if b == 0x0A:
                out += self._execute(bytes(self.linebuf))
                self.linebuf.clear()
            elif b == 0x0D:
                continue
            else:
                self.linebuf.append(b)
                if self.echo and self.pending is None:
                    out.append(b)
        return bytes(out)

    def _frame(self, text: Optional[str]) -> bytes:
        """newline (end of the echoed line), output lines, then the prompt of the current mode"""
        out = bytearray(self.nl)
        if text:
            for ln in text.split("\n"):
                out += ln.encode() + self.nl
        out += self.prompt() + self.trailing
        return bytes(out)

    def _execute(self, raw: bytes) -> bytes:
        line = raw.decode("utf-8", "replace")
        if self.pending is not None:
            mv, self.pending = self.pending, None
            ok = line == self.enable_password
            self.events.append(("password", ok))
            if ok:
                self._move(mv.to)
                return self._frame(None)
            self.pw_tries += 1
            if self.pw_tries < 3:
                self.pending = mv
                return self.nl + b"Password: "
            self.pw_tries = 0
            return self._frame("% Bad passwords")
        cmd = line.strip()
        mode = self.mode_name()
        self.exec_log.append((mode, line))
        self.events.append(("exec", mode, line))
        key = (self._base_mode(), cmd)
        if cmd and key in self.refuse or (mode, cmd) in self.refuse:
            return self._frame(self.fail_text)
        if cmd and key in self.ignore or (mode, cmd) in self.ignore:
            return self._frame(None)
        mv = self.moves.get(key)
        if mv is None and self.sessions and self._base_mode() == "privilege_exec" and cmd.startswith("configure session "):
            self.session_name = cmd[len("configure session "):].strip()
            self._move("session:" + self.session_name)
            return self._frame(None)
        if mv is None and self._base_mode() == "session" and cmd in ("end", "abort", "commit", "exit"):
            self._move("privilege_exec")
            return self._frame(None)
        if mv is not None:
            if mv.password and self.enable_password is not None:
                self.pending, self.pw_tries = mv, 0
                return self.nl + b"Password: "
            self._move(mv.to)
            return self._frame(None)
        if cmd in self.fail_lines:
            return self._frame(self.fail_text)
        text = self.outputs(mode, line) if self.outputs else None
        return self._frame(text)

    def _base_mode(self) -> str:
        return "session" if self.mode.startswith("session:") else self.mode

    def _move(self, to: str) -> None:
        self.events.append(("move", self.mode, to))
        self.mode = to
        if not to.startswith("session:"):
            self.session_name = ""
