"""C08 thorough rigs: the REAL transports against real OS objects that die at a chosen byte offset.

  pty        SystemTransport + real PtyProcess; a fake `ssh` (first on PATH) plays a device on its tty and SIGKILLs itself
             after n output bytes (login dialogue included: in-channel ssh authentication runs too)
  telnet /   TelnetTransport / AsynctelnetTransport against a loopback TCP device that, after n output bytes, closes
  asynctelnet   (mode fin: drains its input first -> clean FIN; mode rst: SO_LINGER 0 -> RST)
  paramiko / ParamikoTransport / AsyncsshTransport against an in-process asyncssh server that, after n output bytes,
  asyncssh      aborts the TCP connection / closes the connection / ends the session channel only (exit)

Every case runs in its own worker process (`python c08rigs.py '<json spec>'`) under a hard wall-clock limit: an asyncio
operation that spins without yielding cannot be interrupted from inside, the parent kills it and records `hang`.
Observed per case: for each operation (open, get_prompt, send_command x2) the exception class / is it a ScrapliException /
seconds; then isalive(), one more operation, close().  The verdict is the parent's (props/c08.py oracle), not the worker's."""
import json, os, signal, socket, struct, subprocess, sys, threading, time
from concurrent.futures import ThreadPoolExecutor
from pathlib import Path

HERE = Path(__file__).resolve()
TIMEOUT_OPS = 1.5
HARD_LIMIT = 14.0
PROMPT = b"r1#"
PATTERN = r"^r1#\s*$"

FAKE_SSH = r'''#!%(python)s
import os, signal, sys, termios
die = int(os.environ.get("C08_DIE_AFTER", "-1"))
out = 0
def emit(b):
    global out
    for i in range(len(b)):
        if die >= 0 and out >= die:
            os.kill(os.getpid(), signal.SIGKILL)
        os.write(1, b[i:i + 1]); out += 1
try:
    a = termios.tcgetattr(0); a[3] &= ~(termios.ECHO | termios.ICANON); termios.tcsetattr(0, termios.TCSANOW, a)
except Exception:
    pass
emit(b"Password: ")
state, line = "pw", b""
while True:
    c = os.read(0, 1)
    if not c:
        break
    if c in b"\r\n":
        if state == "pw":
            state = "sh"; emit(b"\nr1#")
        else:
            emit(b"\n" + (b"output of " + line + b"\n" if line else b"") + b"r1#")
        line = b""
    else:
        line += c
        if state == "sh":
            emit(c)
'''


# ------------------------------------------------------------------------------------------------ worker side
def _device_reply(line):
    return b"\n" + (b"output of " + line + b"\n" if line else b"") + PROMPT


IAC, DO, WILL = b"\xff", b"\xfd", b"\xfb"


class TelnetDev:
    """a Telnet device: login dialogue, echo, output — with option negotiation commands (IAC DO/WILL x) interleaved with the text,
    also in the middle of words and lines (9 commands in a whole session: the sync transport stops negotiating after 10).
    Bytes in, bytes out; the client's negotiation replies (IAC verb option) are ignored."""

    def __init__(self):
        self.state = "user"
        self.line = b""
        self.skip = 0

    def connect(self):
        return IAC + DO + b"\x18" + IAC + WILL + b"\x01" + b"\r\nUser Access Verification\r\n" + IAC + DO + b"\x1f" + b"Username: "

    def on_write(self, data):
        out = b""
        for i in range(len(data)):
            d = data[i:i + 1]
            if self.skip:
                self.skip -= 1
                continue
            if d == IAC:
                self.skip = 2
                continue
            if d == b"\r":
                continue
            if d != b"\n":
                self.line += d
                if self.state != "pass":
                    out += d
                continue
            line, self.line = self.line, b""
            if self.state == "user":
                self.state = "pass"
                out += b"\r\nPass" + IAC + WILL + b"\x03" + b"word: "
            elif self.state == "pass":
                self.state = "sh"
                out += b"\r\n" + IAC + DO + b"\x21" + b"r1#"
            elif line:
                out += b"\r\noutput " + IAC + DO + b"\x27" + b"of " + line + b"\r\nli" + IAC + WILL + b"\x05" + b"ne2\r\nr1#"
            else:
                out += b"\r\nr1#"
        return out


def _tcp_server(mode, offset):
    s = socket.socket()
    s.setsockopt(socket.SOL_SOCKET, socket.SO_REUSEADDR, 1)
    s.bind(("127.0.0.1", 0))
    s.listen(1)
    port = s.getsockname()[1]

    def run():
        c, _ = s.accept()
        sent = 0
        dev = TelnetDev()

        def drop():
            if mode in ("rst", "rstnow"):
                c.setsockopt(socket.SOL_SOCKET, socket.SO_LINGER, struct.pack("ii", 1, 0))
            else:
                c.settimeout(0.3)
                try:
                    while c.recv(4096):
                        pass
                except Exception:
                    pass
            c.close()
            s.close()

        def emit(b):
            nonlocal sent
            if not b:
                return True
            if sent + len(b) <= offset:
                c.sendall(b)
                sent += len(b)
                return True
            if offset > sent:
                c.sendall(b[:offset - sent])      # the last bytes before the drop: possibly IAC, or IAC + verb
                sent = offset
                if mode != "rstnow":
                    time.sleep(0.05)              # let them arrive on their own before the FIN / RST
            # mode rstnow: the RST follows the last bytes at once — the client still receives the queued bytes (possibly complete
            # negotiation commands) and finds the connection reset when it sends the replies it owes
            drop()
            return False
        if mode == "rstnow":
            time.sleep(0.3)        # let the client get blocked in its first recv(): the bytes and the RST then reach it together
        if not emit(dev.connect()):
            return
        while True:
            try:
                d = c.recv(4096)
            except OSError:
                return
            if not d:
                c.close()
                return
            if not emit(dev.on_write(d)):
                return
    threading.Thread(target=run, daemon=True).start()
    return port


def _ssh_server(mode, offset):
    import asyncio, asyncssh
    key = asyncssh.generate_private_key("ssh-rsa")
    port = [0]

    class Srv(asyncssh.SSHServer):
        def begin_auth(self, username):
            return True

        def password_auth_supported(self):
            return True

        def validate_password(self, u, p):
            return True

    async def handle(process):
        sent = 0
        conn = process.channel.get_connection()

        async def drop():
            await asyncio.sleep(0.05)
            if mode == "abort":
                conn.abort()
            elif mode == "close":
                conn.close()
            else:
                process.exit(0)

        async def emit(b):
            nonlocal sent
            for i in range(len(b)):
                if sent >= offset:
                    await drop()
                    return False
                process.stdout.write(b[i:i + 1])
                sent += 1
            return True
        try:
            if not await emit(PROMPT):
                return
            line = b""
            while True:
                d = await process.stdin.read(1)
                if not d:
                    return
                if d in b"\r\n":
                    if not await emit(_device_reply(line)):
                        return
                    line = b""
                else:
                    line += d
                    if not await emit(d):
                        return
        except Exception:
            return
    loop = asyncio.new_event_loop()

    def srv():
        asyncio.set_event_loop(loop)

        async def go():
            s = await asyncssh.listen("127.0.0.1", 0, server_factory=Srv, server_host_keys=[key], process_factory=handle, encoding=None)
            port[0] = s.sockets[0].getsockname()[1]
        loop.run_until_complete(go())
        loop.run_forever()
    threading.Thread(target=srv, daemon=True).start()
    t0 = time.time()
    while not port[0]:
        if time.time() - t0 > 10:
            raise RuntimeError("ssh server did not start")
        time.sleep(0.02)
    return port[0]


def worker(spec):
    import asyncio, faulthandler, resource
    resource.setrlimit(resource.RLIMIT_AS, (4 << 30, 4 << 30))
    if os.environ.get("C08_RIG_DUMP"):
        faulthandler.dump_traceback_later(float(os.environ["C08_RIG_DUMP"]), exit=False, file=open(f"/tmp/c08-rig-dump-{os.getpid()}.txt", "w"))
    sys.path.insert(0, spec["repo"])
    from scrapli.driver import AsyncGenericDriver, GenericDriver
    from scrapli.exceptions import ScrapliException
    rig, mode, offset = spec["rig"], spec["mode"], spec["offset"]
    kw = dict(host="127.0.0.1", timeout_ops=TIMEOUT_OPS, timeout_transport=0 if rig != "paramiko" else 5, timeout_socket=3, comms_prompt_pattern=PATTERN)
    if rig == "pty":
        os.environ["PATH"] = spec["bindir"] + ":" + os.environ["PATH"]
        os.environ["C08_DIE_AFTER"] = str(offset)
        kw.update(host="fakehost", transport="system", auth_username="u", auth_password="pw", auth_strict_key=False)
        cls = GenericDriver
    elif rig in ("telnet", "asynctelnet"):
        kw.update(port=_tcp_server(mode, offset), transport=rig, auth_bypass=False, auth_username="u", auth_password="pw")
        cls = GenericDriver if rig == "telnet" else AsyncGenericDriver
    else:
        kw.update(port=_ssh_server(mode, offset), transport=rig, auth_username="u", auth_password="p", auth_strict_key=False)
        cls = GenericDriver if rig == "paramiko" else AsyncGenericDriver
    conn = cls(**kw)
    is_async = cls is AsyncGenericDriver
    res = {"spec": spec, "ops": []}

    async def call(fn):
        r = fn()
        if asyncio.iscoroutine(r):
            r = await r
        return r

    async def one(name, fn):
        t0 = time.time()
        try:
            v = await call(fn)
            rec = {"op": name, "ok": True, "value": repr(v)[:60]}
        except BaseException as e:  # noqa
            rec = {"op": name, "ok": False, "exc": type(e).__name__, "scrapli": isinstance(e, ScrapliException), "msg": str(e)[:100],
                   "mro": [c.__name__ for c in type(e).__mro__[:4]]}
        rec["s"] = round(time.time() - t0, 3)
        res["ops"].append(rec)
        print(json.dumps(res), flush=True)      # the parent keeps the last complete line if it has to kill us
        return rec

    async def main():
        failed = False
        for name, fn in (("open", conn.open), ("get_prompt", conn.get_prompt), ("send_command", lambda: conn.send_command("show version")),
                         ("send_command2", lambda: conn.send_command("show clock"))):
            rec = await one(name, fn)
            if not rec["ok"]:
                failed = True
                break
        res["failed"] = failed
        await one("isalive", conn.isalive)
        await one("further", conn.get_prompt)
        await one("isalive2", conn.isalive)
        await one("close", conn.close)
        res["complete"] = True
        print(json.dumps(res), flush=True)
    asyncio.run(main())


def telnet_stream():
    """everything the Telnet device sends in the scripted session: login as u / pw, get_prompt, two commands"""
    d = TelnetDev()
    out = d.connect()
    for w in (b"u\n", b"pw\n", b"\n", b"show version", b"\n", b"show clock", b"\n"):
        out += d.on_write(w)
    return out


def iac_offsets():
    """offsets of the session stream that fall strictly inside a 3-byte command (after IAC, after IAC + verb)"""
    st, res = telnet_stream(), []
    i = 0
    while i < len(st):
        if st[i:i + 1] == IAC:
            res += [i + 1, i + 2]
            i += 3
        else:
            i += 1
    return res


def stream_worker(spec):
    """quick-tier twin of the loopback rig: BOTH real Telnet transports on fakes at the socket / StreamReader boundary, the scripted
    Telnet session (negotiation commands interleaved with login dialogue, echo and output) lost after n bytes — chunks are cut
    exactly there, so a drop strictly inside a command leaves IAC / IAC + verb pending.  One line per case; the parent kills us when
    a case does not finish (an asyncio loop that spins without yielding cannot be interrupted from inside)."""
    import asyncio, types
    sys.path.insert(0, spec["repo"])
    sys.path.insert(0, str(HERE.parents[1]))
    os.environ["SCRAPLI_VERIF"] = "1"
    from harness import libfakes as L
    from scrapli.exceptions import ScrapliException
    import scrapli.channel.async_channel as AC
    proxy = types.SimpleNamespace(**{k: getattr(asyncio, k) for k in dir(asyncio) if not k.startswith("__")})

    async def _sleep(d, *a, **k):
        await asyncio.sleep(0)
    proxy.sleep = _sleep
    AC.asyncio = proxy       # the asyncio login loop sleeps 0.1 s per iteration: timing only
    for idx, case in spec["cases"]:
        t, o, n = case[:3]
        lock = bool(len(case) > 3 and case[3])      # channel_lock=True with the REAL threading / asyncio lock and the real timeout mechanism
        replyk = case[4] if len(case) > 4 else None  # the peer resets / closes when the k-th negotiation reply is sent (replies still owed)
        print(json.dumps({"start": idx}), flush=True)
        link = L.Link(t, device=TelnetDev(), after="same")
        if replyk is None:
            link.byte_fault = (n, o)
        else:
            link.reply_fault = (replyk, o)
        ops = []
        with L.patched(link):
            conn = L.make_real_conn(t, link, timeout_ops=spec.get("timeout_ops", 2.0), wire=False, auth_bypass=False, auth_username="u", auth_password="pw",
                                    comms_prompt_pattern=PATTERN, channel_lock=lock)
            if t in L.ASYNC:
                L.ReadGuard(conn)
            failed = False

            def one(name, fn):
                t0 = time.time()
                r = L.run_op(conn, fn)
                if r[0] == "ok":
                    rec = {"op": name, "ok": True, "value": repr(r[1])[:60]}
                else:
                    e = r[1]
                    rec = {"op": name, "ok": False, "exc": type(e).__name__, "scrapli": isinstance(e, ScrapliException), "msg": str(e)[:100]}
                rec["s"] = round(time.time() - t0, 3)
                ops.append(rec)
                print(json.dumps({"progress": idx, "ops": ops}), flush=True)
                return rec
            for name, fn in (("open", "open"), ("get_prompt", "get_prompt"), ("send_command", "send_command"),
                             ("send_command2", lambda: conn.send_command("show clock"))):
                if not one(name, fn)["ok"]:
                    failed = True
                    break
            one("isalive", "isalive")
            one("further", "get_prompt")            # second ...
            one("further2", "send_command")         # ... and third operation on the same connection
            one("close", "close")
            L.dispose(t, conn.transport)
        print(json.dumps({"idx": idx, "ops": ops, "failed": failed, "complete": True, "pend": link.pend}), flush=True)


def run_stream_cases(repo, cases, per_case_limit=20.0, timeout_ops=2.0):
    """cases = [(transport, outcome, offset)] -> list of {"killed", "res"} in the same order"""
    import queue
    results = [None] * len(cases)
    todo = list(enumerate(cases))
    restarts = 0
    while todo:
        spec = {"rig": "telnetfake", "repo": repo, "cases": [[i, list(c)] for i, c in todo], "timeout_ops": timeout_ops}
        p = subprocess.Popen([sys.executable, str(HERE), json.dumps(spec)], stdout=subprocess.PIPE, stderr=subprocess.PIPE, text=True, start_new_session=True)
        q = queue.Queue()

        def pump(p=p, q=q):
            for line in p.stdout:
                q.put(line)
            q.put(None)
        threading.Thread(target=pump, daemon=True).start()
        current, hung, progress = None, False, []
        first = True
        while True:
            try:
                line = q.get(timeout=per_case_limit + (20 if first else 0))      # the first answer includes the interpreter start-up
            except queue.Empty:
                hung = True
                break
            first = False
            if line is None:
                break
            if not line.startswith("{"):
                continue
            d = json.loads(line)
            if "start" in d:
                current, progress = d["start"], []
            elif "progress" in d:
                progress = d["ops"]
            elif "idx" in d:
                results[d["idx"]] = {"killed": False, "res": d}
                current = None
        if hung:
            os.killpg(p.pid, signal.SIGKILL)
        err = ""
        try:
            _, err = p.communicate(timeout=10)
        except Exception:
            pass
        done = {i for i, r in enumerate(results) if r is not None}
        if hung and current is not None:
            results[current] = {"killed": True, "res": {"ops": progress or [{"op": "start", "ok": True}], "failed": True}}
            done.add(current)
        elif not hung and p.returncode not in (0, None) and current is not None:
            results[current] = {"killed": False, "res": None, "err": err[-800:]}
            done.add(current)
        elif hung and current is None:
            raise RuntimeError("stream worker did not start: " + err[-500:])
        todo = [(i, c) for i, c in todo if i not in done]
        restarts += 1
        if restarts > 12 and todo:
            for i, _ in todo:
                results[i] = {"killed": False, "res": None, "err": "not run: too many worker restarts"}
            break
    return results


# ------------------------------------------------------------------------------------------------ parent side
def _bindir():
    d = Path("/tmp/c08-rig-bin")
    d.mkdir(exist_ok=True)
    f = d / "ssh"
    body = FAKE_SSH % {"python": sys.executable}
    if not f.exists() or f.read_text() != body:
        f.write_text(body)
        f.chmod(0o755)
    return str(d)


def run_case(spec):
    p = subprocess.Popen([sys.executable, str(HERE), json.dumps(spec)], stdout=subprocess.PIPE, stderr=subprocess.PIPE, text=True, start_new_session=True)
    try:
        out, err = p.communicate(timeout=HARD_LIMIT)
        killed = False
    except subprocess.TimeoutExpired:
        os.killpg(p.pid, signal.SIGKILL)
        out, err = p.communicate()
        killed = True
    lines = [l for l in out.splitlines() if l.startswith("{")]
    last = None
    for l in reversed(lines):
        try:
            last = json.loads(l)
            break
        except Exception:
            continue
    return {"spec": spec, "killed": killed, "rc": p.returncode, "res": last, "err": err[-600:]}


def specs(repo):
    out = []
    b = _bindir()
    for n in list(range(0, 75)) + [90, 120]:
        out.append({"rig": "pty", "mode": "kill", "offset": n, "repo": repo, "bindir": b})
    ntel = len(telnet_stream())
    for rig in ("telnet", "asynctelnet"):
        for mode in ("fin", "rst"):
            for n in list(range(0, ntel + 1)) + [ntel + 40]:     # every byte offset of the session, also inside the IAC commands
                out.append({"rig": rig, "mode": mode, "offset": n, "repo": repo})
        # reset while option replies are still owed: RST right behind the bytes, at every command end and every 3rd offset
        ends = sorted({x + 1 for x in iac_offsets()[1::2]} | set(range(0, ntel + 1, 3)))
        for n in ends:
            out.append({"rig": rig, "mode": "rstnow", "offset": n, "repo": repo})
    for rig in ("paramiko", "asyncssh"):
        for mode in ("abort", "close", "exit"):
            for n in (0, 1, 3, 4, 10, 16, 17, 18, 25, 40, 47, 48, 52, 70):
                out.append({"rig": rig, "mode": mode, "offset": n, "repo": repo})
    return out


def judge(r, slack=4.0, hard_limit=HARD_LIMIT):
    """-> list of (atom, text) property failures of one case; [] = fine; None = the drop happened after the exchange"""
    spec, res = r["spec"], r["res"]
    t = "system" if spec["rig"] == "pty" else spec["rig"]
    if r["killed"]:
        stuck = res["ops"][-1]["op"] if res and res.get("ops") else "start"
        return [(["righang", t], f"{spec}: no result within {hard_limit}s (timeout_ops={TIMEOUT_OPS}): the operation hangs; last finished step: {stuck}")]
    ops = {o["op"]: o for o in res["ops"]}
    if not res.get("failed"):
        return None
    bad = []
    first = next(o for o in res["ops"] if not o["ok"])
    if first["exc"] == "Starved":
        bad.append((["righang", t], f"{spec}: {first['op']} spins without ever yielding to the event loop (thousands of reads returned b'' without awaiting): "
                                    "no timeout can fire, the operation hangs for ever"))
    elif not first["scrapli"]:
        bad.append((["rigexc", t, first["exc"]], f"{spec}: {first['op']} raised {first['exc']}: {first['msg']}"))
    elif first["s"] > TIMEOUT_OPS + slack and first["op"] != "open":
        bad.append((["riglate", t], f"{spec}: {first['op']} raised after {first['s']}s (timeout_ops={TIMEOUT_OPS})"))
    if not bad:
        al = ops.get("isalive")
        if not (al and al["ok"] and al["value"] == "False"):
            bad.append((["rigalive", t], f"{spec}: isalive() after the drop -> {al}"))
        for name in ("further", "further2"):
            fu = ops.get(name)
            if fu and (fu["ok"] or not fu["scrapli"]):
                bad.append((["rigexc", t, fu.get("exc", "no-exception")], f"{spec}: {name} operation on the dead connection -> {fu}"))
                break
        cl = ops.get("close")
        if cl and not cl["ok"] and not cl["scrapli"]:
            bad.append((["rigexc", t, cl["exc"]], f"{spec}: close() on the dead connection -> {cl}"))
    return bad


def run_all(ck, matcher, RigError):
    from vlib.common import REPO
    sp = specs(str(REPO))
    t0 = time.time()
    with ThreadPoolExecutor(max_workers=8) as pool:
        results = list(pool.map(run_case, sp))
    # no output at all, a crash, or killed before open() had even finished (a loaded machine): rig trouble, never a verdict
    trouble = [r for r in results if r["res"] is None or (not r["killed"] and not r["res"].get("complete")) or (r["killed"] and not r["res"]["ops"])]
    if len(trouble) > len(results) // 10:
        raise RigError(f"{len(trouble)} of {len(results)} rig workers produced no result; first: {trouble[0]['spec']} rc={trouble[0]['rc']} {trouble[0]['err']}")
    summary = {}
    for r in results:
        spec = r["spec"]
        t = "system" if spec["rig"] == "pty" else spec["rig"]
        if r in trouble:
            ck.extra["rig_cases_without_result"] = ck.extra.get("rig_cases_without_result", 0) + 1
            continue
        v = judge(r)
        first = next((o for o in (r["res"]["ops"] if r["res"] else []) if not o["ok"]), None)
        key = f"{spec['rig']}/{spec['mode']}: " + ("hang" if r["killed"] else "completed" if v is None else f"{first['op']}->{first['exc']}")
        summary[key] = summary.get(key, 0) + 1
        ck.case(("rig", spec["rig"], spec["mode"], spec["offset"]), nontrivial=v is not None, sample={"spec": {k: spec[k] for k in ("rig", "mode", "offset")}, "ops": r["res"]["ops"] if r["res"] else None},
                tags=(f"rig={spec['rig']}", f"rigmode={spec['mode']}", "rig-drop-hit" if v is not None else "rig-drop-after-exchange"))
        for atom, text in (v or []):
            ck.violation({"kind": "rig", "atom": atom, "transport": t, "spec": {k: spec[k] for k in ("rig", "mode", "offset")}, "ops": r["res"]["ops"] if r["res"] else None}, text, matcher)
    ck.extra["rig_summary"] = summary
    ck.extra["rig_wall_s"] = round(time.time() - t0, 1)


def replay(v):
    from vlib.common import REPO
    spec = dict(v["spec"], repo=str(REPO))
    if spec["rig"] == "pty":
        spec["bindir"] = _bindir()
    r = run_case(spec)
    print(json.dumps(r, indent=1)[:3000])
    j = judge(r)
    print("verdict:", j)
    return 1 if j else 0


if __name__ == "__main__":
    _spec = json.loads(sys.argv[1])
    if _spec.get("rig") == "telnetfake":
        stream_worker(_spec)
    else:
        worker(_spec)
