"""C10 library fakes: run the REAL `open()` of ParamikoTransport / AsyncsshTransport / Ssh2Transport
with the ssh library replaced at the import boundary by recording fakes, and return the event trace
in the vocabulary of the Lean model (lean/ScrapliModel/HostKey.lean):

    kex  lookup:<found>:<equal>  verifyOK  verifyFail  offerKey  offerPassword  openSession  raise:<Class>

What is replaced (attributes of the transport *module*, restored afterwards):
  paramiko : `_ParamikoTransport` (start_client / get_remote_server_key / auth_publickey / auth_password /
             is_authenticated / open_session), `RSAKey` (loads or raises); the socket is a dummy object
  asyncssh : `connect` (plays asyncssh's contract: load client keys, key exchange, check the server key
             against whatever `known_hosts=` carries — evaluated with asyncssh's OWN
             `match_known_hosts` —, then publickey, then password; returns a connection exposing
             `get_server_host_key()` / `open_session()`)
  ssh2     : ssh2-python is NOT installed; a stub package `ssh2` (Session / Channel / exceptions, written
             from the calls scrapli makes) is put into sys.modules so that scrapli's Ssh2Transport can be
             imported and its `open()` executed.  The real library is never run.
Common: `SSHKnownHosts` in the transport module is wrapped so every `lookup` is recorded (the REAL
parser and lookup run on a real known_hosts file); `_verify_key` / `_verify_key_value` are wrapped on
the instance to record verifyOK / verifyFail."""
import asyncio, base64, sys, types

from scrapli.exceptions import ScrapliAuthenticationFailed, ScrapliConnectionNotOpened

BITS = ("strict", "hasKey", "keyLoads", "hasPw", "hasUser", "kexOK", "accKey", "accPw", "userUnpins")


def exc_name(e):
    if isinstance(e, ScrapliAuthenticationFailed):
        return "raise:AuthenticationFailed"
    if isinstance(e, ScrapliConnectionNotOpened):
        return "raise:ConnectionNotOpened"
    return "raise:Library"


class Rec:
    def __init__(self, server_b64):
        self.ev = []
        self.server_b64 = server_b64

    def __call__(self, e):
        self.ev.append(e)


def _wrap_known_hosts(mod, rec):
    """record every known_hosts lookup, HOWEVER the transport gets hold of the SSHKnownHosts object (constructed in place,
    through a factory, cached …): the `lookup` method of the class itself is wrapped; the real parser / lookup run.
    -> the original function, for _restore_known_hosts"""
    import scrapli.ssh_config as SC
    orig = SC.SSHKnownHosts.lookup

    def lookup(self, host):
        r = orig(self, host)
        found = bool(r)
        equal = found and r.get("public_key") == rec.server_b64
        rec(f"lookup:{int(found)}:{int(equal)}")
        return r
    SC.SSHKnownHosts.lookup = lookup
    return orig


def _restore_known_hosts(orig):
    import scrapli.ssh_config as SC
    SC.SSHKnownHosts.lookup = orig


def _wrap_verify(t, rec, full_names, presence_names=()):
    for name in full_names + tuple(presence_names):
        orig = getattr(t, name, None)
        if orig is None:
            continue

        def w(orig=orig, full=name in full_names):
            try:
                orig()
            except ScrapliAuthenticationFailed:
                rec("verifyFail")
                raise
            if full:
                rec("verifyOK")
        setattr(t, name, w)


def _compares_value(cls, name):
    """does cls.<name> compare the key value (read from the source, as the translator does)"""
    import ast, inspect, textwrap
    f = getattr(cls, name, None)
    if f is None:
        return False
    tree = ast.parse(textwrap.dedent(inspect.getsource(f)))
    for n in ast.walk(tree):
        if isinstance(n, ast.Compare):
            for side in [n.left, *n.comparators]:
                if isinstance(side, ast.Subscript) and isinstance(side.slice, ast.Constant) and side.slice.value == "public_key":
                    return True
    return False


def _base_args(host, port=22):
    from scrapli.transport.base import BaseTransportArgs
    return BaseTransportArgs(transport_options={}, host=host, port=port, timeout_socket=5, timeout_transport=5, logging_uid="")


def _plugin_kwargs(cfg, kh):
    return dict(auth_username="bob" if cfg["hasUser"] else "", auth_password="pw" if cfg["hasPw"] else "",
                auth_private_key="/nonexistent/id_rsa" if cfg["hasKey"] else "",
                auth_strict_key=cfg["strict"], ssh_known_hosts_file=kh)


class _Chan:
    def get_pty(self): pass
    def invoke_shell(self): pass
    def settimeout(self, v): pass
    def pty(self): pass
    def shell(self): pass
    def close(self): pass


class _Sock:
    sock = object()

    def isalive(self): return True
    def open(self): pass
    def close(self): pass


# ------------------------------------------------------------------ paramiko
def _begin(t, cfg, rec, att, kh):
    """start of one attempt of a history: optional close(), new known_hosts content, new configuration"""
    pre = []
    if att.get("close"):
        try:
            t.close()
        except Exception as e:
            pre.append(f"close-raised:{type(e).__name__}")
    if att.get("text") is not None:
        with open(kh, "w") as f:
            f.write(att["text"])
    cfg.clear()
    cfg.update(att["cfg"])
    t.plugin_transport_args.auth_strict_key = cfg["strict"]
    t.plugin_transport_args.auth_username = "bob" if cfg["hasUser"] else ""
    t.plugin_transport_args.auth_password = "pw" if cfg["hasPw"] else ""
    t.plugin_transport_args.auth_private_key = "/nonexistent/id_rsa" if cfg["hasKey"] else ""
    # the user's transport options: asked to hand `known_hosts: None` to the ssh library
    t._base_transport_args.transport_options = {"asyncssh": {"known_hosts": None}} if cfg.get("userUnpins") else {}
    rec.ev = pre


def history_paramiko(attempts, kh, host, server_b64, server_key_type="ssh-ed25519"):
    """attempts: [{"cfg":…, "close": bool, "text": known_hosts content or None}] on ONE transport object
    -> [(trace, session still referenced afterwards)]"""
    import scrapli.transport.plugins.paramiko.transport as M
    from paramiko.ssh_exception import AuthenticationException, SSHException
    rec = Rec(server_b64)
    cfg = dict(attempts[0]["cfg"])

    class FakeSession:
        def __init__(self, sock):
            self.authed = False
            self.active = False
            self.disabled_algorithms = {}

        def start_client(self, *a, **k):
            rec("kex")
            if not cfg["kexOK"]:
                raise SSHException("handshake failed")
            self.active = True

        def is_active(self): return self.active
        def is_alive(self): return self.active

        def get_remote_server_key(self):
            class K:
                def get_base64(self_inner): return server_b64
                def get_name(self_inner): return server_key_type
            return K()

        def auth_publickey(self, username, key, *a, **k):
            rec("offerKey")
            if not cfg["accKey"]:
                raise AuthenticationException("no")
            self.authed = True

        def auth_password(self, username, password, *a, **k):
            rec("offerPassword")
            if not cfg["accPw"]:
                raise AuthenticationException("no")
            self.authed = True

        def is_authenticated(self): return self.authed

        def open_session(self, *a, **k):
            rec("openSession")
            return _Chan()

        def close(self): self.active = False

    class FakeRSAKey:
        def __init__(self, filename=None, *a, **k):
            if not cfg["keyLoads"]:
                raise FileNotFoundError(filename)

    saved = (M._ParamikoTransport, M.RSAKey)
    real_kh = _wrap_known_hosts(M, rec)
    M._ParamikoTransport, M.RSAKey = FakeSession, FakeRSAKey
    out = []
    try:
        def make():
            t = M.ParamikoTransport(_base_args(host), M.PluginTransportArgs(**_plugin_kwargs(cfg, kh)))
            t.socket = _Sock()
            _wrap_verify(t, rec, ("_verify_key",))
            return t
        t = make()
        for att in attempts:
            if att.get("new"):
                t = make()       # a NEW transport object in the same process, same known_hosts path
            _begin(t, cfg, rec, att, kh)
            if t.socket is None:
                t.socket = _Sock()
            try:
                t.open()
            except Exception as e:
                rec(exc_name(e))
            out.append((list(rec.ev), getattr(t, "session", None) is not None))
    finally:
        M._ParamikoTransport, M.RSAKey = saved
        _restore_known_hosts(real_kh)
    return out


def run_paramiko(cfg, kh, host, server_b64, server_key_type="ssh-ed25519"):
    return history_paramiko([{"cfg": cfg, "close": False, "text": None}], kh, host, server_b64, server_key_type)[0][0]


# ------------------------------------------------------------------ asyncssh
_pubkey_cache = {}


def _pub(server_b64, key_type):
    import asyncssh
    k = (key_type, server_b64)
    if k not in _pubkey_cache:
        _pubkey_cache[k] = asyncssh.import_public_key(f"{key_type} {server_b64}")
    return _pubkey_cache[k]


async def history_asyncssh_async(attempts, kh, host, server_b64, server_key_type, port=22, transport_options=None):
    import asyncssh
    import scrapli.transport.plugins.asyncssh.transport as M
    from asyncssh.known_hosts import match_known_hosts
    rec = Rec(server_b64)
    cfg = dict(attempts[0]["cfg"])
    seen_kwargs = {}

    class FakeConn:
        def get_server_host_key(self):
            return _pub(server_b64, server_key_type)

        async def open_session(self, **kw):
            rec("openSession")
            return object(), object(), object()

        def close(self): pass
        def is_closed(self): return False

    async def fake_connect(**kw):
        seen_kwargs.clear()
        seen_kwargs.update(kw)
        if kw.get("client_keys"):
            if not cfg["keyLoads"]:
                raise asyncssh.KeyImportError("cannot load")
        trusted = None
        if kw.get("known_hosts") is not None:
            # asyncssh's own reading of whatever was handed over (file name, bytes, callable, key lists)
            res = match_known_hosts(kw["known_hosts"], kw["host"], "192.0.2.55", None if kw["port"] == 22 else kw["port"])
            trusted = {k.export_public_key().split()[1].decode() for k in res[0]}
        rec("kex")
        if not cfg["kexOK"]:
            raise ConnectionResetError("kex failed")
        if trusted is not None and server_b64 not in trusted:
            rec("verifyFail")
            raise asyncssh.HostKeyNotVerifiable("Host key is not trusted for host " + kw["host"])
        if kw.get("client_keys"):
            rec("offerKey")
            if cfg["accKey"]:
                return FakeConn()
        if kw.get("password") is not None:
            rec("offerPassword")
            if cfg["accPw"]:
                return FakeConn()
        raise asyncssh.PermissionDenied("Permission denied")

    saved = M.connect
    real_kh = _wrap_known_hosts(M, rec)
    M.connect = fake_connect
    out = []
    try:
        base = _base_args(host, port)
        if transport_options:
            base.transport_options = transport_options
        full = tuple(n for n in ("_verify_key", "_verify_key_value") if _compares_value(M.AsyncsshTransport, n))
        pres = tuple(n for n in ("_verify_key", "_verify_key_value") if n not in full)

        def make():
            b2 = _base_args(host, port)
            t = M.AsyncsshTransport(b2, M.PluginTransportArgs(**_plugin_kwargs(cfg, kh)))
            _wrap_verify(t, rec, full, pres)
            return t
        t = make()
        for att in attempts:
            if att.get("new"):
                t = make()
            _begin(t, cfg, rec, att, kh)
            if transport_options:
                t._base_transport_args.transport_options = transport_options
            try:
                await t.open()
            except Exception as e:
                rec(exc_name(e))
            out.append((list(rec.ev), getattr(t, "session", None) is not None))
    finally:
        M.connect = saved
        _restore_known_hosts(real_kh)
    return out, dict(seen_kwargs)


def history_asyncssh(attempts, kh, host, server_b64, server_key_type, **kw):
    return asyncio.run(history_asyncssh_async(attempts, kh, host, server_b64, server_key_type, **kw))[0]


async def run_asyncssh_async(cfg, kh, host, server_b64, server_key_type, port=22, transport_options=None):
    out, kw = await history_asyncssh_async([{"cfg": cfg, "close": False, "text": None}], kh, host, server_b64, server_key_type,
                                           port=port, transport_options=transport_options)
    return out[0][0], kw


def run_asyncssh(cfg, kh, host, server_b64, server_key_type, **kw):
    return asyncio.run(run_asyncssh_async(cfg, kh, host, server_b64, server_key_type, **kw))


# ------------------------------------------------------------------ ssh2 (stub library)
class _Ssh2State:
    cfg = None
    rec = None


def _install_ssh2_stub():
    """put a stub `ssh2` package into sys.modules (only if the real one is absent)"""
    if "ssh2" in sys.modules and not getattr(sys.modules["ssh2"], "_c10_stub", False):
        return False
    if "ssh2" in sys.modules:
        return True
    pkg = types.ModuleType("ssh2")
    pkg._c10_stub = True
    pkg.__path__ = []
    exc = types.ModuleType("ssh2.exceptions")

    class SSH2Error(Exception):
        pass

    class AuthenticationError(SSH2Error):
        pass
    exc.SSH2Error, exc.AuthenticationError = SSH2Error, AuthenticationError
    chan = types.ModuleType("ssh2.channel")
    chan.Channel = _Chan
    sess = types.ModuleType("ssh2.session")

    class Session:
        def __init__(self):
            self.authed = False

        def set_timeout(self, v): pass

        def handshake(self, sock):
            _Ssh2State.rec("kex")
            if not _Ssh2State.cfg["kexOK"]:
                raise SSH2Error("handshake")

        def hostkey(self):
            return base64.b64decode(_Ssh2State.rec.server_b64), 1

        def userauth_publickey_fromfile(self, username, privatekey, passphrase=""):
            if not _Ssh2State.cfg["keyLoads"]:
                raise SSH2Error("cannot read key file")
            _Ssh2State.rec("offerKey")
            if not _Ssh2State.cfg["accKey"]:
                raise AuthenticationError("no")
            self.authed = True

        def userauth_password(self, username, password):
            _Ssh2State.rec("offerPassword")
            if not _Ssh2State.cfg["accPw"]:
                raise AuthenticationError("no")
            self.authed = True

        def userauth_keyboardinteractive(self, username, password):
            _Ssh2State.rec("offerPassword")
            if not _Ssh2State.cfg["accPw"]:
                raise AuthenticationError("no")
            self.authed = True

        def userauth_authenticated(self): return self.authed

        def open_session(self):
            _Ssh2State.rec("openSession")
            return _Chan()
    sess.Session = Session
    sys.modules.update({"ssh2": pkg, "ssh2.exceptions": exc, "ssh2.channel": chan, "ssh2.session": sess})
    return True


def ssh2_available():
    """True when scrapli's Ssh2Transport can be imported over the stub"""
    try:
        if not _install_ssh2_stub():
            return False
        import scrapli.transport.plugins.ssh2.transport  # noqa
        return True
    except Exception:
        return False


def history_ssh2(attempts, kh, host, server_b64):
    import scrapli.transport.plugins.ssh2.transport as M
    rec = Rec(server_b64)
    cfg = dict(attempts[0]["cfg"])
    _Ssh2State.cfg, _Ssh2State.rec = cfg, rec
    real_kh = _wrap_known_hosts(M, rec)
    out = []
    try:
        def make():
            t = M.Ssh2Transport(_base_args(host), M.PluginTransportArgs(**_plugin_kwargs(cfg, kh)))
            t.socket = _Sock()
            _wrap_verify(t, rec, ("_verify_key",))
            return t
        t = make()
        for att in attempts:
            if att.get("new"):
                t = make()
            _begin(t, cfg, rec, att, kh)
            if t.socket is None:
                t.socket = _Sock()
            try:
                t.open()
            except Exception as e:
                rec(exc_name(e))
            out.append((list(rec.ev), getattr(t, "session", None) is not None))
    finally:
        _restore_known_hosts(real_kh)
    return out


def run_ssh2(cfg, kh, host, server_b64):
    return history_ssh2([{"cfg": cfg, "close": False, "text": None}], kh, host, server_b64)[0][0]
