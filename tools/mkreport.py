#!/usr/bin/env python3
"""splices auto-generated status tables into DESIGN.md between the markers <!-- AUTO:BEGIN --> / <!-- AUTO:END -->"""
import glob, json, re, subprocess
from pathlib import Path
V = Path(__file__).resolve().parents[1]
m = json.load(open(V / "MANIFEST.json"))
kf = json.load(open(V / "known_findings.json"))["findings"]
out = []
out.append("### 10.1 Checks registered in MANIFEST.json (from the evidence of the last run in /verif)\n")
out.append("| id | level | theorems (obligations/discharged) | cases | traces vs impl | disagreements | wall s (quick) | details |")
out.append("|---|---|---|---|---|---|---|---|")
for c in m["checks"]:
    pid = c["property_id"]
    try:
        e = json.load(open(V / "evidence" / f"{pid}.json")); cov = e["coverage"]
        out.append(f"| {pid} | {e['level']} | {cov.get('obligations','-')}/{cov.get('discharged','-')} | {cov.get('evaluations','-')} | {cov.get('traces_validated_against_impl','-')} | {cov.get('disagreements_checked','-')} | {e.get('wall_s','-')} ({e['tier']}) | design/{pid}.md |")
    except Exception as ex:
        out.append(f"| {pid} | ? | no evidence ({ex}) | | | | | |")
na = m.get("not_applicable", [])
if na:
    out.append("\nNot claimed in this revision: " + "; ".join(f"{n['property_id']} ({n['reason']})" for n in na) + "\n")
out.append("\n### 10.2 Defects of the unchanged tree: repaired (`fix:` commits in /repo) and open (known_findings.json)\n")
log = subprocess.run("git -C /repo log --reverse --format='%h %s' 8148d4c..HEAD", shell=True, capture_output=True, text=True).stdout.strip().splitlines()
out.append("`fix:` commits, oldest first (each passes the 590 pinned tests unedited; patches + messages in /verif/fixes/):\n")
for l in log:
    out.append(f"* `{l.split()[0]}` {' '.join(l.split()[1:])}")
out.append("\nFindings (known_findings.json; `open` ones are replayed every run and printed as KNOWN-FINDING while their witness still fails; a violation is attributed to a finding only under its narrow predicate):\n")
out.append("| property | id | status | what |")
out.append("|---|---|---|---|")
for f in sorted(kf, key=lambda f: (f["property"], f["id"])):
    what = re.sub(r"\s+", " ", str(f.get("what", "")))[:230]
    out.append(f"| {f['property']} | {f['id']} | {f['status']}{' ' + f.get('commit','') if f.get('commit') else ''} | {what} |")
out.append("\n### 10.3 Seeded changes (independent agents given only the property text and a scratch worktree) and which check catches them\n")
out.append("| seed | what it does / what it needs | demo clean→patched | detected by (exit 1) | replay kind |")
out.append("|---|---|---|---|---|")
for d in sorted(glob.glob(str(V / "seeded" / "*" / "meta.json"))):
    mm = json.load(open(d)); sid = Path(d).parent.name; le = mm.get("lead_evaluation", {})
    det = []
    kinds = []
    for c, v in le.get("checks", {}).items():
        if v["rc"] == 1:
            det.append(f"{c} ({v['tier']})"); kinds.append(v.get("replay_kind") or "")
        else:
            det.append(f"~~{c}~~ rc={v['rc']}")
    summ = re.sub(r"\s+", " ", (mm.get("summary", "") + " — needs: " + mm.get("needs", "")))[:330]
    out.append(f"| {sid} | {summ} | {le.get('demo_clean_rc')}→{le.get('demo_patched_rc')} | {', '.join(det)} | {', '.join(k for k in kinds if k)} |")
out.append("\n### 10.3b Behaviour-preserving refactors (independent agents; every property still holds) and which checks alarm on them\n")
out.append("A check that alarms here raises a false alarm, or — when it ends in no-failing-input-found — does what the brief prescribes for a "
           "proof obligation / translator shape it can no longer follow (\"it still reports the violation\"). The table is the state after the "
           "translators were made more tolerant (behavioural extraction instead of AST shape where that was cheap); `tools/neutraltest.py` re-runs it.\n")
out.append("| refactor | what it changes | checks run | alarms |")
out.append("|---|---|---|---|")
for d in sorted(glob.glob(str(V / "neutral" / "*" / "meta.json"))):
    mm = json.load(open(d)); nid = Path(d).parent.name; le = mm.get("lead_evaluation", {})
    if not le.get("patch_applies"):
        out.append(f"| {nid} | {re.sub(chr(10), ' ', str(mm.get('summary', '')))[:200]} | patch no longer applies on HEAD {le.get('repo_head')} | - |")
        continue
    al = [f"{c} ({v.get('replay_kind') or 'rc ' + str(v['rc'])})" for c, v in le.get("checks", {}).items() if v["rc"] != 0]
    summ = re.sub(r"\s+", " ", str(mm.get("summary", mm.get("what", ""))))[:260]
    out.append(f"| {nid} | {summ} | {len(le.get('checks', {}))} | {', '.join(al) or 'none'} |")
txt = "\n".join(out) + "\n"
d = (V / "DESIGN.md").read_text()
if "<!-- AUTO:BEGIN -->" in d:
    d = re.sub(r"<!-- AUTO:BEGIN -->.*<!-- AUTO:END -->", "<!-- AUTO:BEGIN -->\n" + txt.replace("\\", "\\\\") + "<!-- AUTO:END -->", d, flags=re.S)
    (V / "DESIGN.md").write_text(d)
    print("spliced", len(txt), "bytes")
else:
    print(txt)
