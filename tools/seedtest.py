#!/usr/bin/env python3
"""Evaluate a seeded change: usage seedtest.py <src_dir containing patch.diff demo.py meta.json> <seed id e.g. C15-1> [--checks C15,C06] [--thorough] [--baseline]
Applies the patch in a scratch worktree of /repo HEAD (never in /repo), confirms demo fails with / passes without, optionally runs the pinned
baseline on the patched tree, runs the named checks with SCRAPLI_REPO=<worktree>, records everything in /verif/seeded/<id>/meta.json."""
import json, os, shutil, subprocess, sys, time
from pathlib import Path
V = Path(__file__).resolve().parents[1]
src, sid = Path(sys.argv[1]), sys.argv[2]
args = sys.argv[3:]
pid = sid.split("-")[0]
checks = [pid]
for i, a in enumerate(args):
    if a == "--checks":
        checks = args[i + 1].split(",")
tier = "thorough" if "--thorough" in args else "quick"
wt = Path(f"/tmp/wt-seedtest-{sid}")
def sh(cmd, **kw):
    return subprocess.run(cmd, shell=True, capture_output=True, text=True, **kw)
sh(f"git -C /repo worktree remove --force {wt}")
r = sh(f"git -C /repo worktree add --detach {wt} HEAD")
assert wt.exists(), r.stderr
out = V / "seeded" / sid
out.mkdir(parents=True, exist_ok=True)
for f in ("patch.diff", "demo.py", "meta.json"):
    if (src / f).resolve() != (out / f).resolve():
        shutil.copy(src / f, out / f)
meta = json.load(open(out / "meta.json"))
env = f"cd {wt} && PYTHONPATH={wt}"
demo = "demo.py"
def run_demo():
    cmd = f"{env} timeout 600 /venv/bin/python {out/'demo.py'}"
    first = open(out / "demo.py").read(3000)
    if "def test_" in first and "__main__" not in open(out / "demo.py").read():
        cmd = f"{env} timeout 600 /venv/bin/python -m pytest -q -p no:cacheprovider {out/'demo.py'}"
    return sh(cmd).returncode
res = {"repo_head": sh("git -C /repo rev-parse --short HEAD").stdout.strip(), "demo_clean_rc": run_demo()}
ap = sh(f"cd {wt} && git apply {out/'patch.diff'}")
res["patch_applies"] = ap.returncode == 0
res["demo_patched_rc"] = run_demo()
if "--baseline" in args:
    b = sh(f"/venv/bin/python {V/'tools'/'baseline.py'} {wt}")
    res["baseline_patched"] = b.stdout.strip().splitlines()[0] if b.stdout else b.stderr[-200:]
res["checks"] = {}
for c in checks:
    t0 = time.time()
    p = sh(f"cd {V} && SCRAPLI_REPO={wt} timeout 3000 /venv/bin/python tools/check.py {c} --tier {tier}")
    lines = [l for l in p.stdout.splitlines() if l.startswith("VIOLATION")]
    rep = None
    if lines and "replay=" in lines[0]:
        rp = lines[0].split("replay=")[1].split()[0]
        try:
            rep = json.load(open(rp))
            shutil.copy(rp, out / f"replay-{c}.json")
        except Exception:
            pass
    res["checks"][c] = {"tier": tier, "rc": p.returncode, "violation_line": lines[0] if lines else None, "wall_s": round(time.time() - t0, 1),
                        "replay_kind": (rep or {}).get("kind"), "what": str(((rep or {}).get("violation") or {}).get("what", ""))[:300],
                        "stderr_tail": p.stderr[-300:] if p.returncode not in (0, 1) else ""}
sh(f"git -C /repo worktree remove --force {wt}")
meta["lead_evaluation"] = res
meta["detected_by"] = [c for c, v in res["checks"].items() if v["rc"] == 1]
json.dump(meta, open(out / "meta.json", "w"), indent=1)
print(sid, "demo clean/patched rc:", res["demo_clean_rc"], res["demo_patched_rc"], "| baseline:", res.get("baseline_patched", "-"))
for c, v in res["checks"].items():
    print("  ", c, "rc", v["rc"], v["replay_kind"], (v["violation_line"] or "")[-60:], v["what"][:120], v["stderr_tail"][-120:])
